"""C09 - operator lifecycle. spec/operator/Controller.tla (design), Mon_Controller.tla (trace monitor) on the real OperatorController"""
import json
import os

import vlib


def handle(ctx, bad, evs, label):
    seen = set()
    for b in bad:
        if (b[0], b[1]) in seen or len(seen) > 12:
            continue
        seen.add((b[0], b[1]))
        lo = b[2] - 1
        while lo > 0 and evs[lo].get('ev') != 'reset':
            lo -= 1
        one = os.path.join(ctx.dir, 'viol_%s_%d_%s.ndjson' % (label, b[0], b[1]))
        with open(one, 'w') as f:
            for e in evs[lo:b[2]]:
                f.write(json.dumps(e) + '\n')
        ctx.report(b[1], None, one, None, None, '%s_beh%d_%s' % (label, b[0], b[1]))


def stats(ctx, evs):
    x = ctx.extra
    for e in evs:
        if e.get('ev') == 'summary':
            for k, v in e.items():
                if k != 'ev':
                    x.setdefault('driver_counts', {})[k] = x.get('driver_counts', {}).get(k, 0) + v
        if e.get('ev') != 'step':
            continue
        x.setdefault('actions', {})[e['a']] = x.get('actions', {}).get(e['a'], 0) + 1
        for m in e['msgs']:
            x.setdefault('commands_delivered', {})[m['k']] = x.get('commands_delivered', {}).get(m['k'], 0) + 1


def run(ctx):
    q = ctx.quick
    ctx.assumptions += [
        'the region\'s "current epoch" and "current leader" are PD\'s: the last heartbeat it processed (commands and admission are judged against that view)',
        'a change is the operator\'s own when the store executed a command that was sent while that operator was the running one; a change made '
        'between building an operator and admitting it (a leader transfer keeps the epoch) counts as foreign',
        'the store simulator applies a delivered command only on the leader it was addressed to and at the epoch it carries; '
        'ChangePeerV2 with changes enters the joint state, with none leaves it; no pending peers',
        'an operator object is never handed to AddOperator while it is running or waiting (schedulers build a fresh operator per attempt)',
        'peer ids never equal store ids (one id allocator serves both in a real cluster)',
        'an operator whose started time was moved into the past may end in timeout instead (not judged as stale)']
    ctx.mc('operator', 'Controller', 'MC_Controller.cfg', timeout=1200)
    ctx.mc('operator', 'Controller', 'MC_Controller_two.cfg', timeout=2400)
    ctx.mc('operator', 'Controller', 'MC_Controller_tworegions.cfg', timeout=2400)
    if not q:
        ctx.mc('operator', 'Controller', 'MC_Controller_three.cfg', timeout=6000, heap='24g')
    r = ctx.mc('operator', 'Controller', 'MC_Controller_norecheck.cfg', timeout=600)
    ctx.extra['design_variant_without_second_admission_check'] = 'violates %s (as it must)' % r.violated
    if r.violated != 'AdmittedOnlyAtEqualEpoch':
        raise vlib.Inconclusive('the design variant without the re-check on promotion no longer violates AdmittedOnlyAtEqualEpoch')
    seeds = [ctx.seed] if q else [ctx.seed + k for k in range(6)]
    for sd in seeds:
        for ln, hist in ((60, 250 if q else 700), (160, 60 if q else 250)):
            tr = os.path.join(ctx.dir, 'ctl_%d_%d.ndjson' % (sd, ln))
            vlib.run_harness(['operator', 'controller', 'out=' + tr, 'seed=%d' % (sd * 7 + ln), 'histories=%d' % hist, 'len=%d' % ln], timeout=3000)
            bad, evs = ctx.monitor_all('operator', 'Mon_Controller', 'Mon_Controller.cfg', tr, 'ctl_%d_%d' % (sd, ln), timeout=6000)
            handle(ctx, bad, evs, 'ctl_%d_%d' % (sd, ln))
            stats(ctx, evs)
            ctx.sample({'kind': 'controller history (first events)', 'events': [{k: v for k, v in e.items() if k in ('a', 'region', 'op', 'running', 'msgs', 'ok')} for e in evs[2:8]]})
    return ctx.finish(rule='exhaustive TLC of Controller.tla (truth/view split, waiting queue, replace by priority, commands in flight, foreign changes, time); '
                           'seeded histories of create/add/add-waiting/promote/heartbeat/push/execute/foreign change/leader move/split/remove/time on a real '
                           'OperatorController with real heartbeat streams; every command delivered to a store stream is decoded and executed by the store '
                           'simulator; Mon_Controller.tla (step semantics per kind) judges every event')


def replay(ctx, path):
    tr = os.path.join(path, 'trace.ndjson')
    bad, evs = ctx.monitor_all('operator', 'Mon_Controller', 'Mon_Controller.cfg', tr, 'replay')
    handle(ctx, bad, evs, 'replay')
    return ctx.finish()
