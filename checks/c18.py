"""C18 - dynamic configuration changes are validated, atomic and durable. spec/config/ConfigPersist.tla"""
import json
import os

import vlib


def classify(b, evs):
    return None


def handle(ctx, bad, evs, label):
    seen = set()
    for b in bad:
        e = evs[b[2] - 1]
        key = (e.get('ev'), e.get('section'), b[1])
        if key in seen:
            continue
        seen.add(key)
        lo = b[2] - 1
        while lo > 0 and evs[lo].get('ev') != 'reset':
            lo -= 1
        one = os.path.join(ctx.dir, 'viol_%s_%d_%d.ndjson' % (label, b[0], b[2]))
        with open(one, 'w') as f:
            for x in evs[lo:b[2]]:
                f.write(json.dumps(x) + '\n')
        ctx.report('%s (%s %s)' % (b[1], e.get('ev'), e.get('section')), classify(b, evs), one, None, None, '%s_beh%d_l%d' % (label, b[0], b[2]))


def run(ctx):
    q = ctx.quick
    ctx.assumptions += ['"the documented reload normalisation" is the identity for the values used here (default schedulers are never removed, '
                        'no deprecated flag is set)', 'the served configuration includes the default placement rule derived from the replication section']
    ctx.mc('config', 'MC_ConfigPersist', 'MC_ConfigPersist.cfg', timeout=600)
    seeds = [ctx.seed] if q else [ctx.seed + k for k in range(8)]
    for sd in seeds:
        behs = ctx.simulate('config', 'MC_ConfigPersist', 'Sim_ConfigPersist.cfg', num=40 if q else 500, depth=30, seed=sd)
        bj = os.path.join(ctx.dir, 'behs.json')
        json.dump(behs, open(bj, 'w'))
        tr = os.path.join(ctx.dir, 'config_%d.ndjson' % sd)
        vlib.run_harness(['config', 'replay', 'in=' + bj, 'out=' + tr], timeout=2400)
        bad, evs = ctx.monitor_all('config', 'Mon_ConfigPersist', 'Mon_ConfigPersist.cfg', tr, 'config_%d' % sd)
        handle(ctx, bad, evs, 'config_%d' % sd)
        ops = [e for e in evs if e.get('ev') != 'reset']
        ctx.extra['accepted'] = ctx.extra.get('accepted', 0) + sum(1 for e in ops if e['res'] == 'ok')
        ctx.extra['rejected_invalid'] = ctx.extra.get('rejected_invalid', 0) + sum(1 for e in ops if e['res'] == 'err' and e['invalid'])
        ctx.extra['rejected_by_storage_failure'] = ctx.extra.get('rejected_by_storage_failure', 0) + sum(1 for e in ops if e['res'] == 'err' and e.get('failed_write'))
        ctx.sample({'kind': 'configuration updates on a real server', 'events': [{k: v for k, v in e.items() if k in ('ev', 'section', 'val', 'res', 'invalid', 'failed_write')} for e in ops[:8]]})
    return ctx.finish(rule='ConfigPersist.tla (validate / swap / persist / roll back; TLC exhaustive on 3 sections x 3 values x 2 labels, 5 updates, '
                           '2 failures); TLC -simulate update sequences with valid, boundary and out-of-domain values and a storage failure at any '
                           'update replayed through Server.Set*Config of a real server; after every update the served sections and what a fresh '
                           'PersistOptions reloads from storage are recorded; Mon_ConfigPersist.tla decides')


def replay(ctx, path):
    tr = os.path.join(path, 'trace.ndjson')
    bad, evs = ctx.monitor_all('config', 'Mon_ConfigPersist', 'Mon_ConfigPersist.cfg', tr, 'replay')
    handle(ctx, bad, evs, 'replay')
    return ctx.finish()
