"""C07 - region lookups and per-store statistics match the cached region set. spec/region/RegionIndex.tla <-> server/core"""
import json
import os

import vlib


def handle(ctx, bad, evs, label):
    seen = set()
    for b in bad:
        if b[0] in seen:
            continue
        seen.add(b[0])
        lo = b[2] - 1
        while lo > 0 and evs[lo].get('ev') != 'reset':
            lo -= 1
        one = os.path.join(ctx.dir, 'viol_%s_%d.ndjson' % (label, b[0]))
        with open(one, 'w') as f:
            for e in evs[lo:b[2]]:
                f.write(json.dumps(e) + '\n')
        ctx.report('query "%s" disagrees with the linear scan' % b[1], None, one, None, None, '%s_beh%d' % (label, b[0]))


def run(ctx):
    q = ctx.quick
    ctx.assumptions += ['random picks: a region returned outside the candidate set is a violation; a candidate never returned is not',
                        'keys are compared as byte strings; the binding encodes model key k as "k%06d" and 0 / Inf as the empty key']
    ctx.mc('region', 'RegionIndex', 'MC_RegionIndex.cfg', timeout=600)
    seeds = [ctx.seed] if q else [ctx.seed + k for k in range(8)]
    nq = 0
    for sd in seeds:
        tr = os.path.join(ctx.dir, 'index_%d.ndjson' % sd)
        vlib.run_harness(['region', 'index', 'out=' + tr, 'seed=%d' % sd, 'histories=%d' % (25 if q else 200), 'ops=%d' % (100 if q else 200),
                          'big=%d' % (2 if q else 5)])
        bad, evs = ctx.monitor_all('region', 'Trace_RegionIndex', 'Trace_RegionIndex.cfg', tr, 'index_%d' % sd, timeout=3000)
        nq += sum(len(e['qs']) for e in evs if e.get('ev') == 'q')
        handle(ctx, bad, evs, 'index_%d' % sd)
        ctx.sample({'kind': 'operation + answers of the real index (truncated)', 'op': evs[1], 'answers': evs[2]['qs'][:6]})
    ctx.extra['query_answers_checked'] = nq
    return ctx.finish(rule='RegionIndex.tla defines every lookup/statistic by linear scan over the region set (exhaustively model-checked for '
                           'non-overlap on a small domain); seeded histories of puts/updates/removals on the real core.RegionsInfo (12 keys, '
                           '9 ids, 4 stores, plus 200-350 region grow/shrink/regrow histories) are recorded with the answers of all real '
                           'queries after every operation, and TLC recomputes each answer from the model state (Trace_RegionIndex.tla)')


def replay(ctx, path):
    tr = os.path.join(path, 'trace.ndjson')
    bad, evs = ctx.monitor_all('region', 'Trace_RegionIndex', 'Trace_RegionIndex.cfg', tr, 'replay')
    handle(ctx, bad, evs, 'replay')
    return ctx.finish()
