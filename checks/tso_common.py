"""Shared by C01 and C02: spec/tso/TSO.tla <-> server/tso."""
import json
import os

import vlib

C01 = {'Unique', 'RealTimeOrder', 'LogicalFits'}
C02 = {'WindowMonotone', 'GrantBelowWindow'}

MEMBERS = ['m1', 'm2']


def compare_with_model(ctx, behs, evs, label):
    by = {(e['beh'], e['step']): e for e in evs if e.get('ev') not in ('reset',)}
    n = 0
    for bi, beh in enumerate(behs):
        for si, st in enumerate(beh):
            if si == 0:
                continue
            e = by.get((bi, si))
            if e is None or e['ev'] == 'drift':
                ctx.drift.append({'label': label, 'what': 'step could not be driven', 'beh': bi, 'step': si, 'action': st['action'],
                                  'args': st['args'], 'why': (e or {}).get('why')})
                break
            s = st['state']
            n += 1
            diff = {}
            if e['window'] != s['window']:
                diff['window'] = (s['window'], e['window'])
            if e['leader'] != s['leaderKey']:
                diff['leader'] = (s['leaderKey'], e['leader'])
            for m in MEMBERS:
                for k, mk in (('lease', 'lease'), ('phys', 'phys'), ('logi', 'logi'), ('last', 'lastSaved')):
                    if k == 'last' and not s['lease'][m] and s['phys'][m] == 0:
                        continue  # the cached window of a member that holds nothing is not observable state
                    if e[k][m] != s[mk][m]:
                        diff['%s[%s]' % (k, m)] = (s[mk][m], e[k][m])
            if diff:
                ctx.drift.append({'label': label, 'what': 'state differs from the specification (model, real)', 'beh': bi, 'step': si,
                                  'action': st['action'], 'args': st['args'], 'diff': diff})
                break
    return n


def classify(bad_entry, evs):
    """Known-finding signatures, decided from the recorded history of the trace the violation is in."""
    tr, clause, line = bad_entry
    # A known interleaving earlier in the trace explains a later violation of ANY clause: e.g. a stale update of an earlier
    # term that is applied after the same member was re-elected leaves the window where it is but moves the physical time
    # back, and the next grants repeat timestamps another member handed out (a C01 clause) - found by the thorough tier.
    # events of this trace up to the violating line
    lo = line - 1
    while lo > 0 and evs[lo].get('ev') != 'reset':
        lo -= 1
    prefix = evs[lo + 1:line]
    # walk: per member, is an update in flight; what happened while it was
    inflight = {}
    lost = set()
    for e in prefix:
        m = e.get('m')
        a = e['ev']
        if a == 'UpdRead' and e.get('res') == 'parked':
            inflight[m] = {'reset': False, 'campaign': False}
        elif a == 'ResetUser':
            if m in inflight and e.get('saved') and e.get('res') == 'ok':
                inflight[m]['reset'] = True
            if e.get('saved') and e.get('o') == 'lost':
                lost.add(m)
        elif a == 'Campaign':
            if m in inflight:
                inflight[m]['campaign'] = True
        elif a == 'UpdSave':
            info = inflight.pop(m, None)
            if info and info['reset']:
                return 'C02-upd-reset-race'
            if info and info['campaign']:
                return 'C02-stale-upd-across-terms'
            if m in lost:
                return 'C02-reset-lost-reply'
        elif a == 'Crash':
            inflight.pop(m, None)
    # a reset racing with an update in the other order: the reset decided from a window cached before the update saved
    last = prefix[-1] if prefix else {}
    if last.get('ev') == 'ResetUser' and last.get('m') in lost:
        return 'C02-reset-lost-reply'
    return None


def same_term_after_race(bad_entry, evs):
    """The update/reset race (C02-upd-reset-race) lowers the STORED window; it never moves the serving member's memory back.
    A duplicate or an order violation can follow from it only through a member that synchronises from the lowered window,
    i.e. after a campaign. A C01 clause violated with no campaign between the racing reset and the violation is therefore
    not a consequence of that finding."""
    tr, clause, line = bad_entry
    if clause not in ('Unique', 'RealTimeOrder'):
        return False
    lo = line - 1
    while lo > 0 and evs[lo].get('ev') != 'reset':
        lo -= 1
    prefix = evs[lo + 1:line]
    parked = set()
    race_at = None
    for i, e in enumerate(prefix):
        m, a = e.get('m'), e['ev']
        if a == 'UpdRead' and e.get('res') == 'parked':
            parked.add(m)
        elif a in ('UpdSave', 'Crash'):
            parked.discard(m)
        elif a == 'ResetUser' and m in parked and race_at is None:
            race_at = i
    if race_at is None:
        return False
    return not any(e['ev'] in ('Campaign', 'SyncLoad', 'SyncSave', 'Crash', 'DeleteKey', 'StepDown', 'Delete', 'Resign', 'Expire') for e in prefix[race_at:])


def handle_bad(ctx, clauses, bad, evs, label):
    """classify every violation of a recording: known finding (taints the rest of its trace) or unknown -> report"""
    findings = [f for f in vlib.load_findings() if f.get('property') in ('C01', 'C02') and f.get('status') == 'open']
    tainted = {}
    hits = []
    for b in bad:
        if b[0] in tainted and not (tainted[b[0]] == 'C02-upd-reset-race' and same_term_after_race(b, evs)):
            continue
        sig = classify(b, evs)
        if sig == 'C02-upd-reset-race' and same_term_after_race(b, evs):
            sig = None
        known = sorted([f for f in findings if f.get('signature') == sig], key=lambda f: f['property'] != ctx.pid)
        if known:
            if known[0]['property'] != ctx.pid and b[1] in clauses:
                k = 'violations_explained_by_a_known_finding_of_another_property'
                ctx.extra.setdefault(k, {})[known[0]['id']] = ctx.extra.get(k, {}).get(known[0]['id'], 0) + 1
            # a known defect has corrupted this trace; later violations in it are consequences
            tainted[b[0]] = sig
            hits.append(known[0]['id'])
            if known[0]['property'] == ctx.pid:
                ctx.known_hits[known[0]['id']] = ctx.known_hits.get(known[0]['id'], 0) + 1
            continue
        if b[1] not in clauses:
            continue
        lo = b[2] - 1
        while lo > 0 and evs[lo].get('ev') != 'reset':
            lo -= 1
        one = os.path.join(ctx.dir, 'viol_%s_%d.ndjson' % (label, b[0]))
        with open(one, 'w') as f:
            for e in evs[lo:b[2]]:
                f.write(json.dumps(e) + '\n')
        ctx.report(b[1], sig, one, None, None, '%s_beh%d' % (label, b[0]))
        tainted[b[0]] = 'reported'
    return hits


def replay_known_counterexamples(ctx, clauses):
    """For every open finding of the TSO area: the unrestricted model must still produce the counterexample, and the
    counterexample, replayed on the real code, must still show the defect (otherwise the finding is stale)."""
    for f in vlib.load_findings():
        if f.get('property') not in ('C01', 'C02') or f.get('status') != 'open' or not f.get('mc_cfg'):
            continue
        r = ctx.mc('tso', 'TSO', f['mc_cfg'], timeout=600, expect_violation=f.get('mc_violates', 'WindowMonotone'))
        beh = [{'action': s['action'], 'args': s['args'], 'state': s['state']} for s in r.cex]
        bj = os.path.join(ctx.dir, 'cex.json')
        json.dump([beh], open(bj, 'w'))
        tr = os.path.join(ctx.dir, 'cex_%s.ndjson' % f['id'])
        vlib.run_harness(['tso', 'replay', 'in=' + bj, 'out=' + tr, 'saveint=2', 'maxgap=4'])
        bad, evs = ctx.monitor_all('tso', 'Mon_TSO', 'Mon_TSO.cfg', tr, 'cex_' + f['id'])
        hits = handle_bad(ctx, clauses, bad, evs, 'cex_' + f['id'])
        ctx.extra.setdefault('known_counterexamples_replayed', {})[f['id']] = ('reproduced on the real code' if f['id'] in hits
                                                                             else 'NOT reproduced on the real code')
        if f['id'] not in hits:
            vlib.log('note: open finding %s no longer reproduces on the real code (fixed?)' % f['id'])


def run_replays(ctx, clauses, q):
    seeds = [ctx.seed] if q else [ctx.seed + k for k in range(4)]
    for sd in seeds:
        for cfg, label, num in (('Sim_TSO.cfg', 'clean', 150 if q else 500), ('Sim_TSO_known.cfg', 'known', 100 if q else 400),
                                ('Sim_TSO_logical.cfg', 'logical', 40 if q else 150), ('Sim_TSO_deposed.cfg', 'deposed', 60 if q else 400)):
            behs = ctx.simulate('tso', 'TSO', cfg, num=num, depth=45, seed=sd)
            bj = os.path.join(ctx.dir, 'behs.json')
            json.dump(behs, open(bj, 'w'))
            tr = os.path.join(ctx.dir, 'replay_%s_%d.ndjson' % (label, sd))
            vlib.run_harness(['tso', 'replay', 'in=' + bj, 'out=' + tr, 'saveint=3', 'maxgap=12'], timeout=1800)
            bad, evs = ctx.monitor_all('tso', 'Mon_TSO', 'Mon_TSO.cfg', tr, '%s_%d' % (label, sd))
            n = compare_with_model(ctx, behs, evs, label)
            ctx.extra['model_steps_replayed_and_compared'] = ctx.extra.get('model_steps_replayed_and_compared', 0) + n
            if label == 'clean':
                ctx.sample({'kind': 'TLC behaviour of TSO.tla replayed on real AllocatorManagers (first events)',
                            'events': [{k: v for k, v in e.items() if k not in ('clock',)} for e in evs[:6]]})
            handle_bad(ctx, clauses, bad, evs, '%s_%d' % (label, sd))


def run_random(ctx, clauses, q):
    """seeded random histories of the model's operations executed on the real objects (no state prediction)"""
    seeds = [ctx.seed] if q else [ctx.seed + k for k in range(6)]
    for sd in seeds:
        for known in (0, 1):
            tr = os.path.join(ctx.dir, 'random_%d_%d.ndjson' % (sd, known))
            vlib.run_harness(['tso', 'random', 'out=' + tr, 'seed=%d' % (sd * 2 + known), 'histories=%d' % ((120 if q else 400) if not known else (40 if q else 150)),
                              'ops=200', 'known=%d' % known], timeout=1800)
            bad, evs = ctx.monitor_all('tso', 'Mon_TSO', 'Mon_TSO.cfg', tr, 'random_%d_%d' % (sd, known))
            handle_bad(ctx, clauses, bad, evs, 'random_%d_%d' % (sd, known))


def run_history(ctx, q):
    seeds = [ctx.seed] if q else [ctx.seed + k for k in range(3)]
    for sd in seeds:
        tr = os.path.join(ctx.dir, 'history_%d.ndjson' % sd)
        vlib.run_harness(['tso', 'history', 'out=' + tr, 'seed=%d' % sd, 'rounds=%d' % (2 if q else 4), 'goroutines=8',
                          'calls=%d' % (100 if q else 200)], timeout=1800)
        ctx.monitor('tso', 'Mon_TSOHistory', 'Mon_TSOHistory.cfg', tr, 'history_%d' % sd)


LG_C01 = {'UniqueWithinAllocator', 'LogicalFits', 'ConcurrentGlobalRequestsShareValues', 'RealTimeOrder'}
LG_C05 = {'NeverEqual', 'RealTimeOrder', 'GlobalBatchAboveEarlierLocal', 'SuffixStable', 'SuffixUniqueAndWideEnough', 'LogicalFits'}


def run_local_global(ctx, clauses, q):
    """a real 3-server cluster with per-datacenter allocators; Mon_LocalGlobal.tla decides. Violations are reported
    under the property whose clause set contains them; the known finding is matched by clause name."""
    seeds = [ctx.seed] if q else [ctx.seed + k for k in range(3)]
    findings = [f for f in vlib.load_findings() if f.get('status') == 'open']
    for sd in seeds:
        for gc in (1, 8):
            tr = os.path.join(ctx.dir, 'lg_%d_%d.ndjson' % (sd, gc))
            vlib.run_harness(['tso', 'localglobal', 'out=' + tr, 'seed=%d' % (sd * 10 + gc), 'rounds=%d' % (150 if q else 500), 'globalcount=%d' % gc], timeout=2400)
            bad, evs = ctx.monitor_all('tso', 'Mon_LocalGlobal', 'Mon_LocalGlobal.cfg', tr, 'lg_%d_%d' % (sd, gc), timeout=3000)
            ctx.extra['local_global_requests'] = ctx.extra.get('local_global_requests', 0) + sum(1 for e in evs if e.get('ev') == 'ts' and not e['err'])
            ctx.extra['allocator_leader_moves'] = ctx.extra.get('allocator_leader_moves', 0) + sum(1 for e in evs if e.get('ev') == 'transfer')
            seen = set()
            for b in bad:
                if b[1] not in clauses or b[1] in seen:
                    continue
                seen.add(b[1])
                known = [f for f in findings if f.get('signature') == 'LG-' + b[1] and f.get('property') == ctx.pid]
                if known:
                    ctx.known_hits[known[0]['id']] = ctx.known_hits.get(known[0]['id'], 0) + sum(1 for x in bad if x[1] == b[1])
                    continue
                one = os.path.join(ctx.dir, 'viol_lg_%d_%d_%s.ndjson' % (sd, gc, b[1]))
                with open(one, 'w') as f:
                    for e in evs[:b[2]]:
                        f.write(json.dumps(e) + '\n')
                ctx.report(b[1], None, one, None, None, 'lg_%d_%d_%s' % (sd, gc, b[1]))
            if gc == 1:
                ctx.sample({'kind': 'local and global requests on a real 3-datacenter cluster', 'events': [e for e in evs if e.get('ev') == 'ts'][:6]})
