"""C11 - scatter and balance moves preserve a region's replica count and roles. spec/schedule/Moves.tla as an oracle"""
import json
import os

import vlib

KNOWN = {'LeadersMoveOnlyToAcceptingStores_BackToOriginLeaderStore': 'C11-leader-handed-back-to-origin-leader-store'}


def handle(ctx, bad, evs, label):
    seen = set()
    for b in bad:
        sig = KNOWN.get(b[1])
        if sig is None and (b[1] in seen or len(seen) > 10):
            continue
        seen.add(b[1])
        one = os.path.join(ctx.dir, 'viol_%s_%d.ndjson' % (label, b[2]))
        with open(one, 'w') as f:
            f.write(json.dumps({'ev': 'reset', 'beh': 0, 'mode': 'moves'}) + '\n' + json.dumps(evs[b[2] - 1]) + '\n')
        ctx.report(b[1], sig, one, None, None, '%s_op%d_%s' % (label, b[0], b[1]))


def tally(ctx, evs):
    ctx.tally([e for e in evs if e.get('ev') == 'move'], lambda e: [e.get(k) for k in ('src', 'stores', 'origin', 'leader', 'steps')], lambda e: len(e['steps']) >= 2)
    for e in evs:
        if e.get('ev') == 'move':
            k = e['src']
            ctx.extra.setdefault('operators_judged', {})[k] = ctx.extra.get('operators_judged', {}).get(k, 0) + 1
            if any(p[2] == 'Learner' for p in e['origin']):
                ctx.extra['operators_on_regions_with_learners'] = ctx.extra.get('operators_on_regions_with_learners', 0) + 1


def run(ctx):
    q = ctx.quick
    ctx.assumptions += [
        'a store accepts leaders when it is up, not down and does not carry the reject-leader label property; the store an administrator names '
        'for grant-leader / evict-leader is such a store',
        'operators are executed step by step on the region model of Steps.tla (ChangePeerV2 with changes enters the joint state)',
        'merge and split operators are not moves of peers or leaders and are skipped',
        'regions offered to scatter and to the schedulers are fully replicated (3 voters, plus a TiFlash learner when a learner rule exists); '
        'the others are refused by the code under test']
    seeds = [ctx.seed] if q else [ctx.seed + k for k in range(5)]
    for sd in seeds:
        tr = os.path.join(ctx.dir, 'scatter_%d.ndjson' % sd)
        vlib.run_harness(['sched', 'scatter', 'out=' + tr, 'seed=%d' % sd, 'histories=%d' % (150 if q else 600), 'len=60'], timeout=3000)
        bad, evs = ctx.monitor_all('operator+schedule', 'Moves', 'Moves.cfg', tr, 'scatter_%d' % sd, timeout=6000)
        handle(ctx, bad, evs, 'scatter_%d' % sd)
        tally(ctx, evs)
        ctx.sample({'kind': 'scatter operator', 'op': next(e for e in evs if e.get('ev') == 'move' and len(e['steps']) > 2)})
        tr = os.path.join(ctx.dir, 'sched_%d.ndjson' % sd)
        vlib.run_harness(['sched', 'schedulers', 'out=' + tr, 'seed=%d' % sd, 'cases=%d' % (150 if q else 600)], timeout=3000)
        bad, evs = ctx.monitor_all('operator+schedule', 'Moves', 'Moves.cfg', tr, 'sched_%d' % sd, timeout=6000)
        handle(ctx, bad, evs, 'sched_%d' % sd)
        tally(ctx, evs)
    return ctx.finish(level='exploration', rule='evaluations = operators produced by scatter and the schedulers; non-trivial = at least two steps, distinct by (producer, stores, origin, leader, steps). Moves.tla executes every recorded operator on the region model of Steps.tla and states the C11 clauses (same number of voters and learners, '
                           'not left in the joint state, one peer per store in every intermediate state, adds only on up stores that do not hold the region, leader '
                           'transfers only to voters on accepting stores, source and target differ); histories of Scatter calls (groups, earlier decisions, '
                           'operators applied or not) on one RegionScatterer, and the schedulers balance-region, balance-leader, shuffle-region, shuffle-leader, '
                           'label, evict-leader, grant-leader, scatter-range, hot-region, shuffle-hot-region on seeded clusters (4-9 stores in every state, '
                           'reject-leader labels, TiFlash stores with a learner rule, placement rules on/off, joint consensus on/off, write-hot regions)')


def replay(ctx, path):
    tr = os.path.join(path, 'trace.ndjson')
    bad, evs = ctx.monitor_all('operator+schedule', 'Moves', 'Moves.cfg', tr, 'replay')
    handle(ctx, bad, evs, 'replay')
    return ctx.finish()
