"""C17 - persisted stores and regions are loaded back completely and pruned consistently. spec/storage/Load.tla"""
import json
import os

import vlib


def handle(ctx, bad, evs, label):
    seen = set()
    for b in bad:
        e = evs[b[2] - 1]
        key = (b[1], e.get('backend'), e.get('ids'))
        if key in seen:
            continue
        seen.add(key)
        one = os.path.join(ctx.dir, 'viol_%s_%d.ndjson' % (label, b[2]))
        with open(one, 'w') as f:
            f.write(json.dumps({'ev': 'reset', 'beh': 0, 'mode': 'load'}) + '\n' + json.dumps(e) + '\n')
        ctx.report('%s (%s, %s ids, n=%s)' % (b[1], e.get('backend'), e.get('ids'), e.get('n')), None, one, None, None, '%s_l%d' % (label, b[2]))


def run(ctx):
    q = ctx.quick
    ctx.assumptions += ['the message-size limit that forces the adaptive page size down is imitated by a kv.Base wrapper that fails range reads '
                        'asking for more than 200 items', 'regions saved after the last successful flush/close may be lost by a process stop']
    ctx.mc('storage', 'Load', 'MC_Load.cfg', timeout=600)
    seeds = [ctx.seed] if q else [ctx.seed + k for k in range(6)]
    for sd in seeds:
        tr = os.path.join(ctx.dir, 'load_%d.ndjson' % sd)
        vlib.run_harness(['storage', 'load', 'out=' + tr, 'seed=%d' % sd, 'tier=' + ctx.tier], timeout=3000)
        bad, evs = ctx.monitor_all('storage', 'Mon_Load', 'Mon_Load.cfg', tr, 'load_%d' % sd, timeout=3000)
        handle(ctx, bad, evs, 'load_%d' % sd)
        ctx.extra['cases'] = ctx.extra.get('cases', 0) + len(evs) - 1
        ctx.sample({'kind': 'full load case', 'event': {k: (v if not isinstance(v, list) or len(v) < 8 else v[:8] + ['...']) for k, v in evs[5].items()}})
    return ctx.finish(rule='Load.tla: the paging loop with an exclusive cursor over ids up to the largest representable one (TLC: every subset of 7 ids '
                           'incl. the top one, page limit 2, termination); real full loads of stores (memory and etcd backends, weights) and regions '
                           '(memory, leveldb with flush / close / stop-between-batches / one failed flush, message-size-limited backend) for sizes '
                           'around every paging boundary and dense / sparse / top-of-range ids, and loads into the cache over storage with stale '
                           'overlapping leftovers; Mon_Load.tla decides each recorded case')


def replay(ctx, path):
    tr = os.path.join(path, 'trace.ndjson')
    bad, evs = ctx.monitor_all('storage', 'Mon_Load', 'Mon_Load.cfg', tr, 'replay')
    handle(ctx, bad, evs, 'replay')
    return ctx.finish()
