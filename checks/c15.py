"""C15 - GC safe points never move backwards. spec/gc/SafePoint.tla, ServiceSafePoint.tla <-> server/grpc_service.go"""
import json
import os

import vlib
from tlaval import setof


def classify(r, evs):
    return None


def compare_service(ctx, behs, evs):
    """model -> implementation: stored registrations after every call equal the specification's reg."""
    by = {(e['beh'], e['step']): e for e in evs if e.get('ev') in ('Update', 'Tick', 'Delete')}
    n = 0
    for bi, beh in enumerate(behs):
        seen_update = False
        for si, st in enumerate(beh):
            if si == 0:
                continue
            e = by.get((bi, si))
            if e is None:
                ctx.drift.append({'label': 'svc', 'what': 'step not executed', 'beh': bi, 'step': si})
                break
            if st['action'] == 'Update':
                seen_update = True
            if not seen_update:
                continue
            reg = st['state']['reg']
            want = sorted((k, v['sp'], v['until'] >= 1000000) for k, v in (reg.items() if isinstance(reg, dict) else []))
            got = sorted((x['id'], x['sp'], x['exp'] == -1) for x in e['all'])
            n += 1
            if want != got:
                ctx.drift.append({'label': 'svc', 'what': 'stored registrations differ from the specification', 'beh': bi, 'step': si,
                                  'action': st['action'], 'args': st['args'], 'model': want, 'real': got})
                break
    return n


def run(ctx):
    q = ctx.quick
    ctx.assumptions += ['storage Load/Save of the etcd-backed kv.Base are atomic',
                        'service safe point time is driven by moving the TSO clock forward (SetTSO) by 1000 s per model tick; '
                        'TTLs are 300+1000j s so that expiry is unambiguous while a run lasts < 300 s']
    ctx.mc('gc', 'SafePoint', 'MC_SafePoint.cfg', timeout=900, coverage=q)
    # the same model without mutual exclusion must exhibit the lost-update interleaving (non-vacuity of the model)
    ctx.mc('gc', 'SafePoint', 'MC_SafePoint_unlocked.cfg', timeout=300, expect_violation='StoredMonotone')
    ctx.mc('gc', 'ServiceSafePoint', 'MC_ServiceSafePoint.cfg', timeout=900, coverage=q)
    # the locked handler without a bound on the number of calls: inductive invariant discharged symbolically
    ctx.apalache('gc', 'SafePointInd', 'Init', 'IndInv', 0)
    ctx.apalache('gc', 'SafePointInd', 'IndInv', 'IndInv', 1)
    ctx.apalache('gc', 'SafePointInd', 'IndInv', 'StoredMonotoneAct', 1)
    seeds = [ctx.seed] if q else [ctx.seed + k for k in range(3)]
    for sd in seeds:
        # gate-level interleavings of concurrent updates, from the unlocked model (every order the harness can attempt)
        behs = ctx.simulate('gc', 'SafePoint', 'Sim_SafePoint.cfg', num=120 if q else 500, depth=30, seed=sd)
        bj = os.path.join(ctx.dir, 'behs.json')
        json.dump(behs, open(bj, 'w'))
        tr = os.path.join(ctx.dir, 'replay_%d.ndjson' % sd)
        vlib.run_harness(['gc', 'replay', 'in=' + bj, 'out=' + tr])
        ctx.monitor('gc', 'Mon_SafePoint', 'Mon_SafePoint.cfg', tr, 'replay_%d' % sd, classify)
        evs = vlib.read_ndjson(tr)
        hows = {}
        for e in evs:
            if e.get('ev') == 'step':
                hows[e['how']] = hows.get(e['how'], 0) + 1
        ctx.extra.setdefault('gate_step_outcomes', {}).update(hows)
        ctx.sample({'kind': 'gated concurrent UpdateGCSafePoint calls on a real server (first events)', 'events': evs[:10]})
        tr2 = os.path.join(ctx.dir, 'stress_%d.ndjson' % sd)
        vlib.run_harness(['gc', 'stress', 'out=' + tr2, 'seed=%d' % sd, 'rounds=%d' % (3 if q else 8), 'calls=%d' % (60 if q else 120)])
        ctx.monitor('gc', 'Mon_SafePoint', 'Mon_SafePoint.cfg', tr2, 'stress_%d' % sd, classify)
        # service safe points
        for fillers in (0, 120):
            behs = ctx.simulate('gc', 'ServiceSafePoint', 'Sim_ServiceSafePoint.cfg', num=(80 if q else 300) if fillers == 0 else (12 if q else 40),
                                depth=20, seed=sd + fillers)
            json.dump(behs, open(bj, 'w'))
            tr3 = os.path.join(ctx.dir, 'svc_%d_%d.ndjson' % (sd, fillers))
            vlib.run_harness(['gc', 'svcreplay', 'in=' + bj, 'out=' + tr3, 'fillers=%d' % fillers, 'maxttl=2'])
            evs = vlib.read_ndjson(tr3)
            n = compare_service(ctx, behs, evs)
            ctx.extra['model_steps_replayed_and_compared'] = ctx.extra.get('model_steps_replayed_and_compared', 0) + n
            ctx.monitor('gc', 'Mon_ServiceSafePoint', 'Mon_ServiceSafePoint.cfg', tr3, 'svc_%d_%d' % (sd, fillers), classify)
            if fillers == 0:
                ctx.sample({'kind': 'service safe point calls replayed on a real server', 'events': evs[1:5]})
    return ctx.finish(rule='exhaustive TLC of SafePoint.tla (3 clients, values 0..3, load/save granularity, failing loads and saves) and '
                           'ServiceSafePoint.tla; gate-level interleavings from TLC -simulate driven through the real gRPC handlers '
                           'with a storage gate; concurrent stress; service registration behaviours replayed and compared; all '
                           'recordings decided by Mon_SafePoint.tla / Mon_ServiceSafePoint.tla')


def replay(ctx, path):
    tr = os.path.join(path, 'trace.ndjson')
    evs = vlib.read_ndjson(tr)
    if any(e.get('mode') == 'svc' for e in evs):
        ctx.monitor('gc', 'Mon_ServiceSafePoint', 'Mon_ServiceSafePoint.cfg', tr, 'replay', classify)
    else:
        ctx.monitor('gc', 'Mon_SafePoint', 'Mon_SafePoint.cfg', tr, 'replay', classify)
    return ctx.finish()
