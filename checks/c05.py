"""C05 - local and global timestamps are mutually consistent. spec/tso/LocalGlobal.tla, Suffix.tla"""
import json
import os

import tso_common as T
import vlib


def handle(ctx, bad, evs, label):
    seen = set()
    for b in bad:
        if (b[0], b[1]) in seen:
            continue
        seen.add((b[0], b[1]))
        lo = b[2] - 1
        while lo > 0 and evs[lo].get('ev') != 'reset':
            lo -= 1
        one = os.path.join(ctx.dir, 'viol_%s_%d_%s.ndjson' % (label, b[0], b[1]))
        with open(one, 'w') as f:
            for e in evs[lo:b[2]]:
                f.write(json.dumps(e) + '\n')
        ctx.report(b[1], None, one, None, None, '%s_beh%d_%s' % (label, b[0], b[1]))


def run(ctx):
    q = ctx.quick
    ctx.assumptions += ['real-time order is required within one allocator and between the global allocator and a local one, not between two local allocators',
                        'the exhaustive model of the global protocol uses single-value global requests; a model-level counterexample for multi-value '
                        'global requests (the smaller values of the batch below an earlier local timestamp) could not be reproduced on the real '
                        'cluster and is therefore not reported (see DESIGN.md, C05)',
                        'in-process cluster of three real servers; RPCs between them go over real loopback gRPC']
    ctx.mc('tso', 'LocalGlobal', 'MC_LocalGlobal.cfg', timeout=1800)
    ctx.mc('tso', 'Suffix', 'MC_Suffix.cfg', timeout=600)
    # the same suffix model without the leader guard must exhibit the duplicate (non-vacuity; this was the defect repaired by the fix)
    ctx.mc('tso', 'Suffix', 'MC_Suffix_unguarded.cfg', timeout=600, expect_violation='SuffixUnique')
    seeds = [ctx.seed] if q else [ctx.seed + k for k in range(3)]
    for sd in seeds:
        tr = os.path.join(ctx.dir, 'suffix_%d.ndjson' % sd)
        vlib.run_harness(['tso', 'suffix', 'out=' + tr, 'seed=%d' % sd, 'rounds=%d' % (20 if q else 80)])
        bad, evs = ctx.monitor_all('tso', 'Mon_Suffix', 'Mon_Suffix.cfg', tr, 'suffix_%d' % sd)
        handle(ctx, bad, evs, 'suffix_%d' % sd)
        ctx.extra['stale_suffix_transactions_of_old_leader'] = ctx.extra.get('stale_suffix_transactions_of_old_leader', 0) + sum(1 for e in evs if e.get('ev') == 'StaleTxnOfOldLeader')
    T.run_local_global(ctx, T.LG_C05, q)
    return ctx.finish(rule='exhaustive TLC of LocalGlobal.tla (2 datacenters, the global request in phases estimate/check/decide/write/return '
                           'interleaved with local requests and physical ticks) and Suffix.tla (2 members, 3 datacenters, a leader change with '
                           'a transaction in flight); suffix assignment of an old and a new leader interleaved at the etcd transaction on real '
                           'AllocatorManagers; request histories (sequential patterns inside one physical tick, concurrent phases, allocator leader '
                           'moves) from a real 3-server cluster with per-datacenter allocators; Mon_Suffix.tla / Mon_LocalGlobal.tla decide')


def replay(ctx, path):
    tr = os.path.join(path, 'trace.ndjson')
    evs = vlib.read_ndjson(tr)
    if evs and evs[0].get('mode') == 'suffix':
        bad, evs = ctx.monitor_all('tso', 'Mon_Suffix', 'Mon_Suffix.cfg', tr, 'replay')
        handle(ctx, bad, evs, 'replay')
    else:
        bad, evs = ctx.monitor_all('tso', 'Mon_LocalGlobal', 'Mon_LocalGlobal.cfg', tr, 'replay')
        for b in bad:
            if b[1] in T.LG_C05:
                ctx.report(b[1], None, tr, None, None, 'replay')
                break
    return ctx.finish()
