"""C05 - local and global timestamps are mutually consistent. spec/tso/LocalGlobal.tla, Suffix.tla"""
import json
import os

import tso_common as T
import vlib


def handle(ctx, bad, evs, label):
    seen = set()
    for b in bad:
        if (b[0], b[1]) in seen:
            continue
        seen.add((b[0], b[1]))
        lo = b[2] - 1
        while lo > 0 and evs[lo].get('ev') != 'reset':
            lo -= 1
        one = os.path.join(ctx.dir, 'viol_%s_%d_%s.ndjson' % (label, b[0], b[1]))
        with open(one, 'w') as f:
            for e in evs[lo:b[2]]:
                f.write(json.dumps(e) + '\n')
        ctx.report(b[1], None, one, None, None, '%s_beh%d_%s' % (label, b[0], b[1]))


def run(ctx):
    q = ctx.quick
    ctx.assumptions += ['real-time order is required within one allocator and between the global allocator and a local one, not between two local allocators',
                        'LocalGlobal.tla (the abstract protocol, one round of requests) is checked with single-value global requests; '
                        'GlobalPhases.tla (the protocol as coded: SyncMaxTS always sends its request twice, so the second round meets equal '
                        'values, is answered with +1 and every request goes through the second phase) is checked with multi-value requests too; '
                        'with one round only the smaller values of a multi-value global request could fall below an earlier local timestamp '
                        '(MC_GlobalPhases_oneround.cfg must be refuted)',
                        'for the request-by-request replay all allocators are first moved one hour ahead of the wall clock (two administrator '
                        'resets), so that no clock ticks on its own; clock movements are administrator resets of 3 ms or to the value in flight',
                        'in-process cluster of three real servers; RPCs between them go over real loopback gRPC']
    ctx.mc('tso', 'LocalGlobal', 'MC_LocalGlobal.cfg', timeout=1800)
    ctx.mc('tso', 'Suffix', 'MC_Suffix.cfg', timeout=600)
    # the same suffix model without the leader guard must exhibit the duplicate (non-vacuity; this was the defect repaired by the fix)
    ctx.mc('tso', 'Suffix', 'MC_Suffix_unguarded.cfg', timeout=600, expect_violation='SuffixUnique')
    seeds = [ctx.seed] if q else [ctx.seed + k for k in range(3)]
    for sd in seeds:
        tr = os.path.join(ctx.dir, 'suffix_%d.ndjson' % sd)
        vlib.run_harness(['tso', 'suffix', 'out=' + tr, 'seed=%d' % sd, 'rounds=%d' % (20 if q else 80)])
        bad, evs = ctx.monitor_all('tso', 'Mon_Suffix', 'Mon_Suffix.cfg', tr, 'suffix_%d' % sd)
        handle(ctx, bad, evs, 'suffix_%d' % sd)
        ctx.extra['stale_suffix_transactions_of_old_leader'] = ctx.extra.get('stale_suffix_transactions_of_old_leader', 0) + sum(1 for e in evs if e.get('ev') == 'StaleTxnOfOldLeader')
    # the protocol at the grain of the code: attempts, rounds of requests, the handler at each datacenter, a lost reply and the retry
    ctx.mc('tso', 'GlobalPhases', 'MC_GlobalPhases.cfg', timeout=1800)
    # non-vacuity: if the second-phase flag survived a failed attempt the model would hand out a global timestamp below a local one
    ctx.mc('tso', 'GlobalPhases', 'MC_GlobalPhases_stickyskip.cfg', timeout=600, expect_violation='Consistent')
    # ... and with one round of requests per phase (an early exit from the loop in SyncMaxTS) a multi-value global request would overlap
    ctx.mc('tso', 'GlobalPhases', 'MC_GlobalPhases_oneround.cfg', timeout=600, expect_violation='Consistent')
    # ... and with both datacenters led by one member (its handler answers for / writes all the allocators it leads)
    ctx.mc('tso', 'GlobalPhases', 'MC_GlobalPhases_together.cfg', timeout=1800)
    for sd in seeds:
        # every member leads the allocator of its own datacenter; then dc-3 led by the member of dc-1 (two requests per round)
        for cfg, layout, num in (('Sim_GlobalPhases.cfg', '', 60 if q else 250), ('Sim_GlobalPhases_pair.cfg', 'pair', 30 if q else 120)):
            behs = ctx.simulate('tso', 'GlobalPhases', cfg, num=num, depth=70, seed=sd)
            bj = os.path.join(ctx.dir, 'phases_behs.json')
            json.dump(behs, open(bj, 'w'))
            lab = 'phases%s_%d' % (layout, sd)
            tr = os.path.join(ctx.dir, lab + '.ndjson')
            vlib.run_harness(['tso', 'phases', 'in=' + bj, 'out=' + tr, 'layout=' + layout], timeout=2400)
            bad, evs = ctx.monitor_all('tso', 'Mon_GlobalPhases', 'Mon_GlobalPhases.cfg', tr, lab, timeout=1800)
            handle(ctx, bad, evs, lab)
            for k, f in (('gated_sync_requests_delivered', lambda e: e.get('ev') == 'deliver'), ('replies_lost', lambda e: e.get('ev') == 'deliver' and e['lost']),
                         ('second_phases', lambda e: e.get('ev') == 'round' and e['skip']), ('gated_global_requests', lambda e: e.get('ev') == 'global' and not e['err']),
                         ('requests_to_a_member_leading_two_datacenters', lambda e: e.get('ev') == 'deliver' and len(e['dcs']) > 1)):
                ctx.extra[k] = ctx.extra.get(k, 0) + sum(1 for e in evs if f(e))
            if layout == '':
                ctx.sample({'kind': 'a global request delivered request by request on a real 3-datacenter cluster',
                            'events': [e for e in evs if e.get('ev') in ('start', 'round', 'deliver', 'global')][:8]})
    T.run_local_global(ctx, T.LG_C05, q)
    return ctx.finish(rule='exhaustive TLC of LocalGlobal.tla (2 datacenters, the global request in phases estimate/check/decide/write/return '
                           'interleaved with local requests and physical ticks), of GlobalPhases.tla (2 datacenters; attempts, two rounds of '
                           'requests per phase, the handler per datacenter, a lost reply and the retry, single- and multi-value requests) and Suffix.tla (2 members, 3 datacenters, a leader change with '
                           'a transaction in flight); suffix assignment of an old and a new leader interleaved at the etcd transaction on real '
                           'AllocatorManagers; request histories (sequential patterns inside one physical tick, concurrent phases, allocator leader '
                           'moves) from a real 3-server cluster with per-datacenter allocators; TLC -simulate behaviours of GlobalPhases.tla replayed on that '
                           'cluster with every SyncMaxTS request parked and delivered as the behaviour says; Mon_Suffix.tla / Mon_LocalGlobal.tla / '
                           'Mon_GlobalPhases.tla decide')


def replay(ctx, path):
    tr = os.path.join(path, 'trace.ndjson')
    evs = vlib.read_ndjson(tr)
    if evs and evs[0].get('mode') == 'suffix':
        bad, evs = ctx.monitor_all('tso', 'Mon_Suffix', 'Mon_Suffix.cfg', tr, 'replay')
        handle(ctx, bad, evs, 'replay')
    else:
        bad, evs = ctx.monitor_all('tso', 'Mon_LocalGlobal', 'Mon_LocalGlobal.cfg', tr, 'replay')
        for b in bad:
            if b[1] in T.LG_C05:
                ctx.report(b[1], None, tr, None, None, 'replay')
                break
    return ctx.finish()
