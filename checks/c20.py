"""C20 - a cluster is bootstrapped exactly once and keeps one identity. spec/bootstrap/Bootstrap.tla"""
import json
import os

import vlib


def handle(ctx, bad, evs, label):
    seen = set()
    for b in bad:
        if b[0] in seen:
            continue
        seen.add(b[0])
        lo = b[2] - 1
        while lo > 0 and evs[lo].get('ev') != 'reset':
            lo -= 1
        one = os.path.join(ctx.dir, 'viol_%s_%d.ndjson' % (label, b[0]))
        with open(one, 'w') as f:
            for e in evs[lo:b[2]]:
                f.write(json.dumps(e) + '\n')
        ctx.report(b[1], None, one, None, None, '%s_beh%d' % (label, b[0]))


def at_least_one_winner(ctx, evs, label):
    """'exactly one succeeds': in every trace in which a well-formed request ran to completion some request must have won"""
    cur, done, won, start = None, False, False, 0
    for i, e in enumerate(evs + [{'ev': 'reset', 'beh': -1}]):
        if e.get('ev') == 'reset':
            if cur is not None and done and not won:
                one = os.path.join(ctx.dir, 'nowinner_%s_%d.ndjson' % (label, cur))
                with open(one, 'w') as f:
                    for x in evs[start:i]:
                        f.write(json.dumps(x) + '\n')
                ctx.report('ExactlyOneWins(no request succeeded)', None, one, None, None, '%s_beh%d' % (label, cur))
            cur, done, won, start = e.get('beh'), False, False, i
        elif e.get('ev') in ('Begin', 'Txn'):
            if e['r'] != 'bad' and e['res'] in ('won', 'refused', 'error'):
                done = True
            if e['res'] == 'won':
                won = True


def run(ctx):
    q = ctx.quick
    ctx.mc('bootstrap', 'Bootstrap', 'MC_Bootstrap.cfg', timeout=600)
    # the same actions without a bound on leader changes / repetitions and with freely chosen id proposals:
    # an inductive invariant implying every clause is discharged symbolically (any number of steps)
    ctx.apalache('bootstrap', 'BootstrapInd', 'Init', 'IndInv', 0)
    ctx.apalache('bootstrap', 'BootstrapInd', 'IndInv', 'IndInv', 1)
    ctx.apalache('bootstrap', 'BootstrapInd', 'IndInv', 'Props', 0)
    ctx.apalache('bootstrap', 'BootstrapInd', 'IndInv', 'LosersChangeNothingAct', 1)
    ctx.apalache('bootstrap', 'BootstrapInd', 'IndInv', 'ClusterIdStableAct', 1)
    seeds = [ctx.seed] if q else [ctx.seed + k for k in range(3)]
    for sd in seeds:
        behs = ctx.simulate('bootstrap', 'Bootstrap', 'Sim_Bootstrap.cfg', num=30 if q else 120, depth=14, seed=sd)
        bj = os.path.join(ctx.dir, 'behs.json')
        json.dump(behs, open(bj, 'w'))
        tr = os.path.join(ctx.dir, 'bootstrap_%d.ndjson' % sd)
        vlib.run_harness(['bootstrap', 'replay', 'in=' + bj, 'out=' + tr], timeout=2400)
        bad, evs = ctx.monitor_all('bootstrap', 'Mon_Bootstrap', 'Mon_Bootstrap.cfg', tr, 'bootstrap_%d' % sd)
        handle(ctx, bad, evs, 'bootstrap_%d' % sd)
        at_least_one_winner(ctx, evs, 'bootstrap_%d' % sd)
        ctx.sample({'kind': 'bootstrap requests interleaved at the etcd transaction on a real server',
                    'events': [{k: v for k, v in e.items() if k in ('ev', 'r', 'res', 'stores', 'regions', 'bootstrapped')} for e in evs[1:7]]})
    tr2 = os.path.join(ctx.dir, 'clusterid.ndjson')
    vlib.run_harness(['bootstrap', 'clusterid', 'out=' + tr2])
    bad, evs = ctx.monitor_all('bootstrap', 'Mon_Bootstrap', 'Mon_Bootstrap.cfg', tr2, 'clusterid')
    handle(ctx, bad, evs, 'clusterid')
    return ctx.finish(rule='exhaustive TLC of Bootstrap.tla (4 requests incl. a malformed one, repeated, 2 leader changes; 3 members racing '
                           'for the cluster id); BootstrapInd.tla: inductive invariant discharged with Apalache (unbounded steps); TLC -simulate behaviours replayed on a fresh real server each, Bootstrap handlers parked '
                           'at their etcd transaction, leader changes by re-election; all 6 transaction orders of 3 members running the '
                           'real initOrGetClusterID, then again after "restart"; Mon_Bootstrap.tla decides')


def replay(ctx, path):
    tr = os.path.join(path, 'trace.ndjson')
    bad, evs = ctx.monitor_all('bootstrap', 'Mon_Bootstrap', 'Mon_Bootstrap.cfg', tr, 'replay')
    handle(ctx, bad, evs, 'replay')
    at_least_one_winner(ctx, evs, 'replay')
    return ctx.finish()
