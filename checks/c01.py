"""C01 - timestamps are unique and strictly increasing in real-time order; the logical part fits 18 bits."""
import os

import tso_common as T
import vlib


def run(ctx):
    q = ctx.quick
    ctx.assumptions += ['a lease never expires in etcd before the holder\'s local view of it expires (PD design assumption); '
                        'while the leader record is removed under a member whose lease view is still valid, real-time order between '
                        'the two serving members is not required (uniqueness and the window bound are)',
                        'model time is an integer clock per member substituted through the verif clock hook']
    ctx.mc('tso', 'TSO', 'MC_TSO_q1.cfg', timeout=3000, heap='24g')
    if not q:
        ctx.mc('tso', 'TSO', 'MC_TSO_t1.cfg', timeout=3000, heap='24g')
    T.replay_known_counterexamples(ctx, T.C01)
    T.run_replays(ctx, T.C01, q)
    T.run_random(ctx, T.C01, q)
    T.run_history(ctx, q)
    T.run_local_global(ctx, T.LG_C01 - {'RealTimeOrder'}, q)
    return ctx.finish(rule='exhaustive TLC of TSO.tla (2 members, admin resets, leader-key deletion, hand-overs, logical overflow counts); '
                           'TLC -simulate behaviours replayed on real AllocatorManager/Member objects (etcd transaction gate, substituted '
                           'clock), state compared per step; concurrent request histories from a real in-process server with resets and '
                           'resignations; Mon_TSO.tla / Mon_TSOHistory.tla decide')


def replay(ctx, path):
    tr = os.path.join(path, 'trace.ndjson')
    evs = vlib.read_ndjson(tr)
    if evs and evs[0].get('mode') == 'history':
        ctx.monitor('tso', 'Mon_TSOHistory', 'Mon_TSOHistory.cfg', tr, 'replay')
        return ctx.finish()
    bad, evs = ctx.monitor_all('tso', 'Mon_TSO', 'Mon_TSO.cfg', tr, 'replay')
    T.handle_bad(ctx, T.C01, bad, evs, 'replay')
    return ctx.finish()
