"""C16 - followers converge to the leader's region view through region sync. spec/syncer/*.tla <-> server/region_syncer"""
import json
import os

import vlib


def handle(ctx, bad, evs, label):
    seen = set()
    for b in bad:
        if b[1].startswith('INFO-'):
            ctx.extra[b[1]] = ctx.extra.get(b[1], 0) + 1
            continue
        if (b[0], b[1]) in seen:
            continue
        seen.add((b[0], b[1]))
        lo = b[2] - 1
        while lo > 0 and evs[lo].get('ev') != 'reset':
            lo -= 1
        one = os.path.join(ctx.dir, 'viol_%s_%d_%s.ndjson' % (label, b[0], b[1]))
        with open(one, 'w') as f:
            for e in evs[lo:b[2]]:
                f.write(json.dumps(e) + '\n')
        ctx.report(b[1], None, one, None, None, '%s_beh%d_%s' % (label, b[0], b[1]))


def run(ctx):
    q = ctx.quick
    ctx.mc('syncer', 'HistoryBuffer', 'MC_HistoryBuffer.cfg', timeout=600)
    ctx.mc('syncer', 'RegionSync', 'MC_RegionSync.cfg', timeout=600)
    seeds = [ctx.seed] if q else [ctx.seed + k for k in range(6)]
    for sd in seeds:
        # the third configuration records in bursts of 60-100 so that the flush points (every 100 records) are reached,
        # with and without a failing write of the index
        for cap, sim, tcfg in ((3, 'Sim_HistoryBuffer.cfg', 'Trace_HistoryBuffer.cfg'), (50, 'Sim_HistoryBuffer_50.cfg', 'Trace_HistoryBuffer_50.cfg'),
                               (3, 'Sim_HistoryBuffer_burst.cfg', 'Trace_HistoryBuffer.cfg')):
            burst = 'burst' in sim
            behs = ctx.simulate('syncer', 'HistoryBuffer', sim, num=(25 if q else 120) if burst else (25 if q else 250), depth=40 if burst else 400, seed=sd)
            bj = os.path.join(ctx.dir, 'behs.json')
            json.dump([[{'action': s['action'], 'args': s['args'], 'state': {}} for s in b] for b in behs], open(bj, 'w'))
            tr = os.path.join(ctx.dir, 'history_%d%s_%d.ndjson' % (cap, 'b' if burst else '', sd))
            vlib.run_harness(['syncer', 'history', 'in=' + bj, 'out=' + tr, 'cap=%d' % cap])
            label = 'history_%d%s_%d' % (cap, 'b' if burst else '', sd)
            bad, evs = ctx.monitor_all('syncer', 'Trace_HistoryBuffer', tcfg, tr, label, timeout=3000)
            handle(ctx, bad, evs, label)
            if burst:
                ctx.extra['failed_index_writes'] = ctx.extra.get('failed_index_writes', 0) + sum(1 for e in evs if e.get('pfail'))
                ctx.extra['restarts_after_bursts'] = ctx.extra.get('restarts_after_bursts', 0) + sum(1 for e in evs if e.get('ev') == 'Restart')
            ctx.sample({'kind': 'operation on the real history buffer (capacity %d)' % cap, 'events': evs[1:4]})
    tr2 = os.path.join(ctx.dir, 'sync.ndjson')
    vlib.run_harness(['syncer', 'sync', 'out=' + tr2, 'sizes=%s' % ('quick' if q else 'all')], timeout=1800)
    bad, evs = ctx.monitor_all('syncer', 'Mon_RegionSync', 'Mon_RegionSync.cfg', tr2, 'sync')
    handle(ctx, bad, evs, 'sync')
    ctx.extra['region_set_sizes_synchronised'] = sorted(set(e['n'] for e in evs if 'n' in e))
    return ctx.finish(rule='exhaustive TLC of HistoryBuffer.tla (capacity 3, flush 2, resets, restarts) and RegionSync.tla (batch 2, 0..5 regions); '
                           'TLC -simulate behaviours (400 operations, capacities 3 and 50, flush 100) replayed on the real history buffer with '
                           'every window query recorded and recomputed by TLC (Trace_HistoryBuffer.tla); real RegionSyncers on both sides of a '
                           'loopback gRPC stream synchronise region sets of 0..250 regions (full sync in 1-3 batches, with and without leaders, '
                           'then incremental broadcasts); Mon_RegionSync.tla compares follower and leader')


def replay(ctx, path):
    tr = os.path.join(path, 'trace.ndjson')
    evs = vlib.read_ndjson(tr)
    if evs and evs[0].get('mode') == 'sync':
        bad, evs = ctx.monitor_all('syncer', 'Mon_RegionSync', 'Mon_RegionSync.cfg', tr, 'replay')
    else:
        cfg = 'Trace_HistoryBuffer_50.cfg' if evs and evs[0].get('cap') == 50 else 'Trace_HistoryBuffer.cfg'
        bad, evs = ctx.monitor_all('syncer', 'Trace_HistoryBuffer', cfg, tr, 'replay')
    handle(ctx, bad, evs, 'replay')
    return ctx.finish()
