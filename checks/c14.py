"""C14 - store lifecycle is a one-way state machine and stays durable. spec/cluster/StoreLifecycle.tla"""
import json
import os

import vlib


def handle(ctx, bad, evs, label):
    seen = set()
    for b in bad:
        if b[0] in seen:
            continue
        seen.add(b[0])
        lo = b[2] - 1
        while lo > 0 and evs[lo].get('ev') != 'reset':
            lo -= 1
        one = os.path.join(ctx.dir, 'viol_%s_%d.ndjson' % (label, b[0]))
        with open(one, 'w') as f:
            for e in evs[lo:b[2]]:
                f.write(json.dumps(e) + '\n')
        ctx.report(b[1], None, one, None, None, '%s_beh%d' % (label, b[0]))


def compare(ctx, behs, evs, label):
    by = {(e['beh'], e['step']): e for e in evs if e.get('ev') != 'reset'}
    n = 0
    for bi, beh in enumerate(behs):
        for si, st in enumerate(beh):
            if si == 0:
                continue
            e = by.get((bi, si))
            if e is None or e['ev'] == 'skip':
                break
            s = st['state']
            sv = s['served']
            items = sv.items() if isinstance(sv, dict) else enumerate(sv, 1)
            want = sorted([k, v['st'], v['destroyed'], v['addr'], v['lw'], v['rw']] for k, v in items)
            n += 1
            got = sorted(e['served'])
            if want != got and len(want) == len(got) and all(a == b or (a[1] == 'Offline' and b[1] == 'Tombstone' and a[:1] + a[2:] == b[:1] + b[2:]) for a, b in zip(want, got)):
                # the server's own background job (checkStores runs every 10 s) buried an empty offline store earlier than the model did
                ctx.extra['behaviours_cut_by_background_bury'] = ctx.extra.get('behaviours_cut_by_background_bury', 0) + 1
                break
            if want != got:
                ctx.drift.append({'label': label, 'what': 'served stores differ from the specification', 'beh': bi, 'step': si,
                                  'action': st['action'], 'args': st['args'], 'model': want, 'real': e['served']})
                break
    return n


def run(ctx):
    q = ctx.quick
    ctx.assumptions += ['weights of a store whose last SetStoreWeight failed half-way are not compared with storage until a later '
                        'SetStoreWeight on that store succeeds (the failed call reported the error; the served weights are unchanged)',
                        'a leader change is realised by making the in-process server resign and re-campaign (it reloads the cluster from storage)']
    ctx.mc('cluster', 'StoreLifecycle', 'MC_StoreLifecycle.cfg' if q else 'MC_StoreLifecycle_thorough.cfg', timeout=3000)
    seeds = [ctx.seed] if q else [ctx.seed + k for k in range(3)]
    for sd in seeds:
        behs = ctx.simulate('cluster', 'StoreLifecycle', 'Sim_StoreLifecycle.cfg', num=120 if q else 400, depth=40, seed=sd)
        bj = os.path.join(ctx.dir, 'behs.json')
        json.dump(behs, open(bj, 'w'))
        tr = os.path.join(ctx.dir, 'stores_%d.ndjson' % sd)
        vlib.run_harness(['cluster', 'stores', 'in=' + bj, 'out=' + tr, 'reloads=%d' % (400 if q else 4000)], timeout=2400)
        bad, evs = ctx.monitor_all('cluster', 'Mon_StoreLifecycle', 'Mon_StoreLifecycle.cfg', tr, 'stores_%d' % sd)
        n = compare(ctx, behs, evs, 'stores_%d' % sd)
        ctx.extra['model_steps_replayed_and_compared'] = ctx.extra.get('model_steps_replayed_and_compared', 0) + n
        handle(ctx, bad, evs, 'stores_%d' % sd)
        tr2 = os.path.join(ctx.dir, 'random_%d.ndjson' % sd)
        vlib.run_harness(['cluster', 'stores', 'out=' + tr2, 'seed=%d' % sd, 'histories=%d' % (40 if q else 250), 'ops=50', 'reloads=100000'], timeout=2400)
        bad2, evs2 = ctx.monitor_all('cluster', 'Mon_StoreLifecycle', 'Mon_StoreLifecycle.cfg', tr2, 'random_%d' % sd)
        handle(ctx, bad2, evs2, 'random_%d' % sd)
        evs = evs + evs2
        ctx.extra['reloads_from_storage'] = ctx.extra.get('reloads_from_storage', 0) + sum(1 for e in evs if e.get('ev') == 'Reload')
        ctx.sample({'kind': 'store lifecycle commands on a real server', 'events': [{k: v for k, v in e.items() if k in ('ev', 'id', 'res', 'fail', 'served', 'peers')} for e in evs[1:6]]})
    # beyond the listed clauses: the cluster version that gates features follows the registered stores (ClusterVersion.tla)
    ctx.mc('cluster', 'MC_ClusterVersion', 'MC_ClusterVersion.cfg', timeout=900)
    # unbounded in the number of steps (60 versions, 12 feature thresholds, 3 stores): Init => IndInv, IndInv /\ Next => IndInv', IndInv => property
    ctx.apalache('cluster', 'ClusterVersionInd', 'Init', 'IndInv', 0)
    ctx.apalache('cluster', 'ClusterVersionInd', 'IndInv', 'IndInv', 1)
    ctx.apalache('cluster', 'ClusterVersionInd', 'IndInv', 'FeatureOnlyWhenEveryStoreSupportsIt', 0)
    for sd in seeds:
        tr3 = os.path.join(ctx.dir, 'version_%d.ndjson' % sd)
        vlib.run_harness(['cluster', 'version', 'out=' + tr3, 'seed=%d' % sd, 'histories=%d' % (12 if q else 60), 'ops=40'], timeout=2400)
        bad3, evs3 = ctx.monitor_all('cluster', 'Mon_ClusterVersion', 'Mon_ClusterVersion.cfg', tr3, 'version_%d' % sd)
        handle(ctx, bad3, evs3, 'version_%d' % sd)
        ctx.extra['cluster_version_steps'] = ctx.extra.get('cluster_version_steps', 0) + sum(1 for e in evs3 if e.get('ev') not in ('reset', 'Init'))
    return ctx.finish(rule='exhaustive TLC of StoreLifecycle.tla (3 stores, 2 addresses, 6-8 commands, 1 failed write, reloads); TLC -simulate '
                           'behaviours (4 stores, 40 commands, failures at any write) replayed through the gRPC handlers and RaftCluster of a '
                           'real in-process server incl. leader re-election (reload from storage); Mon_StoreLifecycle.tla decides. Extension: ClusterVersion.tla '
                           '(registration with versions, removal, burial, administrator override) model-checked and histories of a real server judged by Mon_ClusterVersion.tla')


def replay(ctx, path):
    tr = os.path.join(path, 'trace.ndjson')
    if any('cv' in e for e in vlib.read_ndjson(tr)):
        bad, evs = ctx.monitor_all('cluster', 'Mon_ClusterVersion', 'Mon_ClusterVersion.cfg', tr, 'replay')
        handle(ctx, bad, evs, 'replay')
        return ctx.finish()
    bad, evs = ctx.monitor_all('cluster', 'Mon_StoreLifecycle', 'Mon_StoreLifecycle.cfg', tr, 'replay')
    handle(ctx, bad, evs, 'replay')
    return ctx.finish()
