"""C12 - rule fitting partitions peers correctly and picks the best assignment. spec/placement/Fit.tla as an oracle"""
import json
import os

import vlib


def handle(ctx, bad, evs, label):
    seen = set()
    for b in bad:
        if b[1] in seen and len(seen) > 6:
            continue
        seen.add(b[1])
        one = os.path.join(ctx.dir, 'viol_%s_%d.ndjson' % (label, b[2]))
        with open(one, 'w') as f:
            f.write(json.dumps({'ev': 'reset', 'beh': 0, 'mode': 'fit'}) + '\n' + json.dumps(evs[b[2] - 1]) + '\n')
        ctx.report(b[1], None, one, None, None, '%s_case%d' % (label, b[0]))


def run(ctx):
    q = ctx.quick
    ctx.assumptions += ['TLA+ is used here as an executable oracle for a pure function (no concurrency); the best assignment is computed by '
                        'filtering all valid assignments rule by rule (more peers, fewer mismatches, higher isolation) and finally by fewer orphans',
                        'exclusive labels in the recorded cases are "engine"/"exclusive" ("$"-prefixed keys are not generated)']
    seeds = [ctx.seed] if q else [ctx.seed + k for k in range(4)]
    total = 0
    for sd in seeds:
        for rules, peers, cases in ((3, 5, 1200 if q else 4000), (4, 6, 120 if q else 600)):
            tr = os.path.join(ctx.dir, 'fit_%d_%d.ndjson' % (sd, rules))
            vlib.run_harness(['placement', 'fit', 'out=' + tr, 'seed=%d' % (sd * 10 + rules), 'cases=%d' % cases, 'rules=%d' % rules, 'peers=%d' % peers])
            bad, evs = ctx.monitor_all('placement', 'Fit', 'Fit.cfg', tr, 'fit_%d_%d' % (sd, rules), timeout=6000)
            handle(ctx, bad, evs, 'fit_%d_%d' % (sd, rules))
            ctx.tally([e for e in evs if e.get('ev') == 'case'], lambda e: e['case'], lambda e: len(e['case']['peers']) >= 2 and len(e['case']['rules']) >= 2)
            total += len(evs) - 1
            ctx.sample({'kind': 'FitRegion case with the real result', 'case': evs[1]['case'], 'result': evs[1]['result']})
    ctx.extra['cases_checked'] = total
    ctx.extra['satisfied_cases'] = 'see evidence samples'
    return ctx.finish(level='exploration', rule='evaluations = FitRegion cases; non-trivial = at least two peers and two rules, distinct by the whole case. Fit.tla defines valid assignments, role mismatches, isolation score and the best assignment under the documented order; '
                           'seeded cases (3-6 stores with zone/host/disk/engine labels, 1-6 peers with learners and a leader, 1-4 rules with all four '
                           'constraint operators and location labels) are run through the real placement.FitRegion and TLC checks every recorded '
                           'result against the definitions (all (rules+1)^peers assignments enumerated per case)')


def replay(ctx, path):
    tr = os.path.join(path, 'trace.ndjson')
    bad, evs = ctx.monitor_all('placement', 'Fit', 'Fit.cfg', tr, 'replay')
    handle(ctx, bad, evs, 'replay')
    return ctx.finish()
