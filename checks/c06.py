"""C06 - region cache never regresses and never holds overlapping regions. spec/region/RegionCache.tla <-> server/cluster"""
import json
import os

import vlib

INF = 7


def classify(b, evs):
    return 'C06-batched-region-storage-resurrects-displaced-region' if b[1] == 'SequentialStorageEqualsCache' else None


def handle(ctx, bad, evs, label):
    seen = set()
    for b in bad:
        sig = classify(b, evs)
        known = [f for f in ctx.findings if f.get('status') == 'open' and f.get('signature') == sig]
        if known:
            ctx.known_hits[known[0]['id']] = ctx.known_hits.get(known[0]['id'], 0) + 1
            continue
        if b[0] in seen:
            continue
        seen.add(b[0])
        lo = b[2] - 1
        while lo > 0 and evs[lo].get('ev') != 'reset':
            lo -= 1
        one = os.path.join(ctx.dir, 'viol_%s_%d.ndjson' % (label, b[0]))
        with open(one, 'w') as f:
            for e in evs[lo:b[2]]:
                f.write(json.dumps(e) + '\n')
        ctx.report(b[1], sig, one, None, None, '%s_beh%d' % (label, b[0]))


def compare(ctx, behs, evs, label):
    """model -> implementation: whenever no handler is in flight the served set equals the model's cache"""
    by = {(e['beh'], e['step']): e for e in evs if e.get('ev') != 'reset'}
    n = 0
    for bi, beh in enumerate(behs):
        for si, st in enumerate(beh):
            if si == 0:
                continue
            e = by.get((bi, si))
            if e is None:
                break
            s = st['state']
            if any(v == 'committed' for v in s['hpc'].values()):
                continue   # the binding folds StoreOps into Commit
            cache = s['cache']
            vals = list(cache.values()) if isinstance(cache, dict) else list(cache)   # TLC prints a function with domain 1..n as a tuple
            want = sorted([v['id'], v['s'], v['e'], v['ver'], v['conf'], v['term']] for v in vals)
            n += 1
            if want != e['cache']:
                ctx.drift.append({'label': label, 'what': 'served regions differ from the specification', 'beh': bi, 'step': si,
                                  'action': st['action'], 'model': want, 'real': e['cache']})
                break
    return n


def run(ctx):
    q = ctx.quick
    ctx.assumptions += ['"never goes back" is read relative to the region of the same id being served and to the served regions a heartbeat '
                        'overlaps: once an id has been displaced from the cache PD keeps no memory of its epoch (see DESIGN.md, C06)',
                        'heartbeats are snapshots of a ground-truth split/merge/conf-change/leader-change history, delivered in any order, '
                        'any number of times']
    ctx.mc('region', 'RegionCache', 'MC_RegionCache.cfg' if q else 'MC_RegionCache_thorough.cfg', timeout=3000)
    # one handler, with restarts of PD (the served set is loaded back from storage without leaders and terms)
    ctx.mc('region', 'RegionCache', 'MC_RegionCache_restart.cfg', timeout=1800)
    seeds = [ctx.seed] if q else [ctx.seed + k for k in range(4)]
    for sd in seeds:
        behs = ctx.simulate('region', 'RegionCache', 'Sim_RegionCache.cfg', num=120 if q else 500, depth=40, seed=sd)
        # ... and behaviours of the same system without splits and merges (one region: epochs, terms, reports of a deposed leader)
        more = ctx.simulate('region', 'RegionCache', 'Sim_RegionCache_terms.cfg', num=120 if q else 500, depth=30, seed=sd)
        for b in more:
            for st in b:
                if st['action'] == 'NextTerms':      # TLC names a step with a nested quantifier after the enclosing definition
                    st['action'] = 'Next'
        behs += more
        # ... and one handler only (heartbeats handled one at a time): what is persisted must equal what is served at the end of every
        # behaviour, with the region storage flushed at different points of the history
        behs += ctx.simulate('region', 'RegionCache', 'Sim_RegionCache_seq.cfg', num=120 if q else 500, depth=50, seed=sd)
        # ... and the same with the PD process stopped and started again on its data in between (a real restart: 1-2 s each)
        behs += ctx.simulate('region', 'RegionCache', 'Sim_RegionCache_restart.cfg', num=12 if q else 40, depth=50, seed=sd)
        bj = os.path.join(ctx.dir, 'behs.json')
        json.dump(behs, open(bj, 'w'))
        tr = os.path.join(ctx.dir, 'cache_%d.ndjson' % sd)
        vlib.run_harness(['region', 'cache', 'in=' + bj, 'out=' + tr, 'inf=%d' % INF], timeout=1800)
        bad, evs = ctx.monitor_all('region', 'Mon_RegionCache', 'Mon_RegionCache.cfg', tr, 'cache_%d' % sd)
        n = compare(ctx, behs, evs, 'cache_%d' % sd)
        ctx.extra['model_steps_replayed_and_compared'] = ctx.extra.get('model_steps_replayed_and_compared', 0) + n
        handle(ctx, bad, evs, 'cache_%d' % sd)
        ctx.sample({'kind': 'heartbeat deliveries replayed on a real RaftCluster', 'events': [e for e in evs if e.get('ev') in ('PreCheck', 'Commit')][:5]})
    return ctx.finish(rule='exhaustive TLC of RegionCache.tla (3 ids, 3 keys, truth histories of 3 steps, 4 deliveries, 2 concurrent handlers); '
                           'TLC -simulate behaviours (7 ids, 7 keys, 3 handlers / 1 handler with the region storage flushed at different points) replayed on processRegionHeartbeat of a real in-process '
                           'server with a gate between the pre-check and the cluster lock; Mon_RegionCache.tla decides')


def replay(ctx, path):
    tr = os.path.join(path, 'trace.ndjson')
    bad, evs = ctx.monitor_all('region', 'Mon_RegionCache', 'Mon_RegionCache.cfg', tr, 'replay')
    handle(ctx, bad, evs, 'replay')
    return ctx.finish()
