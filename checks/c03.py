"""C03 - only the current leaseholder serves or persists leader-only state. spec/election/Election.tla"""
import json
import os

import vlib


def handle(ctx, bad, evs, label):
    seen = set()
    for b in bad:
        if (b[0], b[1]) in seen:
            continue
        seen.add((b[0], b[1]))
        lo = b[2] - 1
        while lo > 0 and evs[lo].get('ev') != 'reset':
            lo -= 1
        one = os.path.join(ctx.dir, 'viol_%s_%d_%s.ndjson' % (label, b[0], b[1]))
        with open(one, 'w') as f:
            for e in evs[lo:b[2]]:
                f.write(json.dumps(e) + '\n')
        ctx.report(b[1], None, one, None, None, '%s_beh%d_%s' % (label, b[0], b[1]))


def compare(ctx, behs, evs, label):
    by = {(e['beh'], e['step']): e for e in evs if e.get('ev') != 'reset'}
    n = 0
    for bi, beh in enumerate(behs):
        for si, st in enumerate(beh):
            if si == 0:
                continue
            e = by.get((bi, si))
            if e is None:
                break
            s = st['state']
            n += 1
            if e['rec'] != s['rec'] or any(e['check'][m] != s['local'][m] for m in s['local']):
                ctx.drift.append({'label': label, 'what': 'record owner / lease views differ from the specification', 'beh': bi, 'step': si,
                                  'action': st['action'], 'args': st['args'], 'model': [s['rec'], s['local']], 'real': [e['rec'], e['check']]})
                break
    return n


def run(ctx):
    q = ctx.quick
    ctx.assumptions += ['real etcd leases with the minimum TTL (2 s); "lease expires" = keep-alive stopped and the run waits until the record is gone',
                        'while the leader record has been removed under a member whose lease is still valid (outside PD\'s lease assumption) '
                        'two members may both pass the lease check; every guarded write of the non-owner must still be rejected',
                        'what the leader loop does after campaigning / losing the lease (initialise the allocator, enable the leader; reset '
                        'allocator and leadership) is performed by the harness in the order server.go uses']
    ctx.mc('election', 'Election', 'MC_Election.cfg', timeout=900)
    # the same actions without the bound on the number of steps, discharged symbolically
    for init, inv, n in (('Init', 'IndInv', 0), ('IndInv', 'IndInv', 1), ('IndInv', 'AtMostOneServing', 0),
                         ('IndInv', 'NonOwnerWriteRejectedAct', 1), ('IndInv', 'CampaignOnlyWhenNoRecordAct', 1)):
        ctx.apalache('election', 'ElectionInd', init, inv, n)
    seeds = [ctx.seed] if q else [ctx.seed + k for k in range(6)]
    for sd in seeds:
        behs = ctx.simulate('election', 'Election', 'Sim_Election.cfg', num=48 if q else 480, depth=14, seed=sd)
        bj = os.path.join(ctx.dir, 'behs.json')
        json.dump(behs, open(bj, 'w'))
        tr = os.path.join(ctx.dir, 'election_%d.ndjson' % sd)
        vlib.run_harness(['election', 'replay', 'in=' + bj, 'out=' + tr, 'parallel=24'], timeout=3000)
        bad, evs = ctx.monitor_all('election', 'Mon_Election', 'Mon_Election.cfg', tr, 'election_%d' % sd)
        n = compare(ctx, behs, evs, 'election_%d' % sd)
        ctx.extra['model_steps_replayed_and_compared'] = ctx.extra.get('model_steps_replayed_and_compared', 0) + n
        handle(ctx, bad, evs, 'election_%d' % sd)
        ctx.extra['lease_expiries_waited_for'] = ctx.extra.get('lease_expiries_waited_for', 0) + sum(1 for e in evs if e.get('ev') == 'Expire')
        ctx.extra['guarded_writes_by_non_owner'] = ctx.extra.get('guarded_writes_by_non_owner', 0) + sum(1 for e in evs if e.get('ev') == 'GuardedWrite' and e['rec_before'] != e['m'])
        ctx.sample({'kind': 'election steps with real leases', 'events': [{k: v for k, v in e.items() if k in ('ev', 'm', 'kind', 'res', 'rec', 'check', 'tso')} for e in evs[1:6]]})
    return ctx.finish(rule='exhaustive TLC of Election.tla (3 contenders, 12 steps: campaign, lease expiry, resign, record deletion, guarded writes); '
                           'TLC -simulate behaviours replayed with real etcd leases on real Member/Leadership/AllocatorManager/id.Allocator '
                           'objects (24 behaviours in parallel; every second expiry after a deliberately slow keep-alive reply); guarded writes: '
                           'time window, member priority, id window, dc-location data, encryption keys (real key manager); Mon_Election.tla decides')


def replay(ctx, path):
    tr = os.path.join(path, 'trace.ndjson')
    bad, evs = ctx.monitor_all('election', 'Mon_Election', 'Mon_Election.cfg', tr, 'replay')
    handle(ctx, bad, evs, 'replay')
    return ctx.finish()
