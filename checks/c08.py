"""C08 - generated operator steps are safe and reach the requested placement. spec/operator/Steps.tla as an oracle"""
import json
import os

import vlib


def handle(ctx, bad, evs, label):
    seen = set()
    for b in bad:
        if b[1] in seen:
            continue
        seen.add(b[1])
        one = os.path.join(ctx.dir, 'viol_%s_%d.ndjson' % (label, b[2]))
        with open(one, 'w') as f:
            f.write(json.dumps({'ev': 'reset', 'beh': 0, 'mode': 'build'}) + '\n' + json.dumps(evs[b[2] - 1]) + '\n')
        ctx.report(b[1], None, one, None, None, '%s_case%d_%s' % (label, b[0], b[1]))


def run(ctx):
    q = ctx.quick
    ctx.assumptions += ['IncomingVoter and DemotingVoter both count as voters while the region is in the joint state',
                        'the property speaks about operators that are produced: a refusal by the builder is recorded, not judged',
                        'final peers are compared by store and role (the builder allocates new peer ids)']
    seeds = [ctx.seed] if q else [ctx.seed + k for k in range(6)]
    for sd in seeds:
        for stores, cases in ((5, 3000 if q else 40000), (6, 600 if q else 15000)):
            tr = os.path.join(ctx.dir, 'build_%d_%d.ndjson' % (sd, stores))
            vlib.run_harness(['operator', 'build', 'out=' + tr, 'seed=%d' % (sd * 10 + stores), 'cases=%d' % cases, 'stores=%d' % stores])
            bad, evs = ctx.monitor_all('operator', 'Steps', 'Steps.cfg', tr, 'build_%d_%d' % (sd, stores), timeout=6000)
            handle(ctx, bad, evs, 'build_%d_%d' % (sd, stores))
            ctx.tally([e for e in evs if e.get('ev') in ('op', 'refused')],
                      lambda e: [e.get(k) for k in ('joint', 'light', 'force', 'origin', 'leader', 'target', 'target_leader')],
                      lambda e: e.get('ev') == 'op' and len(e['steps']) >= 2)
            s = evs[-1]
            ctx.extra['operators_built'] = ctx.extra.get('operators_built', 0) + s['built']
            ctx.extra['requests_refused_by_builder'] = ctx.extra.get('requests_refused_by_builder', 0) + s['refused']
            kinds = {}
            for e in evs:
                for st in e.get('steps', []):
                    kinds[st['k']] = kinds.get(st['k'], 0) + 1
            for k, v in kinds.items():
                ctx.extra.setdefault('step_kinds', {})[k] = ctx.extra.get('step_kinds', {}).get(k, 0) + v
            ctx.sample({'kind': 'builder case', 'case': next(e for e in evs if e.get('ev') == 'op' and len(e['steps']) > 2)})
    return ctx.finish(level='exploration', rule='evaluations = builder requests; non-trivial = an operator of at least two steps was produced, distinct by (flags, origin, leader, target, target leader). Steps.tla gives every step kind its TiKV-side precondition and effect and states the C08 clauses over every intermediate '
                           'state; seeded requests (3-6 stores incl. down/offline/reject-leader stores, origin with learners, pending peers and a '
                           'leader, arbitrary target peers and roles, optional target leader, joint consensus on/off, light-weight and forced-leader '
                           'variants) are given to the real operator.Builder; every produced step list is executed by TLC on the model and, in the '
                           'harness, on a simulated core.RegionInfo with each step\'s own CheckSafety')


def replay(ctx, path):
    tr = os.path.join(path, 'trace.ndjson')
    bad, evs = ctx.monitor_all('operator', 'Steps', 'Steps.cfg', tr, 'replay')
    handle(ctx, bad, evs, 'replay')
    return ctx.finish()
