"""C10 - replica repair never targets bad stores nor shrinks healthy replication. spec/checker/Repair.tla as an oracle"""
import json
import os
import re

import tlaval
import vlib

KNOWN = {'ReplacementAddedBeforeRemoval_LearnerReplacedByVoter': 'C10-learner-replaced-by-voter-removed-first'}


def handle(ctx, bad, evs, label):
    seen = set()
    for b in bad:
        sig = KNOWN.get(b[1])
        if sig is None and (b[1] in seen or len(seen) > 10):
            continue
        seen.add(b[1])
        one = os.path.join(ctx.dir, 'viol_%s_%d.ndjson' % (label, b[2]))
        with open(one, 'w') as f:
            f.write(json.dumps({'ev': 'reset', 'beh': 0, 'mode': 'repair'}) + '\n' + json.dumps(evs[b[2] - 1]) + '\n')
        ctx.report(b[1], sig, one, None, None, '%s_case%d_%s' % (label, b[0], b[1]))


def coverage(ctx):
    m = re.search(r'<<\s*"COV",\s*(\[.*?\])\s*>>', ctx.last_out, re.S)
    if not m:
        raise vlib.Inconclusive('no COV register printed')
    for k, v in tlaval.parse_value(m.group(1).replace('\n', ' ')).items():
        ctx.extra.setdefault('cases_with_something_to_judge', {})[k] = ctx.extra.get('cases_with_something_to_judge', {}).get(k, 0) + v


def run(ctx):
    q = ctx.quick
    ctx.assumptions += [
        'a peer is healthy unless its store is offline/tombstone/down or the region reports the peer down for longer than max-store-down-time',
        '"allowed by the label constraints" (rules): the target store satisfies the constraints of one of the rules and is isolated, at that '
        'rule\'s isolation level, from the peers the real fit assigns to it (minus the removed one)',
        'a "fresh, empty, unconstrained up store": up, connected, not low on space, no regions, not busy / snapshotting / over limits, no '
        'special-use label, satisfying the constraints, and differing from every current peer\'s store on the first location label that store carries '
        '(so no other candidate can be better isolated - the selection refuses to settle for a worse store when the best one is temporarily busy)',
        'the region\'s fit is taken from the real FitRegion (decided by C12)']
    seeds = [ctx.seed] if q else [ctx.seed + k for k in range(6)]
    for sd in seeds:
        tr = os.path.join(ctx.dir, 'repair_%d.ndjson' % sd)
        vlib.run_harness(['checker', 'repair', 'out=' + tr, 'seed=%d' % sd, 'cases=%d' % (6000 if q else 30000)], timeout=3000)
        bad, evs = ctx.monitor_all('placement+checker', 'Repair', 'Repair.cfg', tr, 'repair_%d' % sd, timeout=6000)
        handle(ctx, bad, evs, 'repair_%d' % sd)
        ctx.tally([e for e in evs if e.get('ev') == 'case'], lambda e: [e.get(k) for k in ('rules_mode', 'cfg', 'case', 'down_long', 'down_short', 'pending')],
                  lambda e: e['has_op'])
        coverage(ctx)
        for k, v in evs[-1].items():
            if k != 'ev':
                ctx.extra.setdefault('operators_proposed', {})[k] = ctx.extra.get('operators_proposed', {}).get(k, 0) + v
        ctx.sample({'kind': 'checker case', 'case': next(e for e in evs if e.get('ev') == 'case' and e['has_op'] and len(e['steps']) > 1)})
    # closed loop (beyond the listed clauses): checker -> operator controller -> stores -> heartbeat -> checker until nothing is left to repair
    for sd in seeds:
        tr = os.path.join(ctx.dir, 'loop_%d.ndjson' % sd)
        vlib.run_harness(['checker', 'loop', 'out=' + tr, 'seed=%d' % sd, 'cases=%d' % (600 if q else 3000)], timeout=3000)
        bad, evs = ctx.monitor_all('checker', 'Mon_RepairLoop', 'Mon_RepairLoop.cfg', tr, 'loop_%d' % sd, timeout=6000)
        seen = set()
        for b in bad:
            if b[1] in seen:
                continue
            seen.add(b[1])
            lo = b[2] - 1
            while lo > 0 and evs[lo].get('ev') != 'reset':
                lo -= 1
            one = os.path.join(ctx.dir, 'viol_loop_%d_%d.ndjson' % (sd, b[0]))
            with open(one, 'w') as f:
                for e in evs[lo:b[2]]:
                    f.write(json.dumps(e) + '\n')
            ctx.report(b[1], None, one, None, None, 'loop_%d_case%d_%s' % (sd, b[0], b[1]))
        starts = [e for e in evs if e.get('ev') == 'start']
        resets = [e for e in evs if e.get('ev') == 'reset']
        proposed = set(i for i, e in enumerate(evs) if e.get('ev') == 'propose')
        firstprop = {}
        cur = -1
        for e in evs:
            if e.get('ev') == 'reset':
                cur = e['beh']
            elif e.get('ev') == 'propose':
                firstprop.setdefault(cur, e['desc'])
        ctx.tally([dict(r, start=s['region']) for r, s in zip(resets, starts)], lambda e: [e.get(k) for k in ('rules_mode', 'joint', 'cfg', 'stores', 'rules', 'start')],
                  lambda e: e['beh'] in firstprop)
        for k, v in evs[-1].items():
            if k != 'ev':
                ctx.extra.setdefault('closed_loop', {})[k] = ctx.extra.get('closed_loop', {}).get(k, 0) + v
    # the merge checker (beyond the listed clauses, same family): Merge.tla judges every proposal
    for sd in seeds:
        tr = os.path.join(ctx.dir, 'merge_%d.ndjson' % sd)
        vlib.run_harness(['checker', 'merge', 'out=' + tr, 'seed=%d' % sd, 'cases=%d' % (600 if q else 3000)], timeout=3000)
        bad, evs = ctx.monitor_all('operator+checker', 'Merge', 'Merge.cfg', tr, 'merge_%d' % sd, timeout=6000)
        seen = set()
        for b in bad:
            if b[1] in seen:
                continue
            seen.add(b[1])
            one = os.path.join(ctx.dir, 'viol_merge_%d_%d.ndjson' % (sd, b[2]))
            with open(one, 'w') as f:
                f.write(json.dumps({'ev': 'reset', 'beh': 0, 'mode': 'merge'}) + '\n' + json.dumps(evs[b[2] - 1]) + '\n')
            ctx.report(b[1], None, one, None, None, 'merge_%d_call%d_%s' % (sd, b[0], b[1]))
        ctx.tally([e for e in evs if e.get('ev') == 'merge'], lambda e: [e.get(k) for k in ('cfg', 'regions', 'checked')], lambda e: e['has_op'])
        ctx.extra['merge_checker_calls'] = ctx.extra.get('merge_checker_calls', 0) + evs[-1]['checked']
        ctx.extra['merges_proposed'] = ctx.extra.get('merges_proposed', 0) + evs[-1]['merges_proposed']
    return ctx.finish(level='exploration', rule='evaluations = checker calls (repair cases + closed-loop cases + merge-checker calls); non-trivial = the checker proposed an operator, distinct by the whole recorded input. Repair.tla states the C10 clauses over (stores as the filters see them, region peers with down/pending lists, settings or rules + real fit, '
                           'proposed operator); seeded clusters of 4-9 stores in every state (down, offline, offline+down, tombstone, disconnected, busy, low space, '
                           'snapshots, pending peers, fresh; zone/host/disk/engine labels), regions of 1-5 peers (learners, long/short down peers, pending), '
                           'max-replicas 1-5, location labels and isolation levels, 1-2 placement rules with constraints, joint consensus on/off, are given '
                           'to the real ReplicaChecker.Check / RuleChecker.Check; TLC evaluates every case. Closed loop: the real CheckerController and '
                           'OperatorController repair one region through the command-executing store simulator until the checker is satisfied; '
                           'Mon_RepairLoop.tla requires success of every operator, no transient dip of healthy voters, convergence and no joint state left')


def replay(ctx, path):
    tr = os.path.join(path, 'trace.ndjson')
    if any(e.get('ev') == 'merge' for e in vlib.read_ndjson(tr)):
        bad, evs = ctx.monitor_all('operator+checker', 'Merge', 'Merge.cfg', tr, 'replay')
        for b in bad[:1]:
            ctx.report(b[1], None, tr, None, None, 'replay_%s' % b[1])
        return ctx.finish()
    if any(e.get('ev') == 'propose' for e in vlib.read_ndjson(tr)):
        bad, evs = ctx.monitor_all('checker', 'Mon_RepairLoop', 'Mon_RepairLoop.cfg', tr, 'replay')
        for b in bad[:1]:
            ctx.report(b[1], None, tr, None, None, 'replay_%s' % b[1])
        return ctx.finish()
    bad, evs = ctx.monitor_all('placement+checker', 'Repair', 'Repair.cfg', tr, 'replay')
    handle(ctx, bad, evs, 'replay')
    return ctx.finish()
