"""C04 - allocated ids are unique for ever.  spec/id/IdAlloc.tla <-> server/id/id.go"""
import json
import os

import vlib


def expected_ids(prev, cur):
    """ids returned by a model step = returned' \\ returned"""
    a = set(vlib.tlaval.setof(prev['returned'])) if prev else set()
    b = set(vlib.tlaval.setof(cur['returned']))
    return sorted(b - a)


def compare_with_model(ctx, behs, events):
    """model -> implementation binding: after every step the real stored window, leader record and the ids
    returned must equal what the specification computed. A mismatch is spec drift."""
    by = {}
    for e in events:
        if e['ev'] == 'reset':
            continue
        by.setdefault((e['beh'], e['step']), []).append(e)
    n = 0
    for bi, beh in enumerate(behs):
        for si, st in enumerate(beh):
            if si == 0:
                continue
            evs = by.get((bi, si))
            if not evs:
                ctx.drift.append({'label': 'replay', 'what': 'step not executed', 'beh': bi, 'step': si})
                break
            e = evs[-1]
            n += 1
            want_ids = expected_ids(beh[si - 1]['state'], st['state'])
            got = []
            for x in evs:
                if x['ev'] == 'AllocFast':
                    got += list(range(x['lo'], x['hi'] + 1))
                elif 'id' in x:
                    got.append(x['id'])
            if e['stored'] != st['state']['stored'] or e['leader'] != st['state']['leader'] or sorted(got) != want_ids:
                ctx.drift.append({'label': 'replay', 'what': 'state differs from the specification', 'beh': bi, 'step': si,
                                  'action': st['action'], 'args': st['args'], 'model_stored': st['state']['stored'],
                                  'real_stored': e['stored'], 'model_ids': want_ids[:5], 'real_ids': got[:5]})
                break
    return n


def classify(r, evs):
    return None


def run(ctx):
    q = ctx.quick
    ctx.assumptions += ['etcd transactions are atomic and linearizable (embedded etcd is the real etcd server)',
                        'exhaustive exploration uses Step=2 (the code uses 1000); simulation/replay uses Step=1000']
    ctx.mc('id', 'MC_IdAlloc', 'MC_IdAlloc.cfg' if q else 'MC_IdAlloc_thorough.cfg', timeout=1500, coverage=q)
    # the same algorithm with the crash / leader-switch budgets removed: an inductive invariant, discharged symbolically (any number of steps)
    ctx.apalache('id', 'IdAllocInd', 'Init', 'IndInv', 0)
    ctx.apalache('id', 'IdAllocInd', 'IndInv', 'IndInv', 1)
    ctx.apalache('id', 'IdAllocInd', 'IndInv', 'Unique', 0)
    ctx.apalache('id', 'IdAllocInd', 'IndInv', 'WindowInMemoryBelowStored', 0)
    seeds = [ctx.seed] if q else [ctx.seed + k for k in range(4)]
    for sd in seeds:
        behs = ctx.simulate('id', 'MC_IdAlloc', 'Sim_IdAlloc.cfg', num=150 if q else 600, depth=40, seed=sd)
        bj = os.path.join(ctx.dir, 'behs.json')
        json.dump(behs, open(bj, 'w'))
        tr = os.path.join(ctx.dir, 'replay_%d.ndjson' % sd)
        vlib.run_harness(['id', 'replay', 'in=' + bj, 'out=' + tr])
        evs = vlib.read_ndjson(tr)
        n = compare_with_model(ctx, behs, evs)
        ctx.extra['model_steps_replayed_and_compared'] = ctx.extra.get('model_steps_replayed_and_compared', 0) + n
        ctx.monitor('id', 'Mon_IdAlloc', 'Mon_IdAlloc.cfg', tr, 'replay_%d' % sd, classify)
        ctx.sample({'kind': 'TLC behaviour replayed on real id.Allocator instances (first events)', 'events': evs[:8]})
        tr2 = os.path.join(ctx.dir, 'stress_%d.ndjson' % sd)
        vlib.run_harness(['id', 'stress', 'out=' + tr2, 'seed=%d' % sd, 'rounds=%d' % (3 if q else 8), 'allocs=%d' % (250 if q else 500)])
        ctx.monitor('id', 'Mon_IdAlloc', 'Mon_IdAlloc.cfg', tr2, 'stress_%d' % sd, classify)
        # every id a running server hands out (AllocID, AskSplit, AskBatchSplit: region and peer ids), concurrent callers, leader resignations
        tr3 = os.path.join(ctx.dir, 'rpcs_%d.ndjson' % sd)
        vlib.run_harness(['id', 'rpcs', 'out=' + tr3, 'seed=%d' % sd, 'rounds=%d' % (2 if q else 5), 'calls=%d' % (60 if q else 150)], timeout=1800)
        ctx.monitor('id', 'Mon_IdAlloc', 'Mon_IdAlloc.cfg', tr3, 'rpcs_%d' % sd, classify)
        ids = [e for e in vlib.read_ndjson(tr3) if e.get('ev') == 'A']
        ctx.extra['ids_handed_out_by_rpcs'] = ctx.extra.get('ids_handed_out_by_rpcs', 0) + sum(1 for e in ids if not e['err'])
        ctx.extra['rpcs_refused_while_not_leader'] = ctx.extra.get('rpcs_refused_while_not_leader', 0) + sum(1 for e in ids if e['err'])
    return ctx.finish(rule='exhaustive TLC of IdAlloc.tla (3 instances, Step 2); TLC -simulate behaviours of the same module with '
                           'Step=1000 replayed on real allocators with the etcd transaction gate, state compared per step; '
                           'free-running concurrent allocators with leader switches; ids handed out by a running server through AllocID / AskSplit / '
                           'AskBatchSplit (region and peer ids) to concurrent callers across leader resignations; all recordings validated by Mon_IdAlloc.tla')


def replay(ctx, path):
    tr = os.path.join(path, 'trace.ndjson')
    ctx.monitor('id', 'Mon_IdAlloc', 'Mon_IdAlloc.cfg', tr, 'replay', classify)
    return ctx.finish()
