"""C02 - granted timestamps stay below the durably stored time window; the stored window never decreases."""
import os

import tso_common as T
import vlib


def run(ctx):
    q = ctx.quick
    ctx.assumptions += ['a lease never expires in etcd before the holder\'s local view of it expires (PD design assumption)',
                        'the in-memory write that follows a save transaction in the same goroutine is atomic with it '
                        '(the binding parks goroutines at transactions only)',
                        'model time is an integer clock per member substituted through the verif clock hook']
    ctx.mc('tso', 'TSO', 'MC_TSO_q2.cfg' if q else 'MC_TSO_t1.cfg', timeout=3000, heap='24g')
    if not q:
        ctx.mc('tso', 'TSO', 'MC_TSO_q1.cfg', timeout=1500, heap='24g')
    # open findings: the unrestricted model must still produce each known counterexample
    T.replay_known_counterexamples(ctx, T.C02)
    T.run_replays(ctx, T.C02, q)
    T.run_random(ctx, T.C02, q)
    return ctx.finish(rule='exhaustive TLC of TSO.tla (2 members, clock 1..4, crashes, clock jumps, failed/lost saves) with the known '
                           'interleavings excluded, plus one run per open finding that must reproduce it; TLC -simulate behaviours '
                           '(with and without the known interleavings) replayed on real AllocatorManager/Member objects under an etcd '
                           'transaction gate and a substituted clock, state compared per step, Mon_TSO.tla decides')


def replay(ctx, path):
    tr = os.path.join(path, 'trace.ndjson')
    bad, evs = ctx.monitor_all('tso', 'Mon_TSO', 'Mon_TSO.cfg', tr, 'replay')
    T.handle_bad(ctx, T.C02, bad, evs, 'replay')
    return ctx.finish()
