"""C19 - DR auto-sync only declares 'sync' when every region is in sync. spec/replication/DRAutoSync.tla"""
import json
import os

import vlib


def handle(ctx, bad, evs, label):
    seen = set()
    for b in bad:
        if (b[0], b[1]) in seen:
            continue
        seen.add((b[0], b[1]))
        lo = b[2] - 1
        while lo > 0 and evs[lo].get('ev') != 'reset':
            lo -= 1
        one = os.path.join(ctx.dir, 'viol_%s_%d_%s.ndjson' % (label, b[0], b[1]))
        with open(one, 'w') as f:
            for e in evs[lo:b[2]]:
                f.write(json.dumps(e) + '\n')
        ctx.report(b[1], None, one, None, None, '%s_beh%d_%s' % (label, b[0], b[1]))


def run(ctx):
    q = ctx.quick
    ctx.assumptions += ['a region that has reported integrity under the current state id keeps that report until the state id changes; the halves '
                        'of a split carry the parent\'s report (so "has reported" can be read off the cached regions at the moment of the transition)',
                        'the wait-async timeout is configuration: 0 = passed, 1 h = not passed']
    ctx.mc('replication', 'DRAutoSync', 'MC_DRAutoSync.cfg' if q else 'MC_DRAutoSync_thorough.cfg', timeout=3000)
    seeds = [ctx.seed] if q else [ctx.seed + k for k in range(8)]
    for sd in seeds:
        tr = os.path.join(ctx.dir, 'dr_%d.ndjson' % sd)
        vlib.run_harness(['repl', 'dr', 'out=' + tr, 'seed=%d' % sd, 'histories=%d' % (60 if q else 1200), 'ops=80', 'big=%d' % (1 if q else 8)], timeout=2400)
        bad, evs = ctx.monitor_all('replication', 'Mon_DRAutoSync', 'Mon_DRAutoSync.cfg', tr, 'dr_%d' % sd, timeout=3000)
        handle(ctx, bad, evs, 'dr_%d' % sd)
        trans = {}
        p = None
        for e in evs:
            if e.get('ev') == 'reset':
                p = e
                continue
            if p is not None and (e['state'], e['sid']) != (p['state'], p['sid']):
                k = '%s->%s' % (p['state'], e['state'])
                trans[k] = trans.get(k, 0) + 1
            p = e
        for k, v in trans.items():
            ctx.extra.setdefault('transitions_observed', {})[k] = ctx.extra.get('transitions_observed', {}).get(k, 0) + v
        ctx.sample({'kind': 'dr-auto-sync history on a real ModeManager', 'events': [{k: v for k, v in e.items() if k in ('ev', 'state', 'sid', 'down_p', 'down_d', 'regions', 'fail')} for e in evs[1:6]]})
    return ctx.finish(rule='exhaustive TLC of DRAutoSync.tla (2+1 replicas, up to 3-4 regions, scan batch 2, splits, gaps, mode switches, a failed '
                           'persist); seeded histories of store up/down per datacenter, region reports (current id, stale id, no integrity), splits, '
                           'lost regions, mode switches, storage and file-replication failures on a real ModeManager with scan batch 4 and, in '
                           'dedicated histories, 1100-1300 regions with the real batch size 1024; Mon_DRAutoSync.tla decides every transition')


def replay(ctx, path):
    tr = os.path.join(path, 'trace.ndjson')
    bad, evs = ctx.monitor_all('replication', 'Mon_DRAutoSync', 'Mon_DRAutoSync.cfg', tr, 'replay')
    handle(ctx, bad, evs, 'replay')
    return ctx.finish()
