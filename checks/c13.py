"""C13 - placement rule updates are all-or-nothing and the key-range index is exact. spec/placement/RuleManager.tla"""
import json
import os

import vlib


def classify(b, evs):
    return None


def handle(ctx, bad, evs, label):
    seen = set()
    info = {}
    for b in bad:
        if b[1].startswith('INFO-'):
            info[b[1]] = info.get(b[1], 0) + 1
            continue
        key = (b[0], b[1])
        if b[0] in seen:
            continue
        seen.add(b[0])
        lo = b[2] - 1
        while lo > 0 and evs[lo].get('ev') != 'reset':
            lo -= 1
        one = os.path.join(ctx.dir, 'viol_%s_%d.ndjson' % (label, b[0]))
        with open(one, 'w') as f:
            for e in evs[lo:b[2]]:
                f.write(json.dumps(e) + '\n')
        ctx.report(b[1], classify(b, evs), one, None, None, '%s_beh%d' % (label, b[0]))
    for k, v in info.items():
        ctx.extra[k] = ctx.extra.get(k, 0) + v


def run(ctx):
    q = ctx.quick
    ctx.assumptions += ['each public update is logged as the list of primitive effects the API documentation gives it (see harness '
                        'internal/placementh); group ids a<b<pd and rule ids default<r1<r2<r3 are encoded as integers in the same order',
                        'a valid update that the real code rejects is recorded (INFO-ValidUpdateRejected), not a violation']
    ctx.mc('placement', 'RuleManager', 'MC_RuleManager.cfg' if q else 'MC_RuleManager_live.cfg', timeout=1800)
    seeds = [ctx.seed] if q else [ctx.seed + k for k in range(8)]
    for sd in seeds:
        tr = os.path.join(ctx.dir, 'rules_%d.ndjson' % sd)
        vlib.run_harness(['placement', 'rules', 'out=' + tr, 'seed=%d' % sd, 'histories=%d' % (30 if q else 250), 'ops=%d' % (40 if q else 60)])
        bad, evs = ctx.monitor_all('placement', 'Trace_RuleManager', 'Trace_RuleManager.cfg', tr, 'rules_%d' % sd, timeout=3000)
        handle(ctx, bad, evs, 'rules_%d' % sd)
        ops = [e for e in evs if e.get('ev') == 'op']
        ctx.extra['updates_accepted'] = ctx.extra.get('updates_accepted', 0) + sum(1 for e in ops if e['res'] == 'ok')
        ctx.extra['updates_rejected'] = ctx.extra.get('updates_rejected', 0) + sum(1 for e in ops if e['res'] == 'err')
        ctx.extra['updates_with_injected_write_failure'] = ctx.extra.get('updates_with_injected_write_failure', 0) + sum(1 for e in ops if e['failed_write'])
        tr2 = os.path.join(ctx.dir, 'faults_%d.ndjson' % sd)
        vlib.run_harness(['placement', 'faults', 'out=' + tr2, 'seed=%d' % sd, 'scenarios=%d' % (25 if q else 250)])
        bad2, evs2 = ctx.monitor_all('placement', 'Trace_RuleManager', 'Trace_RuleManager.cfg', tr2, 'faults_%d' % sd, timeout=3000)
        handle(ctx, bad2, evs2, 'faults_%d' % sd)
        ctx.extra['write_faults_enumerated'] = ctx.extra.get('write_faults_enumerated', 0) + sum(1 for e in evs2 if e.get('ev') == 'op' and e['failed_write'])
        ctx.sample({'kind': 'update on the real RuleManager', 'event': {k: v for k, v in ops[3].items() if k in ('kind', 'prims', 'res', 'failed_write')},
                    'rules_after': ops[3]['obs']['all']})
        tr3 = os.path.join(ctx.dir, 'big_%d.ndjson' % sd)
        vlib.run_harness(['placement', 'big', 'out=' + tr3, 'seed=%d' % sd, 'histories=%d' % (4 if q else 16)])
        bad3, evs3 = ctx.monitor_all('placement', 'Mon_RuleRestart', 'Mon_RuleRestart.cfg', tr3, 'big_%d' % sd, timeout=3000)
        handle(ctx, bad3, evs3, 'big_%d' % sd)
        ctx.extra['largest_configuration_restarted'] = max(ctx.extra.get('largest_configuration_restarted', 0), max([e['nrules'] for e in evs3 if e.get('ev') == 'big'] + [0]))
    return ctx.finish(rule='RuleManager.tla: validity of every key, documented rule order, override semantics, write-by-write updates with '
                           'failures and retry (TLC exhaustive on a small domain, liveness RetryConverges in the thorough tier); seeded '
                           'histories of all nine update kinds with injected storage failures on the real RuleManager; TLC recomputes '
                           'acceptance, every observable and the restart view from the model (Trace_RuleManager.tla); configurations of 60-320 rules in up to 130 groups '
                           '(more than one storage page) are restarted and compared (Mon_RuleRestart.tla)')


def replay(ctx, path):
    tr = os.path.join(path, 'trace.ndjson')
    if any(e.get('ev') == 'big' for e in vlib.read_ndjson(tr)):
        bad, evs = ctx.monitor_all('placement', 'Mon_RuleRestart', 'Mon_RuleRestart.cfg', tr, 'replay')
        handle(ctx, bad, evs, 'replay')
        return ctx.finish()
    bad, evs = ctx.monitor_all('placement', 'Trace_RuleManager', 'Trace_RuleManager.cfg', tr, 'replay')
    handle(ctx, bad, evs, 'replay')
    return ctx.finish()
