"""Shared driver library: run TLC (exhaustive / simulate / trace validation), run the Go
harness built from /repo, known-findings handling, evidence writing."""
import glob
import json
import os
import re
import shutil
import subprocess
import sys
import time

import tlaval

VERIF = os.path.dirname(os.path.dirname(os.path.abspath(__file__)))
REPO = os.environ.get('VERIF_REPO', '/repo')
# VERIF_ALT=<scratch dir> (with VERIF_REPO=<another tree>) runs a check against a different tree without touching
# /verif/.work, the harness build or the replays of a run on /repo: used by tools/seed_matrix.py --alt
ALT = os.environ.get('VERIF_ALT')
WORK = os.path.join(ALT or VERIF, '.work')
HARNESS = os.path.join(ALT or VERIF, 'harness')
BIN = os.path.join(HARNESS, 'pdverif')
NCPU = os.cpu_count() or 4


class Inconclusive(Exception):
    pass


def goenv():
    e = dict(os.environ)
    e.update(GOFLAGS='-mod=mod', GOPROXY='off', GOSUMDB='off', GOTOOLCHAIN='local')
    return e


def log(*a):
    print(*a, file=sys.stderr, flush=True)


def build_harness():
    """(Re)build the harness binary against /repo's current working tree, with hooks on."""
    t0 = time.time()
    if ALT:
        os.makedirs(HARNESS, exist_ok=True)
        subprocess.check_call(['rsync', '-a', '--delete', '--exclude', '/pdverif', '--exclude', '/go.mod', '--exclude', '/go.sum',
                               os.path.join(VERIF, 'harness') + '/', HARNESS + '/'])
    # go.mod is regenerated so that the replace directive always points at the repo in use; both files are replaced
    # atomically and only when they differ, so that checks started at the same moment do not read a half-written file
    tmpl = open(os.path.join(HARNESS, 'go.mod.tmpl')).read()
    for name, content in (('go.sum', open(os.path.join(REPO, 'go.sum')).read()), ('go.mod', tmpl.replace('@REPO@', REPO))):
        dst = os.path.join(HARNESS, name)
        if not os.path.exists(dst) or open(dst).read() != content:
            tmp = '%s.%d.tmp' % (dst, os.getpid())
            open(tmp, 'w').write(content)
            os.replace(tmp, dst)
    r = subprocess.run(['go', 'build', '-tags', 'verif', '-o', BIN, './cmd/pdverif'], cwd=HARNESS,
                       env=goenv(), stdout=subprocess.PIPE, stderr=subprocess.STDOUT, text=True)
    if r.returncode != 0:
        log(r.stdout[-6000:])
        raise Inconclusive('harness build failed (does /repo compile with -tags verif?)')
    log('[build] harness built in %.1fs' % (time.time() - t0))


class TLCResult:
    def __init__(self):
        self.generated = 0
        self.distinct = 0
        self.depth = 0
        self.violated = None     # invariant / property name
        self.kind = None         # 'invariant' | 'action_property' | 'postcondition' | 'deadlock' | 'temporal'
        self.error = None        # tool error text
        self.out = ''
        self.cex = []            # list of {'action','args','state'}
        self.hw = None
        self.coverage = {}
        self.wall = 0.0


_num = r'([\d,]+)'


def _parse_tlc(out):
    r = TLCResult()
    r.out = out
    ms = re.findall(_num + r' states generated, ' + _num + r' distinct states found', out)
    if ms:
        r.generated = int(ms[-1][0].replace(',', ''))
        r.distinct = int(ms[-1][1].replace(',', ''))
    m = re.search(r'The number of states generated: ' + _num, out)
    if m and not ms:
        r.generated = int(m.group(1).replace(',', ''))
    m = re.search(r'depth of the complete state graph search is (\d+)', out)
    if m:
        r.depth = int(m.group(1))
    m = re.search(r'<<"HW", (\d+)>>', out)
    if m:
        r.hw = int(m.group(1))
    m = re.search(r'Error: Invariant (\S+) is violated', out)
    if m:
        r.violated, r.kind = m.group(1), 'invariant'
    m = re.search(r'Error: Action property (\S+) is violated', out)
    if m:
        r.violated, r.kind = m.group(1), 'action_property'
    m = re.search(r'Action property (?:line[^\n]*of module \S+|(\S+)) is violated', out)
    if m and not r.violated:
        r.violated, r.kind = (m.group(1) or 'action_property'), 'action_property'
    m = re.search(r'Error: Postcondition (\S+)', out)
    if m and not r.violated:
        r.violated, r.kind = m.group(1), 'postcondition'
    if 'Error: Deadlock reached' in out and not r.violated:
        r.violated, r.kind = 'Deadlock', 'deadlock'
    if re.search(r'Error: Temporal properties were violated', out) and not r.violated:
        r.violated, r.kind = 'Temporal', 'temporal'
    if not r.violated:
        m = re.search(r'Error: (.*)', out)
        if m and 'Postcondition' not in m.group(1):
            r.error = out[m.start():m.start() + 1500]
    # counterexample states
    if r.violated:
        blocks = re.split(r'\nState (\d+): ', out)
        i = 1
        while i + 1 < len(blocks):
            body = blocks[i + 1]
            lines = body.split('\n')
            hdr = lines[0]
            mm = re.match(r'<(\w+)(?:\((.*)\))? line', hdr)
            st_lines = []
            for ln in lines[1:]:
                if ln.strip() == '':
                    break
                st_lines.append(ln)
            try:
                st = tlaval.parse_state(st_lines)
            except Exception:
                st = {'_raw': '\n'.join(st_lines)}
            act, args = ('Init', [])
            if mm:
                act = mm.group(1)
                try:
                    args = tlaval.split_args(mm.group(2)) if mm.group(2) else []
                except Exception:
                    args = [mm.group(2)]
            r.cex.append({'action': act, 'args': args, 'state': st})
            i += 2
    # coverage: lines like  <Action line 5, col 1 to line 6, col 40 of module X>: 12:345
    for m in re.finditer(r'^<(\w+) line \d+, col \d+ to line \d+, col \d+ of module (\w+)>: (\d+):(\d+)', out, re.M):
        r.coverage[m.group(1)] = r.coverage.get(m.group(1), 0) + int(m.group(4))
    return r


def scratch(ctx_dir, name):
    d = os.path.join(ctx_dir, name)
    shutil.rmtree(d, ignore_errors=True)
    os.makedirs(d)
    return d


def stage_spec(dst, area):
    """copy spec/common and spec/<area> into dst"""
    for src in [os.path.join(VERIF, 'spec', 'common')] + [os.path.join(VERIF, 'spec', a) for a in area.split('+')]:
        for f in glob.glob(os.path.join(src, '*')):
            if os.path.isfile(f):
                shutil.copy(f, dst)


def run_tlc(cwd, module, cfg, workers=None, timeout=600, extra=(), heap=None, deque=False, coverage=False, nodeadlock=True):
    """Runs TLC in cwd (a scratch dir holding the staged spec)."""
    workers = workers or NCPU
    env = dict(os.environ)
    jopts = []
    if heap:
        jopts.append('-Xmx%s' % heap)
    jopts.append('-Xss64m')
    if deque:
        jopts.append('-Dtlc2.tool.queue.IStateQueue=StateDeque')
    env['JAVA_TOOL_OPTIONS'] = ' '.join(jopts)
    md = os.path.join(cwd, 'md_%d' % int(time.time() * 1000))
    cmd = ['timeout', str(timeout), 'tlc', '-workers', str(workers), '-metadir', md, '-config', cfg]
    if coverage:
        cmd += ['-coverage', '1']
    if nodeadlock:
        cmd += ['-deadlock']
    cmd += list(extra) + [module]
    t0 = time.time()
    p = subprocess.run(cmd, cwd=cwd, env=env, stdout=subprocess.PIPE, stderr=subprocess.STDOUT, text=True)
    r = _parse_tlc(p.stdout)
    r.wall = time.time() - t0
    r.rc = p.returncode
    shutil.rmtree(md, ignore_errors=True)
    if p.returncode == 124:
        r.error = 'timeout after %ds' % timeout
    elif p.returncode != 0 and not r.violated and not r.error:
        r.error = 'tlc exit %d: %s' % (p.returncode, p.stdout[-1500:])
    return r


def tlc_simulate(cwd, module, cfg, num, depth, seed, timeout=600):
    """Generate `num` random behaviours of length <= depth; returns list of behaviours (lists of steps)."""
    simdir = os.path.join(cwd, 'sim')
    shutil.rmtree(simdir, ignore_errors=True)
    os.makedirs(simdir)
    r = run_tlc(cwd, module, cfg, workers=1, timeout=timeout,
                extra=['-simulate', 'file=sim/b,num=%d' % num, '-depth', str(depth), '-seed', str(seed)])
    if r.error and 'timeout' in r.error:
        raise Inconclusive('tlc -simulate: ' + r.error)
    files = sorted(glob.glob(os.path.join(simdir, 'b_*')), key=lambda p: [int(x) for x in re.findall(r'\d+', os.path.basename(p))])
    behs = []
    for f in files:
        try:
            behs.append(tlaval.parse_behaviour_file(f))
        except Exception as e:  # pragma: no cover
            raise Inconclusive('cannot parse behaviour %s: %s' % (f, e))
    if not behs:
        raise Inconclusive('tlc -simulate produced no behaviours: ' + (r.error or r.out[-800:]))
    return behs, r


def validate_trace(cwd, module, cfg, trace_path, timeout=900, deque=True):
    """Runs a trace/monitor spec (reads trace.ndjson in cwd). Returns TLCResult with .accepted, .line."""
    dst = os.path.join(cwd, 'trace.ndjson')
    if os.path.abspath(trace_path) != os.path.abspath(dst):
        shutil.copyfile(trace_path, dst)
    r = run_tlc(cwd, module, cfg, workers=1, timeout=timeout, deque=deque, heap='8g')
    n = sum(1 for _ in open(dst))
    r.trace_len = n
    r.accepted = (r.violated is None and r.error is None)
    r.line = None
    if r.violated and r.kind in ('invariant', 'action_property') and r.cex:
        # the cursor variable l points at the next event to consume; the offending event is l-1
        l = r.cex[-1]['state'].get('l')
        if isinstance(l, int):
            r.line = l - 1
    elif r.violated and r.kind == 'postcondition' and r.hw is not None:
        r.line = r.hw
    return r


def read_ndjson(path):
    return [json.loads(x) for x in open(path) if x.strip()]


def run_harness(args, timeout=900, env_extra=None, stdout_path=None):
    env = goenv()
    if env_extra:
        env.update(env_extra)
    t0 = time.time()
    for attempt in range(3):
        try:
            p = subprocess.run([BIN] + [str(a) for a in args], env=env, stdout=subprocess.PIPE, stderr=subprocess.PIPE,
                               text=True, timeout=timeout)
        except subprocess.TimeoutExpired:
            raise Inconclusive('harness timeout: pdverif %s' % ' '.join(map(str, args)))
        # an in-process server could not bind the port it had picked (taken by another process in between): not a result, run again
        if p.returncode != 0 and re.search(r'ErrCancelStartEtcd|address already in use', p.stderr[-4000:]):
            log('[harness] a server could not start (port taken); running the command again')
            continue
        break
    if p.returncode != 0:
        log(p.stderr[-4000:])
        raise Inconclusive('harness failed rc=%d: pdverif %s' % (p.returncode, ' '.join(map(str, args))))
    log('[harness] pdverif %s (%.1fs)' % (' '.join(map(str, args)), time.time() - t0))
    return p.stdout


# ---------------------------------------------------------------- findings

def load_findings():
    p = os.path.join(VERIF, 'known_findings.json')
    if not os.path.exists(p):
        return []
    return json.load(open(p)).get('findings', [])


class Ctx:
    def __init__(self, pid, tier, seed):
        self.pid, self.tier, self.seed = pid, tier, seed
        self.t0 = time.time()
        self.dir = os.path.join(WORK, '%s-%s' % (pid, tier))
        shutil.rmtree(self.dir, ignore_errors=True)
        os.makedirs(self.dir)
        self.violations = []      # unknown violations
        self.known_hits = {}      # finding id -> count
        self.drift = []
        self.states = 0
        self.transitions = 0
        self.traces = 0
        self.events = 0
        self.samples = []
        self.assumptions = []
        self.extra = {}
        self.mc_runs = []
        self.evaluations = 0      # exploration level: cases judged ...
        self.distinct = set()     # ... and the distinct non-trivial ones among them (hashes)
        self.findings = [f for f in load_findings() if f.get('property') == pid]

    @property
    def quick(self):
        return self.tier == 'quick'

    def scratch(self, name, area=None):
        d = scratch(self.dir, name)
        if area:
            stage_spec(d, area)
        return d

    # -- exhaustive model checking -------------------------------------------------
    def mc(self, area, module, cfg, timeout=1200, workers=None, expect_violation=None, coverage=False, heap=None):
        """Exhaustive TLC run of a design spec. A violation here is a *model* counterexample: it is
        returned to the caller (who must reproduce it on the real code before anything is reported)."""
        d = self.scratch('mc_' + os.path.splitext(cfg)[0], area)
        r = run_tlc(d, module, cfg, workers=workers, timeout=timeout, coverage=coverage, heap=heap)
        if r.error:
            raise Inconclusive('TLC %s/%s: %s' % (module, cfg, r.error))
        self.states += r.distinct
        self.transitions += r.generated
        self.mc_runs.append({'module': module, 'cfg': cfg, 'distinct_states': r.distinct, 'states_generated': r.generated,
                             'depth': r.depth, 'violated': r.violated, 'wall_s': round(r.wall, 1),
                             'coverage_zero': sorted(k for k, v in r.coverage.items() if v == 0) if coverage else None})
        log('[mc] %s %s: %d distinct / %d generated, depth %d, %s, %.1fs' % (module, cfg, r.distinct, r.generated, r.depth,
                                                                            ('VIOLATED ' + r.violated) if r.violated else 'ok', r.wall))
        if expect_violation is not None:
            if r.violated != expect_violation:
                raise Inconclusive('model %s/%s expected counterexample to %s (known finding) but got %s - model or code changed'
                                   % (module, cfg, expect_violation, r.violated))
        shutil.rmtree(d, ignore_errors=True)
        return r

    def simulate(self, area, module, cfg, num, depth, seed=None, timeout=600):
        d = self.scratch('sim_' + os.path.splitext(cfg)[0], area)
        behs, r = tlc_simulate(d, module, cfg, num, depth, self.seed if seed is None else seed, timeout=timeout)
        self.transitions += r.generated
        log('[sim] %s %s: %d behaviours, %d states' % (module, cfg, len(behs), r.generated))
        shutil.rmtree(d, ignore_errors=True)
        return behs

    def apalache(self, area, module, init, inv, length, timeout=1800):
        """Symbolic check with Apalache (inductive-invariant style obligations). Returns True when no error was found;
        a counterexample or a tool failure concerns the MODEL only and makes the run inconclusive."""
        d = self.scratch('apa_%s_%s_%s' % (module, init, inv), area)
        t0 = time.time()
        try:
            p = subprocess.run(['apalache-mc', 'check', '--init=' + init, '--inv=' + inv, '--length=%d' % length, module + '.tla'], cwd=d,
                               stdout=subprocess.PIPE, stderr=subprocess.STDOUT, text=True, timeout=timeout)
        except subprocess.TimeoutExpired:
            raise Inconclusive('apalache timeout on %s %s/%s' % (module, init, inv))
        ok = 'EXITCODE: OK' in p.stdout
        log('[apalache] %s init=%s inv=%s length=%d: %s (%.1fs)' % (module, init, inv, length, 'no error' if ok else 'ERROR', time.time() - t0))
        self.extra.setdefault('apalache_obligations', []).append({'module': module, 'init': init, 'inv': inv, 'length': length, 'discharged': ok})
        shutil.rmtree(d, ignore_errors=True)
        if not ok:
            log(p.stdout[-3000:])
            raise Inconclusive('apalache obligation %s: %s => %s (length %d) not discharged - the model changed?' % (module, init, inv, length))
        return True

    # -- validating recorded real executions --------------------------------------
    def monitor(self, area, module, cfg, trace_path, label, classify=None, timeout=900, count_traces=True):
        """Validate an ndjson recording of the REAL code against a monitor spec. A rejection is a property
        violation by the real code -> known finding or VIOLATION. classify(result, events) -> signature string."""
        d = self.scratch('mon_' + label, area)
        evs = read_ndjson(trace_path)
        ntr = sum(1 for e in evs if e.get('ev') == 'reset')
        r = validate_trace(d, module, cfg, trace_path, timeout=timeout)
        if r.error:
            raise Inconclusive('monitor %s on %s: %s' % (module, label, r.error))
        if count_traces:
            self.traces += max(ntr, 1)
            self.events += len(evs)
        self.transitions += r.generated
        self.states += r.distinct
        log('[mon] %s %s: %d events, %d traces, %s (%.1fs)' % (module, label, len(evs), ntr,
                                                            'accepted' if r.accepted else 'REJECTED %s at line %s' % (r.violated, r.line), r.wall))
        if not r.accepted:
            sig = classify(r, evs) if classify else None
            self.report(r.violated, sig, trace_path, r, evs, label)
        shutil.rmtree(d, ignore_errors=True)
        return r

    def monitor_all(self, area, module, cfg, trace_path, label, timeout=900):
        """Like monitor() for monitors that never stop: they accumulate <<trace, clause, line>> in a register that the
        postcondition prints as <<"BAD", {...}>>. Returns (list of (trace, clause, line), events). Reporting is left to the
        caller (known-finding classification needs the trace context)."""
        d = self.scratch('mon_' + label, area)
        evs = read_ndjson(trace_path)
        ntr = sum(1 for e in evs if e.get('ev') == 'reset')
        r = validate_trace(d, module, cfg, trace_path, timeout=timeout)
        if r.error:
            raise Inconclusive('monitor %s on %s: %s' % (module, label, r.error))
        if r.violated and not (r.kind == 'postcondition'):
            raise Inconclusive('monitor %s on %s: unexpected %s' % (module, label, r.violated))
        if r.hw != len(evs) + 1:
            raise Inconclusive('monitor %s on %s consumed %s of %d events' % (module, label, r.hw, len(evs)))
        self.last_out = r.out
        bad = []
        mm = re.search(r'<<\s*"BAD"', r.out)
        i = mm.start() if mm else -1
        if i < 0:
            raise Inconclusive('monitor %s on %s printed no BAD register' % (module, label))
        depth, j = 0, i
        while j < len(r.out):
            if r.out.startswith('<<', j):
                depth += 1
                j += 2
                continue
            if r.out.startswith('>>', j):
                depth -= 1
                j += 2
                if depth == 0:
                    break
                continue
            j += 1
        val = tlaval.parse_value(r.out[i:j].replace('\n', ' '))
        for t in tlaval.setof(val[1]):
            bad.append((t[0], t[1], t[2]))
        bad.sort(key=lambda x: x[2])
        self.traces += max(ntr, 1)
        self.events += len(evs)
        self.transitions += r.generated
        self.states += r.distinct
        log('[mon] %s %s: %d events, %d traces, %d violation(s) (%.1fs)' % (module, label, len(evs), ntr, len(bad), r.wall))
        shutil.rmtree(d, ignore_errors=True)
        return bad, evs

    def conform(self, area, module, cfg, trace_path, label, timeout=900):
        """Validate a recording against the DESIGN spec's actions. Rejection = spec drift (not an alarm)."""
        d = self.scratch('conf_' + label, area)
        r = validate_trace(d, module, cfg, trace_path, timeout=timeout)
        if r.error:
            raise Inconclusive('conformance %s on %s: %s' % (module, label, r.error))
        self.transitions += r.generated
        self.states += r.distinct
        log('[conf] %s %s: %s (%.1fs)' % (module, label, 'explained by the specification' if r.accepted else
                                         'SPEC DRIFT %s at line %s' % (r.violated, r.line), r.wall))
        if not r.accepted:
            evs = read_ndjson(trace_path)
            ev = evs[r.line - 1] if r.line and 0 < r.line <= len(evs) else None
            self.drift.append({'label': label, 'module': module, 'what': r.violated, 'line': r.line, 'event': ev})
        shutil.rmtree(d, ignore_errors=True)
        return r

    def report(self, what, signature, trace_path, r=None, evs=None, label=''):
        """Record a violation by the real code, matching it against known findings."""
        for f in self.findings:
            if f.get('status') == 'open' and signature is not None and f.get('signature') == signature:
                self.known_hits[f['id']] = self.known_hits.get(f['id'], 0) + 1
                return
        # unknown -> bundle
        rd = os.path.join(ALT or VERIF, 'replays', self.pid, '%s-%d-%s' % (self.tier, self.seed, label or 'v%d' % len(self.violations)))
        shutil.rmtree(rd, ignore_errors=True)
        os.makedirs(rd)
        if trace_path and os.path.exists(trace_path):
            shutil.copyfile(trace_path, os.path.join(rd, 'trace.ndjson'))
        info = {'property': self.pid, 'violated': what, 'signature': signature, 'label': label}
        if r is not None:
            info['line'] = r.line
            if evs and r.line and 0 < r.line <= len(evs):
                info['event'] = evs[r.line - 1]
                lo = r.line - 1
                while lo > 0 and evs[lo].get('ev') != 'reset':
                    lo -= 1
                info['trace_prefix'] = evs[lo:r.line]
            open(os.path.join(rd, 'tlc.out'), 'w').write(r.out[-20000:])
        json.dump(info, open(os.path.join(rd, 'info.json'), 'w'), indent=1, default=str)
        self.violations.append({'what': what, 'signature': signature, 'replay': rd})

    def tally(self, cases, key, nontrivial):
        """exploration-level accounting: every case counts as an evaluation; a case that is non-trivial by the check's rule is
        counted once per distinct key (the key is the case itself without run-specific counters)."""
        import hashlib
        for c in cases:
            self.evaluations += 1
            if nontrivial(c):
                self.distinct.add(hashlib.sha1(json.dumps(key(c), sort_keys=True, default=str).encode()).hexdigest())

    def sample(self, x):
        if len(self.samples) < 6:
            self.samples.append(x)

    # -- finishing -----------------------------------------------------------------
    def finish(self, level='model_checking', rule=None, extra=None):
        for f in self.findings:
            if f.get('status') == 'open' and self.known_hits.get(f['id']):
                print('KNOWN-FINDING: property=%s %s (id %s, seen %d time(s) in this run)' % (self.pid, f['what'], f['id'], self.known_hits[f['id']]))
        cov = {
            'states': max(self.states, 0),
            'transitions': max(self.transitions, 0),
            'traces_validated_against_impl': self.traces,
            'events_validated': self.events,
            'samples': self.samples or ['(no sample recorded)'],
            'model_checking_runs': self.mc_runs,
            'spec_drift': self.drift,
            'known_findings_seen': self.known_hits,
        }
        if rule:
            cov['rule'] = rule
        if level == 'exploration':
            cov['evaluations'] = self.evaluations
            cov['distinct_nontrivial'] = len(self.distinct)
        cov.update(self.extra)
        if extra:
            cov.update(extra)
        ev = {'property_id': self.pid, 'tier': self.tier, 'seed': self.seed, 'level': level, 'coverage': cov,
              'assumptions': self.assumptions, 'wall_s': round(time.time() - self.t0, 1), 'violations': len(self.violations)}
        # VERIF_EVIDENCE_DIR: used by tools/seed_matrix.py so that runs on a deliberately broken tree do not replace the evidence
        evdir = os.environ.get('VERIF_EVIDENCE_DIR') or os.path.join(VERIF, 'evidence')
        os.makedirs(evdir, exist_ok=True)
        json.dump(ev, open(os.path.join(evdir, self.pid + '.json'), 'w'), indent=1, default=str)
        for d in self.drift:
            log('spec_drift: %s' % json.dumps(d, default=str)[:600])
        if not os.environ.get('VERIF_KEEP_WORK'):
            shutil.rmtree(self.dir, ignore_errors=True)
        if self.violations:
            for v in self.violations:
                print('VIOLATION property=%s replay=%s' % (self.pid, v['replay']))
                log('  violated: %s signature=%s' % (v['what'], v['signature']))
            return 1
        print('OK property=%s tier=%s seed=%d states=%d traces=%d events=%d wall=%.0fs' % (
            self.pid, self.tier, self.seed, self.states, self.traces, self.events, time.time() - self.t0))
        return 0
