"""Parser for TLA+ values as printed by TLC (states in -simulate files and counterexamples)."""
import re

_tok = re.compile(r'\s*(<<|>>|\|->|:>|@@|\.\.|\[|\]|\{|\}|\(|\)|,|-?\d+|"(?:[^"\\]|\\.)*"|[A-Za-z_][A-Za-z0-9_]*)')


def tokenize(s):
    out, i = [], 0
    s = s.strip()
    while i < len(s):
        m = _tok.match(s, i)
        if not m:
            raise ValueError("tla tokenize at %r" % s[i:i + 30])
        out.append(m.group(1))
        i = m.end()
    return out


class _P:
    def __init__(self, toks):
        self.t, self.i = toks, 0

    def peek(self):
        return self.t[self.i] if self.i < len(self.t) else None

    def eat(self, x=None):
        v = self.t[self.i]
        if x is not None and v != x:
            raise ValueError("expected %s got %s" % (x, v))
        self.i += 1
        return v

    def value(self):
        v = self.atom()
        if self.peek() == '..':
            self.eat('..')
            hi = self.atom()
            return {'__set__': list(range(v, hi + 1))}
        # function merge  a :> b @@ c :> d
        if self.peek() == ':>':
            d = {}
            k = v
            self.eat(':>')
            d[_key(k)] = self.atom()
            while self.peek() == '@@':
                self.eat('@@')
                k = self.atom()
                self.eat(':>')
                d[_key(k)] = self.atom()
            return d
        return v

    def atom(self):
        t = self.eat()
        if t == '<<':
            xs = []
            while self.peek() != '>>':
                xs.append(self.value())
                if self.peek() == ',':
                    self.eat(',')
            self.eat('>>')
            return xs
        if t == '{':
            xs = []
            while self.peek() != '}':
                xs.append(self.value())
                if self.peek() == ',':
                    self.eat(',')
            self.eat('}')
            return {'__set__': xs}
        if t == '[':
            d = {}
            while self.peek() != ']':
                k = self.eat()
                self.eat('|->')
                d[k] = self.value()
                if self.peek() == ',':
                    self.eat(',')
            self.eat(']')
            return d
        if t == '(':
            v = self.value()
            self.eat(')')
            return v
        if t[0] == '"':
            return t[1:-1]
        if re.fullmatch(r'-?\d+', t):
            return int(t)
        if t == 'TRUE':
            return True
        if t == 'FALSE':
            return False
        return t  # model value / identifier


def _key(k):
    if isinstance(k, list):
        return tuple(_key(x) for x in k)
    if isinstance(k, dict) and '__set__' in k:      # a function whose domain consists of sets: the key is the sorted members joined by '+'
        return '+'.join(sorted(str(x) for x in k['__set__']))
    return k


def parse_value(s):
    p = _P(tokenize(s))
    v = p.value()
    if p.i != len(p.t):
        raise ValueError("trailing tokens in %r" % s)
    return v


def setof(v):
    """Python list for a parsed TLA set ({} parses to {'__set__': []})."""
    if isinstance(v, dict) and '__set__' in v:
        return v['__set__']
    raise ValueError("not a set: %r" % (v,))


_state_var = re.compile(r'^/\\ ([A-Za-z_][A-Za-z0-9_]*) = (.*)$')


def parse_state(lines):
    """lines: the '/\\ var = value' lines of one state (values may span several lines)."""
    st, cur, buf = {}, None, []
    for ln in lines:
        m = _state_var.match(ln)
        if m:
            if cur is not None:
                st[cur] = parse_value(' '.join(buf))
            cur, buf = m.group(1), [m.group(2)]
        elif cur is not None and ln.strip():
            buf.append(ln.strip())
    if cur is not None:
        st[cur] = parse_value(' '.join(buf))
    return st


_hdr = re.compile(r'^\\\* <(\w+)(?:\((.*)\))? line \d+')


def parse_behaviour_file(path):
    """Returns list of steps: {'action': name, 'args': [str...], 'state': {...}} (first is Init)."""
    steps, action, args, lines, instate = [], None, None, [], False
    for ln in open(path):
        ln = ln.rstrip('\n')
        m = _hdr.match(ln)
        if m:
            action = m.group(1)
            args = split_args(m.group(2)) if m.group(2) else []
            continue
        if ln.startswith('STATE_'):
            instate, lines = True, []
            continue
        if instate:
            if ln.strip() == '' or ln.startswith('====='):
                if lines:
                    steps.append({'action': action, 'args': args, 'state': parse_state(lines)})
                    lines, instate = [], False
                continue
            lines.append(ln)
    return steps


def split_args(s):
    """Split top-level comma separated args and parse each as TLA value."""
    out, depth, cur = [], 0, ''
    i = 0
    while i < len(s):
        c = s[i]
        two = s[i:i + 2]
        if two in ('<<',):
            depth += 1
            cur += two
            i += 2
            continue
        if two in ('>>',):
            depth -= 1
            cur += two
            i += 2
            continue
        if c in '[{(':
            depth += 1
        elif c in ']})':
            depth -= 1
        if c == ',' and depth == 0:
            out.append(cur)
            cur = ''
        else:
            cur += c
        i += 1
    if cur.strip():
        out.append(cur)
    return [parse_value(x) for x in out]
