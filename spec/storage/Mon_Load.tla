--------------------------------- MODULE Mon_Load ---------------------------------
(* Property monitor for C17 over recordings of real full loads (ids are decimal strings).         *)
EXTENDS Integers, Sequences, FiniteSets, TLC, Json
Trace == ndJsonDeserialize("trace.ndjson")
VARIABLES l, bad
vars == <<l, bad>>
Init == l = 1 /\ bad = {} /\ TLCSet(1, 0) /\ TLCSet(2, {})
ToSet(q) == {q[i] : i \in 1..Len(q)}
Overl(a, b) == a[2] < b[3] /\ b[2] < a[3]
Consume ==
  /\ l <= Len(Trace) /\ l' = l + 1
  /\ LET e == Trace[l] IN
     IF e.ev = "reset" THEN bad' = bad
     ELSE IF e.ev = "stores" THEN
       LET want == ToSet(e.saved) \ ToSet(e.deleted) IN
       bad' = bad \cup (IF e.err \/ ToSet(e.loaded) # want THEN {<<e.beh, "EverySavedStoreLoaded", l>>} ELSE {})
                  \cup (IF Len(e.loaded) # Cardinality(ToSet(e.loaded)) THEN {<<e.beh, "ExactlyOnce", l>>} ELSE {})
                  \cup (IF ~e.weights_ok THEN {<<e.beh, "WeightsLoaded", l>>} ELSE {})
     ELSE IF e.ev = "regions" THEN
       LET must == ToSet(e.flushed) \ ToSet(e.deleted)
           may  == ToSet(e.saved) \ ToSet(e.deleted) IN
       bad' = bad \cup (IF e.err \/ ~(must \subseteq ToSet(e.loaded)) THEN {<<e.beh, "EverySavedRegionLoaded", l>>} ELSE {})
                  \cup (IF ~(ToSet(e.loaded) \subseteq may) THEN {<<e.beh, "DeletedRegionLoaded", l>>} ELSE {})
                  \cup (IF Len(e.loaded) # Cardinality(ToSet(e.loaded)) THEN {<<e.beh, "ExactlyOnce", l>>} ELSE {})
     ELSE
       LET C == ToSet(e.cache)  S == ToSet(e.stored_after) IN
       bad' = bad \cup (IF e.err \/ \E a, b \in C : a # b /\ Overl(a, b) THEN {<<e.beh, "CacheNoOverlap", l>>} ELSE {})
                  \cup (IF S # C THEN {<<e.beh, "AfterLoadStorageEqualsCache", l>>} ELSE {})
Spec == Init /\ [][Consume]_vars
HW == IF l > TLCGet(1) THEN TLCSet(1, l) /\ TLCSet(2, bad) ELSE TRUE
AllConsumed == PrintT(<<"HW", TLCGet(1)>>) /\ PrintT(<<"BAD", TLCGet(2)>>) /\ TLCGet(1) = Len(Trace) + 1
=============================================================================
