SPECIFICATION Spec
CONSTANTS Ids = {0, 1, 2, 3, 4, 8, 9}
  Top = 9
  Limit = 2
INVARIANTS ExactlyOnce NoDuplicates
PROPERTIES Terminates
CHECK_DEADLOCK FALSE
