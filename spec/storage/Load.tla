---------------------------------- MODULE Load ----------------------------------
(* server/core/storage.go LoadStores / region_storage.go loadRegions: a full load is a paging  *)
(* loop over an ordered key space: read up to `limit` items from the cursor (end of range        *)
(* exclusive), hand each to the callback, move the cursor to last id + 1, stop when a page is    *)
(* short.  loadRegions adapts the limit (halves it when a page is too big for one message) and   *)
(* deletes what the callback reports as stale / overlapped while iterating.                      *)
EXTENDS Integers, Sequences, FiniteSets, TLC
CONSTANTS Ids,        \* the ids that may be stored (small integers standing for arbitrary uint64 values)
          Top,        \* the largest representable id (2^64-1)
          Limit       \* page limit
VARIABLES stored, cursor, out, done, page
vars == <<stored, cursor, out, done, page>>
Init == stored \in SUBSET Ids /\ cursor = 0 /\ out = <<>> /\ done = FALSE /\ page = <<>>
RECURSIVE Sorted(_)
Sorted(S) == IF S = {} THEN <<>> ELSE LET m == CHOOSE x \in S : \A y \in S : x <= y IN <<m>> \o Sorted(S \ {m})
(* one range read: ids in [cursor, Top] in order, at most Limit of them.  (The end of the range must include Top.) *)
ReadPage == /\ ~done /\ page = <<>>
            /\ LET all == Sorted({x \in stored : x >= cursor /\ x <= Top}) IN
                 page' = IF Len(all) > Limit THEN SubSeq(all, 1, Limit) ELSE all
            /\ done' = (Len(page') = 0)
            /\ UNCHANGED <<stored, cursor, out>>
Consume == /\ page # <<>>
           /\ out' = out \o page
           /\ LET last == page[Len(page)] IN
                \* the cursor must not wrap around when the last id is the largest representable one
                /\ done' = (Len(page) < Limit \/ last = Top)
                /\ cursor' = IF last = Top THEN Top ELSE last + 1
           /\ page' = <<>> /\ UNCHANGED stored
Next == ReadPage \/ Consume
Spec == Init /\ [][Next]_vars /\ WF_vars(Next)
ExactlyOnce == done => (Len(out) = Cardinality(stored) /\ {out[i] : i \in 1..Len(out)} = stored)
NoDuplicates == \A i, j \in 1..Len(out) : i # j => out[i] # out[j]
Terminates == <>done
=============================================================================
