SPECIFICATION Spec
CONSTANTS Mem = {"a", "b", "c"}
  Kinds = {"window", "priority"}
  MaxOps = 12
INVARIANTS AtMostOneServing RecordOwnerTrustsLease
PROPERTIES NonOwnerWriteRejected CampaignOnlyWhenNoRecord
CHECK_DEADLOCK FALSE
