------------------------------ MODULE Mon_Election ------------------------------
(* Property monitor for C03 over recordings with real etcd leases.  After every step: the owner  *)
(* of the leader record read back from etcd, every member's Leadership.Check() and IsLeader(),    *)
(* the result of a timestamp request to every member, and the stored values of the leader-guarded  *)
(* targets (time window, member priority, id window, dc-location data, encryption keys).                           *)
EXTENDS Integers, Sequences, FiniteSets, TLC, Json
Trace == ndJsonDeserialize("trace.ndjson")
VARIABLES l, tr, down, bad
vars == <<l, tr, down, bad>>
Init == l = 1 /\ tr = 0 /\ down = {} /\ bad = {} /\ TLCSet(1, 0) /\ TLCSet(2, {})
Mem(e) == DOMAIN e.check
Consume ==
  /\ l <= Len(Trace) /\ l' = l + 1
  /\ LET e == Trace[l] IN
     IF e.ev = "reset" THEN tr' = e.beh /\ down' = Mem(e) /\ bad' = bad
     ELSE
       LET won == e.ev = "Campaign" /\ e.res = "ok"
           \* members whose lease has expired or was resigned and that have not campaigned successfully since
           d2 == IF e.ev \in {"Expire", "Resign"} THEN down \cup {e.m} ELSE IF won THEN down \ {e.m} ELSE down
           b1 == IF won /\ e.rec_before # "none" THEN {"CampaignOnlyWhenNoRecord"} ELSE {}
           b2 == IF won /\ e.rec # e.m THEN {"CampaignWinnerOwnsRecord"} ELSE {}
           b3 == IF e.ev = "Campaign" /\ e.rec_before # "none" /\ e.rec # e.rec_before THEN {"LiveRecordNotReplaced"} ELSE {}
           b4 == IF \E m \in d2 : e.check[m] \/ e.isleader[m] \/ e.tso[m] = "ok" THEN {"ExpiredOrResignedServesNothing"} ELSE {}
           b5 == IF e.ev = "GuardedWrite" /\ e.rec_before # e.m /\ (e.res = "ok" \/ e.stored[e.kind] # e.stored_before[e.kind])
                   THEN {"NonOwnerWriteRejected"} ELSE {}
           b6 == (IF e.ev = "Expire" /\ e.check_when_record_gone THEN {"LeaseNotTrustedLongerThanEtcd"} ELSE {})
                 \* a member that resigned stops trusting its lease at once, whether or not etcd could be told
                 \cup (IF e.ev = "Resign" /\ e.check_right_after THEN {"ExpiredOrResignedServesNothing"} ELSE {})
           \* a member whose id-window write was refused may still hand out what it reserved itself earlier, nothing beyond
           b8 == IF e.ev = "GuardedWrite" /\ e.kind = "idwindow" /\ e.rec_before # e.m /\ e.served_max > e.own_end
                   THEN {"NonOwnerServesOnlyOwnIds"} ELSE {}
           \* unless the record was removed under a holder that still trusts its lease, at most one member serves
           split == \E m \in Mem(e) : e.check[m] /\ e.rec # m
           b7 == IF ~split /\ Cardinality({m \in Mem(e) : e.check[m] /\ e.isleader[m]}) > 1 THEN {"AtMostOneServing"} ELSE {}
       IN tr' = tr /\ down' = d2 /\ bad' = bad \cup {<<tr, c, l>> : c \in b1 \cup b2 \cup b3 \cup b4 \cup b5 \cup b6 \cup b7 \cup b8}
Spec == Init /\ [][Consume]_vars
HW == IF l > TLCGet(1) THEN TLCSet(1, l) /\ TLCSet(2, bad) ELSE TRUE
AllConsumed == PrintT(<<"HW", TLCGet(1)>>) /\ PrintT(<<"BAD", TLCGet(2)>>) /\ TLCGet(1) = Len(Trace) + 1
=============================================================================
