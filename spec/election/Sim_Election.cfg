SPECIFICATION Spec
CONSTANTS Mem = {"a", "b", "c"}
  Kinds = {"window", "priority", "idwindow", "dcinfo", "keys"}
  MaxOps = 14
CHECK_DEADLOCK FALSE
