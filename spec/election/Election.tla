--------------------------------- MODULE Election ---------------------------------
(* server/election (leadership.go, lease.go) + member.go + the leader-guarded writes of tso,     *)
(* id and member: one leadership key contended by several members.                               *)
(* rec: the leader record in etcd (owner or None), attached to the owner's lease; local[m]: the   *)
(* member's own view of its lease (Leadership.Check()); cached[m]: the member has enabled itself   *)
(* as leader (what the RPC layer's IsLeader() adds to Check()).                                    *)
(* Design assumption (ClockRate): a lease never expires in etcd before it expires locally.        *)
EXTENDS Integers, FiniteSets, TLC
CONSTANTS Mem, Kinds, MaxOps
None == "none"
VARIABLES rec, local, cached, val, nOps, ok
vars == <<rec, local, cached, val, nOps, ok>>
Init == rec = None /\ local = [m \in Mem |-> FALSE] /\ cached = [m \in Mem |-> FALSE]
        /\ val = [k \in Kinds |-> None] /\ nOps = 0 /\ ok = TRUE
Step == nOps < MaxOps /\ nOps' = nOps + 1
(* Campaign: grant a lease, create the record iff it does not exist (CreateRevision = 0) *)
Campaign(m) == /\ Step /\ ~local[m]
               /\ IF rec = None THEN rec' = m /\ local' = [local EXCEPT ![m] = TRUE] /\ cached' = [cached EXCEPT ![m] = TRUE]
                  ELSE UNCHANGED <<rec, local, cached>>                  \* conflict: the new lease is closed again
               /\ UNCHANGED <<val, ok>>
(* keep-alive stops and the lease runs out: locally first, then in etcd (the record disappears) *)
Expire(m) == /\ Step /\ local[m]
             /\ local' = [local EXCEPT ![m] = FALSE] /\ cached' = [cached EXCEPT ![m] = FALSE]
             /\ rec' = IF rec = m THEN None ELSE rec
             /\ UNCHANGED <<val, ok>>
Resign(m) == /\ Step /\ local[m]
             /\ local' = [local EXCEPT ![m] = FALSE] /\ cached' = [cached EXCEPT ![m] = FALSE]
             /\ rec' = IF rec = m THEN None ELSE rec
             /\ UNCHANGED <<val, ok>>
(* the record is removed under its holder, whose lease (and local view) stay alive *)
DeleteKey == Step /\ rec # None /\ rec' = None /\ UNCHANGED <<local, cached, val, ok>>
(* a leader-guarded write: applied iff the record holds this member's value *)
GuardedWrite(m, k) == /\ Step
                      /\ val' = IF rec = m THEN [val EXCEPT ![k] = m] ELSE val
                      /\ UNCHANGED <<rec, local, cached, ok>>
Next == \/ \E m \in Mem : Campaign(m) \/ Expire(m) \/ Resign(m)
        \/ DeleteKey
        \/ \E m \in Mem, k \in Kinds : GuardedWrite(m, k)
Spec == Init /\ [][Next]_vars
(* what may serve leader-only requests: lease view valid and enabled as leader *)
Serving(m) == local[m] /\ cached[m]
(* the record was removed under a member that still trusts its lease: outside the lease assumption *)
Split == \E m \in Mem : local[m] /\ rec # m
AtMostOneServing == ~Split => Cardinality({m \in Mem : Serving(m)}) <= 1
RecordOwnerTrustsLease == rec # None => local[rec]
NonOwnerWriteRejected == [][\A k \in Kinds : val'[k] # val[k] => val'[k] = rec]_vars
CampaignOnlyWhenNoRecord == [][\A m \in Mem : (rec' = m /\ rec # m) => rec = None]_vars
=============================================================================
