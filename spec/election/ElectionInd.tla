--------------------------------- MODULE ElectionInd ---------------------------------
(* Typed copy of Election.tla without the bound on the number of steps, for Apalache.           *)
EXTENDS Integers, FiniteSets
Mem == {"a", "b", "c"}
Kinds == {"window", "priority", "idwindow", "dcinfo", "keys"}
None == "none"
VARIABLES
  \* @type: Str;
  rec,
  \* @type: Str -> Bool;
  local,
  \* @type: Str -> Bool;
  cached,
  \* @type: Str -> Str;
  val
Init == rec = None /\ local = [m \in Mem |-> FALSE] /\ cached = [m \in Mem |-> FALSE] /\ val = [k \in Kinds |-> None]
Campaign(m) == /\ ~local[m]
               /\ IF rec = None THEN rec' = m /\ local' = [local EXCEPT ![m] = TRUE] /\ cached' = [cached EXCEPT ![m] = TRUE]
                  ELSE UNCHANGED <<rec, local, cached>>
               /\ UNCHANGED val
Down(m) == /\ local[m]
           /\ local' = [local EXCEPT ![m] = FALSE] /\ cached' = [cached EXCEPT ![m] = FALSE]
           /\ rec' = IF rec = m THEN None ELSE rec
           /\ UNCHANGED val
DeleteKey == rec # None /\ rec' = None /\ UNCHANGED <<local, cached, val>>
GuardedWrite(m, k) == /\ val' = IF rec = m THEN [val EXCEPT ![k] = m] ELSE val
                      /\ UNCHANGED <<rec, local, cached>>
Next == \/ \E m \in Mem : Campaign(m) \/ Down(m)
        \/ DeleteKey
        \/ \E m \in Mem, k \in Kinds : GuardedWrite(m, k)
TypeOK == /\ rec \in Mem \cup {None} /\ local \in [Mem -> BOOLEAN] /\ cached \in [Mem -> BOOLEAN] /\ val \in [Kinds -> Mem \cup {None}]
Serving(m) == local[m] /\ cached[m]
Split == \E m \in Mem : local[m] /\ rec # m
AtMostOneServing == ~Split => Cardinality({m \in Mem : Serving(m)}) <= 1
IndInv == /\ TypeOK
          /\ (rec # None => local[rec])                       \* the record's owner trusts its lease
          /\ \A m \in Mem : cached[m] => local[m]
NonOwnerWriteRejectedAct == \A k \in Kinds : val'[k] # val[k] => val'[k] = rec
CampaignOnlyWhenNoRecordAct == \A m \in Mem : (rec' = m /\ rec # m) => rec = None
=============================================================================
