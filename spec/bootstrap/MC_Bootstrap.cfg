SPECIFICATION Spec
CONSTANTS Req = {"r1", "r2", "r3", "bad"}
  Malformed = {"bad"}
  Members = {"m1", "m2", "m3"}
  MaxLeaderChanges = 2
INVARIANTS AtMostOneWins StoredFromWinner WinnerIsWellFormed ClusterIdAgreed
PROPERTIES LosersChangeNothing ClusterIdStable
CHECK_DEADLOCK FALSE
