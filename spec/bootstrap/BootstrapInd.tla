----------------------------- MODULE BootstrapInd -----------------------------
(* Typed copy of Bootstrap.tla for Apalache, WITHOUT the bound on leader changes and with the     *)
(* cluster-id proposal of a member chosen freely (the code draws it from the clock and a random    *)
(* number).  IndInv is inductive (Init => IndInv; IndInv /\ Next => IndInv') and implies every      *)
(* state property of Bootstrap.tla; the two action properties hold for every step taken from a      *)
(* state satisfying IndInv - i.e. the C20 clauses hold for any number of requests, repetitions,     *)
(* leader changes and member restarts, not only inside the bounds TLC explores.                     *)
EXTENDS Integers, FiniteSets

Req == {"r1", "r2", "r3", "bad"}
Malformed == {"bad"}
Members == {"m1", "m2", "m3"}
MaxId == 4
None == "none"

VARIABLES
  \* @type: Str;
  root,
  \* @type: Str;
  storedStore,
  \* @type: Str;
  storedRegion,
  \* @type: Bool;
  running,
  \* @type: Str -> Str;
  pc,
  \* @type: Int;
  cid,
  \* @type: Str -> Int;
  mcid,
  \* @type: Str -> Str;
  mpc

Init == /\ root = None /\ storedStore = None /\ storedRegion = None /\ running = FALSE
        /\ pc = [r \in Req |-> "idle"] /\ cid = 0 /\ mcid = [m \in Members |-> 0] /\ mpc = [m \in Members |-> "idle"]

Begin(r) == /\ pc[r] \in {"idle", "lost", "refused", "invalid"}
            /\ pc' = [pc EXCEPT ![r] = IF running THEN "refused" ELSE IF r \in Malformed THEN "invalid" ELSE "txn"]
            /\ UNCHANGED <<root, storedStore, storedRegion, running, cid, mcid, mpc>>
Txn(r) == /\ pc[r] = "txn"
          /\ IF root = None
               THEN root' = r /\ storedStore' = r /\ storedRegion' = r /\ pc' = [pc EXCEPT ![r] = "start"]
               ELSE UNCHANGED <<root, storedStore, storedRegion>> /\ pc' = [pc EXCEPT ![r] = "lost"]
          /\ UNCHANGED <<running, cid, mcid, mpc>>
StartCluster(r) == /\ pc[r] = "start" /\ running' = TRUE /\ pc' = [pc EXCEPT ![r] = "won"]
                   /\ UNCHANGED <<root, storedStore, storedRegion, cid, mcid, mpc>>
LeaderChange == /\ running' = (root # None)
                /\ pc' = [r \in Req |-> IF pc[r] = "start" THEN "won" ELSE pc[r]]
                /\ UNCHANGED <<root, storedStore, storedRegion, cid, mcid, mpc>>
InitId(m, v) == /\ mpc[m] = "idle"
                /\ IF cid = 0 THEN (cid' = v) /\ (mcid' = [mcid EXCEPT ![m] = v])
                   ELSE (mcid' = [mcid EXCEPT ![m] = cid]) /\ UNCHANGED cid
                /\ mpc' = [mpc EXCEPT ![m] = "done"]
                /\ UNCHANGED <<root, storedStore, storedRegion, running, pc>>
Restart(m) == mpc[m] = "done" /\ mpc' = [mpc EXCEPT ![m] = "idle"] /\ UNCHANGED <<root, storedStore, storedRegion, running, pc, cid, mcid>>

Next == \/ \E r \in Req : Begin(r) \/ Txn(r) \/ StartCluster(r)
        \/ LeaderChange
        \/ \E m \in Members, v \in 1..MaxId : InitId(m, v)
        \/ \E m \in Members : Restart(m)

TypeOK == /\ root \in Req \cup {None} /\ storedStore \in Req \cup {None} /\ storedRegion \in Req \cup {None}
          /\ running \in BOOLEAN /\ cid \in 0..MaxId
          /\ pc \in [Req -> {"idle", "txn", "start", "won", "lost", "refused", "invalid"}]
          /\ mcid \in [Members -> 0..MaxId] /\ mpc \in [Members -> {"idle", "done"}]

\* the state properties of Bootstrap.tla
AtMostOneWins == \A a, b \in Req : pc[a] \in {"start", "won"} /\ pc[b] \in {"start", "won"} => a = b
StoredFromWinner == root = storedStore /\ root = storedRegion
WinnerIsWellFormed == root # None => root \notin Malformed
ClusterIdAgreed == \A m \in Members : mcid[m] # 0 => mcid[m] = cid
Props == AtMostOneWins /\ StoredFromWinner /\ WinnerIsWellFormed /\ ClusterIdAgreed
\* the action properties of Bootstrap.tla
LosersChangeNothingAct == (root # None) => (root' = root /\ storedStore' = storedStore /\ storedRegion' = storedRegion)
ClusterIdStableAct == cid # 0 => cid' = cid

IndInv == /\ TypeOK
          /\ StoredFromWinner /\ ClusterIdAgreed /\ WinnerIsWellFormed
          /\ \A r \in Req : pc[r] \in {"start", "won"} => root = r      \* whoever is (about to be) the winner wrote the root
          /\ \A r \in Req : pc[r] \in {"txn", "start", "won"} => r \notin Malformed
          /\ running => root # None                                      \* the pre-check refuses only a bootstrapped cluster
          /\ \A r \in Req : pc[r] = "lost" => root # None
=============================================================================
