SPECIFICATION Spec
CONSTANTS Req = {"r1", "r2", "r3", "bad"}
  Malformed = {"bad"}
  Members = {"m1"}
  MaxLeaderChanges = 2
CHECK_DEADLOCK FALSE
