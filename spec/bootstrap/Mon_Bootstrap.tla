----------------------------- MODULE Mon_Bootstrap -----------------------------
(* Property monitor for C20 over recordings of a real server: results of the Bootstrap handler,  *)
(* the first-store / first-region / cluster-meta keys read back from etcd, IsBootstrapped, a      *)
(* probe request with a foreign cluster id; and the ids returned by racing initOrGetClusterID.     *)
EXTENDS Integers, Sequences, FiniteSets, TLC, Json
Trace == ndJsonDeserialize("trace.ndjson")
VARIABLES l, tr, winner, wstore, wregion, cid, wellformedDone, bad
vars == <<l, tr, winner, wstore, wregion, cid, wellformedDone, bad>>
Init == l = 1 /\ tr = 0 /\ winner = "" /\ wstore = 0 /\ wregion = 0 /\ cid = 0 /\ wellformedDone = FALSE /\ bad = {} /\ TLCSet(1, 0) /\ TLCSet(2, {})
ToSet(q) == {q[i] : i \in 1..Len(q)}
Consume ==
  /\ l <= Len(Trace) /\ l' = l + 1
  /\ LET e == Trace[l] IN
     IF e.ev = "reset" THEN tr' = e.beh /\ winner' = "" /\ wstore' = 0 /\ wregion' = 0 /\ cid' = 0 /\ wellformedDone' = FALSE /\ bad' = bad
     ELSE IF e.ev = "InitId" THEN
       LET c2 == IF cid = 0 THEN e.stored ELSE cid
           b == (IF e.err \/ e.id # e.stored THEN {"ClusterIdAgreed"} ELSE {}) \cup (IF cid # 0 /\ e.stored # cid THEN {"ClusterIdStable"} ELSE {}) IN
       tr' = tr /\ cid' = c2 /\ UNCHANGED <<winner, wstore, wregion, wellformedDone>> /\ bad' = bad \cup {<<tr, c, l>> : c \in b}
     ELSE
       LET won == e.res = "won"
           b1 == IF won /\ winner # "" THEN {"ExactlyOneWins"} ELSE {}
           w2 == IF won /\ winner = "" THEN e.r ELSE winner
           ws == IF won /\ winner = "" THEN e.store ELSE wstore
           wr == IF won /\ winner = "" THEN e.region ELSE wregion
           \* what is stored comes from the winner and from nobody else; before there is a winner nothing is stored
           \* (a transaction that has been applied while its handler is still starting the cluster shows up as stored first)
           b2 == IF w2 # "" /\ (ToSet(e.stores) # {ws} \/ ToSet(e.regions) # {wr} \/ ~e.meta) THEN {"StoredFromWinner"} ELSE {}
           b3 == IF w2 = "" /\ e.res \in {"refused", "error"} /\ e.ev \in {"Begin"} /\ (e.stores # <<>> \/ e.regions # <<>>) /\ ~e.bootstrapped THEN {} ELSE {}
           b4 == IF ~e.foreign_refused THEN {"ForeignClusterIdRefused"} ELSE {}
           b5 == IF ~e.cluster_id_same THEN {"ClusterIdStable"} ELSE {}
           b6 == IF w2 # "" /\ ~e.bootstrapped /\ e.ev # "LeaderChange" THEN {"BootstrappedAfterWin"} ELSE {}
           b7 == IF e.r = "bad" /\ won THEN {"MalformedRefused"} ELSE {}
           b8 == IF Len(e.stores) > 1 \/ Len(e.regions) > 1 THEN {"StoredFromWinner"} ELSE {}
           \* the region storage holds nothing before there is a winner and nothing but the winner's region afterwards
           b10 == (IF ~e.meta_id_same THEN {"ClusterIdStable"} ELSE {}) \cup (IF ~e.foreign_config_refused THEN {"ForeignClusterIdRefused"} ELSE {})
           b9 == IF ~(ToSet(e.rs_regions) \subseteq (IF w2 = "" THEN {} ELSE {wr})) THEN {"RegionStorageFromWinner"} ELSE {}
       IN tr' = tr /\ winner' = w2 /\ wstore' = ws /\ wregion' = wr /\ cid' = cid
          /\ wellformedDone' = (wellformedDone \/ (e.r # "bad" /\ e.res \in {"won", "refused", "error"}))
          /\ bad' = bad \cup {<<tr, c, l>> : c \in b1 \cup b2 \cup b3 \cup b4 \cup b5 \cup b6 \cup b7 \cup b8 \cup b9 \cup b10}
Spec == Init /\ [][Consume]_vars
HW == IF l > TLCGet(1) THEN TLCSet(1, l) /\ TLCSet(2, bad) ELSE TRUE
AllConsumed == PrintT(<<"HW", TLCGet(1)>>) /\ PrintT(<<"BAD", TLCGet(2)>>) /\ TLCGet(1) = Len(Trace) + 1
=============================================================================
