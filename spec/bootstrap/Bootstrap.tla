------------------------------- MODULE Bootstrap -------------------------------
(* server/grpc_service.go Bootstrap + server.go bootstrapCluster + util.go                    *)
(* checkBootstrapRequest / initOrGetClusterID.                                                *)
(* A bootstrap request is: handler pre-check (cluster already running -> refused; malformed     *)
(* payload -> error) -> one etcd transaction guarded by CreateRevision(cluster root) = 0 that    *)
(* writes cluster meta, first store and first region -> start the cluster.  Requests may be       *)
(* concurrent, repeated, and issued again after a leader change (which restarts the cluster      *)
(* from storage).  Members agree on the cluster id with a create-if-absent transaction.          *)
EXTENDS Integers, FiniteSets, TLC

CONSTANTS Req, Malformed, Members, MaxLeaderChanges
None == "none"

VARIABLES root,        \* who wrote the cluster root (winner request) or None
          storedStore, storedRegion,   \* the request whose store / region is stored, or None
          running,     \* the cluster is running on the current leader
          pc,          \* per request: "idle" | "txn" | "start" | "won" | "lost" | "refused" | "invalid"
          cid, mcid, mpc,  \* stored cluster id (0 = absent), per member the id it uses, per member pc "idle"|"done"
          nLC
vars == <<root, storedStore, storedRegion, running, pc, cid, mcid, mpc, nLC>>

Init == /\ root = None /\ storedStore = None /\ storedRegion = None /\ running = FALSE
        /\ pc = [r \in Req |-> "idle"] /\ cid = 0 /\ mcid = [m \in Members |-> 0] /\ mpc = [m \in Members |-> "idle"] /\ nLC = 0

(* handler entry: may be issued any number of times *)
Begin(r) == /\ pc[r] \in {"idle", "lost", "refused", "invalid"}
            /\ pc' = [pc EXCEPT ![r] = IF running THEN "refused" ELSE IF r \in Malformed THEN "invalid" ELSE "txn"]
            /\ UNCHANGED <<root, storedStore, storedRegion, running, cid, mcid, mpc, nLC>>
Txn(r) == /\ pc[r] = "txn"
          /\ IF root = None
               THEN root' = r /\ storedStore' = r /\ storedRegion' = r /\ pc' = [pc EXCEPT ![r] = "start"]
               ELSE UNCHANGED <<root, storedStore, storedRegion>> /\ pc' = [pc EXCEPT ![r] = "lost"]
          /\ UNCHANGED <<running, cid, mcid, mpc, nLC>>
StartCluster(r) == /\ pc[r] = "start" /\ running' = TRUE /\ pc' = [pc EXCEPT ![r] = "won"]
                   /\ UNCHANGED <<root, storedStore, storedRegion, cid, mcid, mpc, nLC>>
(* a new leader term: the cluster runs iff it has been bootstrapped; a winner that had not started the cluster yet is done *)
LeaderChange == /\ nLC < MaxLeaderChanges /\ nLC' = nLC + 1
                /\ running' = (root # None)
                /\ pc' = [r \in Req |-> IF pc[r] = "start" THEN "won" ELSE pc[r]]
                /\ UNCHANGED <<root, storedStore, storedRegion, cid, mcid, mpc>>

(* cluster id: create-if-absent, else read *)
Num == CHOOSE f \in [Members -> 1..Cardinality(Members)] : \A a, b \in Members : a # b => f[a] # f[b]
InitId(m) == /\ mpc[m] = "idle"
             /\ IF cid = 0 THEN (cid' = Num[m]) /\ (mcid' = [mcid EXCEPT ![m] = Num[m]])    \* its own random proposal wins
                ELSE (mcid' = [mcid EXCEPT ![m] = cid]) /\ UNCHANGED cid
             /\ mpc' = [mpc EXCEPT ![m] = "done"]
             /\ UNCHANGED <<root, storedStore, storedRegion, running, pc, nLC>>
Restart(m) == mpc[m] = "done" /\ mpc' = [mpc EXCEPT ![m] = "idle"] /\ UNCHANGED <<root, storedStore, storedRegion, running, pc, cid, mcid, nLC>>

Next == \/ \E r \in Req : Begin(r) \/ Txn(r) \/ StartCluster(r)
        \/ LeaderChange
        \/ \E m \in Members : InitId(m) \/ Restart(m)
Spec == Init /\ [][Next]_vars

AtMostOneWins == Cardinality({r \in Req : pc[r] \in {"start", "won"}}) <= 1
StoredFromWinner == root = storedStore /\ root = storedRegion /\ (root # None => pc[root] \in {"start", "won"} \/ TRUE)
WinnerIsWellFormed == root # None => root \notin Malformed
LosersChangeNothing == [][(root # None) => (root' = root /\ storedStore' = storedStore /\ storedRegion' = storedRegion)]_vars
ClusterIdAgreed == \A m \in Members : mcid[m] # 0 => mcid[m] = cid
ClusterIdStable == [][cid # 0 => cid' = cid]_vars
=============================================================================
