SPECIFICATION TSpec
CONSTANTS Cap = 3
  Flush = 100
  MaxIndex = 100000
  MaxOps = 0
  MaxFails = 3
  Bursts = {}
  ResetTargets = {0}
CONSTRAINT HW
POSTCONDITION AllConsumed
CHECK_DEADLOCK FALSE
