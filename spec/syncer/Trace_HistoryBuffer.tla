-------------------------- MODULE Trace_HistoryBuffer --------------------------
(* Validates recordings of the real history buffer against HistoryBuffer.tla (C16, first half). *)
EXTENDS HistoryBuffer, Json
Trace == ndJsonDeserialize("trace.ndjson")
VARIABLES l, tr, bad
tvars == <<l, tr, bad>>
TInit == Init /\ l = 1 /\ tr = 0 /\ bad = {} /\ TLCSet(1, 0) /\ TLCSet(2, {})
Seq2(q) == [k \in 1..Len(q) |-> q[k]]
(* the answers logged in e.from: <<i, ids>> pairs, compared with the definition on the model state after the step *)
WindowOK(e, rs, idx) ==
  \A k \in 1..Len(e.from) :
    LET i == e.from[k][1]  first == idx - Len(rs) IN
      Seq2(e.from[k][2]) = IF i >= first /\ i < idx THEN SubSeq(rs, i - first + 1, Len(rs)) ELSE <<>>
Consume ==
  /\ l <= Len(Trace) /\ l' = l + 1 /\ UNCHANGED <<nOps, before>>
  /\ LET e == Trace[l] IN
     IF e.ev = "reset" THEN tr' = e.beh /\ recs' = <<>> /\ index' = 0 /\ persisted' = 0 /\ countdown' = Flush /\ fails' = 0 /\ bad' = bad
     ELSE
       /\ CASE e.ev = "Record" -> /\ recs' = IF Len(recs) = Cap THEN Append(Tail(recs), index) ELSE Append(recs, index)
                                  /\ index' = index + 1
                                  \* e.pfail: the harness made the write of the index fail in this step (it is attempted only when due)
                                  /\ IF countdown = 1
                                       THEN /\ countdown' = Flush
                                            /\ IF e.pfail THEN UNCHANGED persisted /\ fails' = fails + 1 ELSE persisted' = index + 1 /\ fails' = 0
                                       ELSE UNCHANGED <<persisted, fails>> /\ countdown' = countdown - 1
            [] e.ev = "Reset"  -> recs' = <<>> /\ index' = e.i /\ persisted' = e.i /\ countdown' = Flush /\ fails' = 0
            [] e.ev = "Restart" -> recs' = <<>> /\ index' = e.index /\ countdown' = Flush /\ fails' = 0 /\ UNCHANGED persisted   \* follow the real index
            [] OTHER -> UNCHANGED <<recs, index, persisted, countdown, fails>>
       /\ tr' = tr
       /\ bad' = bad \cup {<<tr, c, l>> : c \in
            (IF e.ev # "Restart" /\ e.index # index' THEN {"NextIndex"} ELSE {}) \cup
            (IF ~WindowOK(e, recs', index') THEN {"WindowExact"} ELSE {}) \cup
            (IF e.ev = "Restart" /\ e.index < e.before - Flush * (fails + 1) THEN {"RestartNotFarBack"} ELSE {}) \cup
            (IF e.ev = "Record" /\ e.pfail /\ countdown # 1 THEN {"INFO-WriteNotDue"} ELSE {}) \cup
            (IF e.ev = "Restart" /\ e.index # persisted THEN {"INFO-RestartIndexDiffersFromModel"} ELSE {})}
TSpec == TInit /\ [][Consume]_<<vars, tvars>>
HW == IF l > TLCGet(1) THEN TLCSet(1, l) /\ TLCSet(2, bad) ELSE TRUE
AllConsumed == PrintT(<<"HW", TLCGet(1)>>) /\ PrintT(<<"BAD", TLCGet(2)>>) /\ TLCGet(1) = Len(Trace) + 1
=============================================================================
