SPECIFICATION Spec
CONSTANTS Cap = 3
  Flush = 100
  MaxIndex = 2000
  MaxOps = 400
  MaxFails = 3
  Bursts = {60, 99, 100}
  ResetTargets = {0, 7, 150, 1000}
CHECK_DEADLOCK FALSE
