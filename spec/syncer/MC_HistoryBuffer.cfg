SPECIFICATION Spec
CONSTANTS Cap = 3
  Flush = 2
  MaxIndex = 9
  MaxOps = 9
  MaxFails = 2
  Bursts = {2}
  ResetTargets = {0, 1, 4, 7}
INVARIANTS WindowExact
PROPERTIES RestartBound RestartBoundNoFailure
CHECK_DEADLOCK FALSE
