SPECIFICATION Spec
CONSTANTS Cap = 3
  Flush = 2
  MaxIndex = 9
  MaxOps = 9
  ResetTargets = {0, 1, 4, 7}
INVARIANTS WindowExact
PROPERTIES RestartBound
CHECK_DEADLOCK FALSE
