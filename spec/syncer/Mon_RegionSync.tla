------------------------------ MODULE Mon_RegionSync ------------------------------
(* C16, second half: after a full or an incremental synchronisation every region the leader   *)
(* holds is held by the follower with the same range, peers, leader and flow statistics.       *)
(* A region is <<id, start, end, #peers, leader peer id, written bytes, written keys, read bytes, read keys>>. *)
EXTENDS Integers, Sequences, FiniteSets, TLC, Json
Trace == ndJsonDeserialize("trace.ndjson")
VARIABLES l, tr, bad
vars == <<l, tr, bad>>
Init == l = 1 /\ tr = 0 /\ bad = {} /\ TLCSet(1, 0) /\ TLCSet(2, {})
ToSet(q) == {q[i] : i \in 1..Len(q)}
Consume ==
  /\ l <= Len(Trace) /\ l' = l + 1
  /\ LET e == Trace[l] IN
     IF e.ev = "reset" THEN tr' = e.beh /\ bad' = bad
     ELSE LET L == ToSet(e.leader)  F == ToSet(e.follower)
              missing == {x \in L : ~\E y \in F : y[1] = x[1]}
              differ  == {x \in L : \E y \in F : y[1] = x[1] /\ y # x} IN
          tr' = tr /\ bad' = bad \cup (IF missing # {} THEN {<<tr, "FollowerHasEveryRegion", l>>} ELSE {})
                                 \cup (IF differ # {} THEN {<<tr, "FollowerEqualsLeader", l>>} ELSE {})
Spec == Init /\ [][Consume]_vars
HW == IF l > TLCGet(1) THEN TLCSet(1, l) /\ TLCSet(2, bad) ELSE TRUE
AllConsumed == PrintT(<<"HW", TLCGet(1)>>) /\ PrintT(<<"BAD", TLCGet(2)>>) /\ TLCGet(1) = Len(Trace) + 1
=============================================================================
