------------------------------- MODULE RegionSync -------------------------------
(* server/region_syncer/server.go (syncHistoryRegion, RunServer) + client.go: a follower obtains *)
(* the leader's regions by a full synchronisation (the leader's whole region set in batches of   *)
(* B regions; the three arrays regions / stats / leaders of a message are consumed POSITIONALLY   *)
(* by the follower) or by an incremental one (the records of the change log from its index).      *)
EXTENDS Integers, Sequences, FiniteSets, TLC
CONSTANTS B, MaxN
VARIABLES leaderRegs,   \* sequence of [id, leader, stat]
          msgs,         \* messages in flight: [regions, stats, leaders] (sequences)
          follower,     \* id -> [leader, stat]
          phase
vars == <<leaderRegs, msgs, follower, phase>>
Regs(n) == [i \in 1..n |-> [id |-> i, leader |-> 100 + i, stat |-> 200 + i]]
Init == \E n \in 0..MaxN : leaderRegs = Regs(n) /\ msgs = <<>> /\ follower = <<>> /\ phase = "send"
RECURSIVE Batches(_, _)
Batches(s, from) == IF from > Len(s) THEN <<>>
                    ELSE LET to == IF from + B - 1 < Len(s) THEN from + B - 1 ELSE Len(s)
                             part == SubSeq(s, from, to) IN
                         <<[regions |-> [i \in 1..Len(part) |-> part[i].id], stats |-> [i \in 1..Len(part) |-> part[i].stat],
                            leaders |-> [i \in 1..Len(part) |-> part[i].leader]]>> \o Batches(s, to + 1)
FullSync == phase = "send" /\ msgs' = Batches(leaderRegs, 1) /\ phase' = "recv" /\ UNCHANGED <<leaderRegs, follower>>
Put(f, k, v) == [x \in DOMAIN f \cup {k} |-> IF x = k THEN v ELSE f[x]]
RECURSIVE Apply(_, _, _)
Apply(f, m, i) == IF i > Len(m.regions) THEN f
                  ELSE Apply(Put(f, m.regions[i], [leader |-> IF Len(m.leaders) >= i THEN m.leaders[i] ELSE 0,
                                                   stat |-> IF Len(m.stats) = Len(m.regions) THEN m.stats[i] ELSE 0]), m, i + 1)
Receive == phase = "recv" /\ msgs # <<>> /\ follower' = Apply(follower, Head(msgs), 1) /\ msgs' = Tail(msgs) /\ UNCHANGED <<leaderRegs, phase>>
Next == FullSync \/ Receive
Spec == Init /\ [][Next]_vars
FollowerEqualsLeader == (phase = "recv" /\ msgs = <<>>) =>
    \A i \in 1..Len(leaderRegs) : leaderRegs[i].id \in DOMAIN follower
        /\ follower[leaderRegs[i].id] = [leader |-> leaderRegs[i].leader, stat |-> leaderRegs[i].stat]
=============================================================================
