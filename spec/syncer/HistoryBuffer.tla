----------------------------- MODULE HistoryBuffer -----------------------------
(* server/region_syncer/history_buffer.go: the change log kept for region synchronisation.     *)
(* A window of at most Cap records ending at `index` (the next index); the next index is        *)
(* persisted every Flush records and when the buffer is reset; Restart creates a new buffer      *)
(* that reloads the persisted index (the records themselves are volatile).                      *)
EXTENDS Integers, Sequences, TLC
CONSTANTS Cap, Flush, MaxIndex, MaxOps, ResetTargets
VARIABLES recs,       \* the records in the window, oldest first (a record is identified by the index it was given)
          index,      \* next index
          persisted,  \* persisted next index
          countdown, nOps,
          before      \* ghost: next index just before the last Restart (-1 = no restart yet)
vars == <<recs, index, persisted, countdown, nOps, before>>
Init == recs = <<>> /\ index = 0 /\ persisted = 0 /\ countdown = Flush /\ nOps = 0 /\ before = -1
First == index - Len(recs)
Step == nOps < MaxOps /\ nOps' = nOps + 1
Record ==
  /\ Step /\ index < MaxIndex
  /\ recs' = IF Len(recs) = Cap THEN Append(Tail(recs), index) ELSE Append(recs, index)
  /\ index' = index + 1
  /\ IF countdown = 1 THEN persisted' = index + 1 /\ countdown' = Flush ELSE UNCHANGED persisted /\ countdown' = countdown - 1
  /\ UNCHANGED before
Reset(i) ==
  /\ Step /\ recs' = <<>> /\ index' = i /\ persisted' = i /\ countdown' = Flush /\ UNCHANGED before
Restart ==
  /\ Step /\ before' = index /\ recs' = <<>> /\ index' = persisted /\ countdown' = Flush /\ UNCHANGED persisted
(* the query, as a definition: exactly the records from i to the newest, or nothing outside the window *)
RecordsFrom(i) == IF i >= First /\ i < index THEN SubSeq(recs, i - First + 1, Len(recs)) ELSE <<>>
Next == Record \/ (\E i \in ResetTargets : Reset(i)) \/ Restart
Spec == Init /\ [][Next]_vars
WindowExact == /\ Len(recs) <= Cap
               /\ \A k \in 1..Len(recs) : recs[k] = First + k - 1
               /\ \A i \in 0..MaxIndex : RecordsFrom(i) = IF i >= First /\ i < index THEN [k \in 1..(index - i) |-> i + k - 1] ELSE <<>>
RestartNotFarBack == before # -1 => (nOps > 0 => TRUE)
RestartBound == [][(before' # before) => index' >= index - Flush]_vars
=============================================================================
