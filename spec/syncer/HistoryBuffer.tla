----------------------------- MODULE HistoryBuffer -----------------------------
(* server/region_syncer/history_buffer.go: the change log kept for region synchronisation.     *)
(* A window of at most Cap records ending at `index` (the next index); the next index is        *)
(* persisted every Flush records and when the buffer is reset; Restart creates a new buffer      *)
(* that reloads the persisted index (the records themselves are volatile).  The write of the     *)
(* index may fail (Record(TRUE)): the failure is only logged and the next attempt comes Flush      *)
(* records later, so a restart may go back by Flush records per failed attempt in a row, plus one. *)
EXTENDS Integers, Sequences, TLC
CONSTANTS Cap, Flush, MaxIndex, MaxOps, ResetTargets, MaxFails, Bursts
VARIABLES recs,       \* the records in the window, oldest first (a record is identified by the index it was given)
          index,      \* next index
          persisted,  \* persisted next index
          countdown, nOps,
          fails,      \* failed writes of the index in a row
          before      \* ghost: next index just before the last Restart (-1 = no restart yet)
vars == <<recs, index, persisted, countdown, nOps, fails, before>>
Init == recs = <<>> /\ index = 0 /\ persisted = 0 /\ countdown = Flush /\ nOps = 0 /\ fails = 0 /\ before = -1
First == index - Len(recs)
Step == nOps < MaxOps /\ nOps' = nOps + 1
Record(f) ==
  /\ Step /\ index < MaxIndex
  /\ f => (countdown = 1 /\ fails < MaxFails)
  /\ recs' = IF Len(recs) = Cap THEN Append(Tail(recs), index) ELSE Append(recs, index)
  /\ index' = index + 1
  /\ IF countdown = 1
       THEN /\ countdown' = Flush                                       \* the countdown restarts whether or not the write succeeded
            /\ IF f THEN UNCHANGED persisted /\ fails' = fails + 1 ELSE persisted' = index + 1 /\ fails' = 0
       ELSE UNCHANGED <<persisted, fails>> /\ countdown' = countdown - 1
  /\ UNCHANGED before
(* n records in a row (n <= Flush, so at most one write of the index falls due inside the burst; f: it fails).  The same *)
(* as n Record steps; it exists so that simulation reaches the flush points of a countdown of 100.                  *)
Records(n, f) ==
  /\ Step /\ index + n <= MaxIndex /\ n <= Flush
  /\ f => (n >= countdown /\ fails < MaxFails)
  /\ LET all == recs \o [k \in 1..n |-> index + k - 1] IN
       recs' = IF Len(all) > Cap THEN SubSeq(all, Len(all) - Cap + 1, Len(all)) ELSE all
  /\ index' = index + n
  /\ IF n >= countdown
       THEN /\ countdown' = Flush - (n - countdown)
            /\ IF f THEN UNCHANGED persisted /\ fails' = fails + 1 ELSE persisted' = index + countdown /\ fails' = 0
       ELSE UNCHANGED <<persisted, fails>> /\ countdown' = countdown - n
  /\ UNCHANGED before
Reset(i) ==
  /\ Step /\ recs' = <<>> /\ index' = i /\ persisted' = i /\ countdown' = Flush /\ fails' = 0 /\ UNCHANGED before
Restart ==
  /\ Step /\ before' = index /\ recs' = <<>> /\ index' = persisted /\ countdown' = Flush /\ fails' = 0 /\ UNCHANGED persisted
(* the query, as a definition: exactly the records from i to the newest, or nothing outside the window *)
RecordsFrom(i) == IF i >= First /\ i < index THEN SubSeq(recs, i - First + 1, Len(recs)) ELSE <<>>
Next == (\E f \in BOOLEAN : Record(f)) \/ (\E n \in Bursts, f \in BOOLEAN : Records(n, f)) \/ (\E i \in ResetTargets : Reset(i)) \/ Restart
Spec == Init /\ [][Next]_vars
WindowExact == /\ Len(recs) <= Cap
               /\ \A k \in 1..Len(recs) : recs[k] = First + k - 1
               /\ \A i \in 0..MaxIndex : RecordsFrom(i) = IF i >= First /\ i < index THEN [k \in 1..(index - i) |-> i + k - 1] ELSE <<>>
RestartNotFarBack == before # -1 => (nOps > 0 => TRUE)
RestartBound == [][(before' # before) => index' >= index - Flush * (fails + 1)]_vars
\* the clause as listed (no failed write since the last successful one): at most Flush records back
RestartBoundNoFailure == [][(before' # before /\ fails = 0) => index' >= index - Flush]_vars
=============================================================================
