SPECIFICATION Spec
CONSTANTS B = 2
  MaxN = 5
INVARIANTS FollowerEqualsLeader
CHECK_DEADLOCK FALSE
