SPECIFICATION MSpec
CONSTRAINT MHW
POSTCONDITION AllConsumed
CHECK_DEADLOCK FALSE
