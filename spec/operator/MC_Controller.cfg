SPECIFICATION Spec
CONSTANTS
  Regions = {r1}
  Ops = {o1}
  Shapes <- ShapesSmall
  MaxConf = 5
  MaxVer = 2
  Prios = {1}
  Stores = {s1, s2}
  NoOp = NoOp
  RecheckOnPromote = TRUE
INVARIANTS TypeOK OnePerRegion NotStaleUnderOwnSteps
PROPERTIES StatusMoves LeavesEndedAndRemembered StaleCancelledAtNextHeartbeat AdmittedOnlyAtEqualEpoch CommandToLeaderWithEpoch
CHECK_DEADLOCK FALSE
