SPECIFICATION Spec
CONSTANTS
  Regions = {r1}
  Ops = {o1}
  Shapes <- ShapesSmall
  MaxConf = 5
  MaxVer = 2
  Prios = {1}
  Stores = {s1, s2}
  NoOp = NoOp
  RecheckOnPromote = FALSE
PROPERTIES AdmittedOnlyAtEqualEpoch
CHECK_DEADLOCK FALSE
