------------------------------- MODULE Controller -------------------------------
(* Design model of the operator controller (server/schedule/operator_controller.go):           *)
(* a store-side truth per region (conf version, version, leader), PD's view of it (refreshed   *)
(* only by heartbeats), operators with a recorded epoch, a priority and a list of steps (each  *)
(* abstracted to the number of conf versions it consumes), the running set, the waiting queue, *)
(* the record of buried operators and the command in flight per region.                        *)
(* One action per critical section of the code:                                                *)
(*   Create            operator.NewOperator / Builder.Build  (records the VIEW's epoch)        *)
(*   Add               AddOperator  = checkAddOperator + addOperatorLocked (+ command)         *)
(*   AddWaiting        AddWaitingOperator (check, queue)            - then Promote             *)
(*   Promote           PromoteWaitingOperator (check AGAIN, start)                             *)
(*   Heartbeat         region heartbeat: view := truth; Dispatch(check, stale?, command)       *)
(*   Execute           the store applies the command in flight (only at the matching epoch)    *)
(*   Foreign/Split/LeaderMove  changes not made by the running operator                        *)
(*   Remove, Timeout, Expire                                                                    *)
EXTENDS ControllerDefs, TLC
CONSTANTS Regions, Ops, Shapes, MaxConf, MaxVer, Prios, Stores, NoOp,
          RecheckOnPromote     \* FALSE = design variant without the second admission check
VARIABLES conf, ver, leader, vconf, vver, vleader, op, running, waiting, record, cmd, foreign, broken, judged
vars == <<conf, ver, leader, vconf, vver, vleader, op, running, waiting, record, cmd, foreign, broken, judged>>

NoCmd == [op |-> NoOp]
None == [st |-> "None"]
Init == /\ conf = [r \in Regions |-> 1] /\ ver = [r \in Regions |-> 1] /\ leader = [r \in Regions |-> CHOOSE s \in Stores : TRUE]
        /\ vconf = conf /\ vver = ver /\ vleader = leader
        /\ op = [o \in Ops |-> None]
        /\ running = [r \in Regions |-> NoOp] /\ waiting = {} /\ record = [r \in Regions |-> NoOp]
        /\ cmd = [r \in Regions |-> NoCmd] /\ foreign = [r \in Regions |-> 0] /\ broken = [r \in Regions |-> FALSE]
        /\ judged = {}

St(o) == op[o].st
Bury(rec, o) == [rec EXCEPT ![op[o].region] = o]
(* the command for the running operator's current step, stamped by hbstream.SendMsg with the view *)
Command(r, o, k) == [op |-> o, step |-> k, conf |-> vconf[r], ver |-> vver[r], to |-> vleader[r]]

Create(o, r, p, sh) ==
  /\ St(o) = "None"
  /\ op' = [op EXCEPT ![o] = [st |-> "Created", region |-> r, ec |-> vconf[r], ev |-> vver[r], prio |-> p, steps |-> sh, applied |-> 0, cur |-> 0, late |-> FALSE]]
  /\ UNCHANGED <<conf, ver, leader, vconf, vver, vleader, running, waiting, record, cmd, foreign, broken, judged>>

CanAdd(o) == LET r == op[o].region IN
  /\ op[o].ec = vconf[r] /\ op[o].ev = vver[r]
  /\ (running[r] = NoOp \/ op[o].prio > op[running[r]].prio)
  /\ St(o) = "Created" /\ ~op[o].late

(* addOperatorLocked *)
StartOp(o, ops0, rec0) ==
  LET r == op[o].region
      old == running[r]
      ops1 == IF old = NoOp THEN ops0 ELSE [ops0 EXCEPT ![old].st = "Replaced"]
  IN /\ op' = [ops1 EXCEPT ![o].st = "Started"]
     /\ record' = IF old = NoOp THEN rec0 ELSE [rec0 EXCEPT ![r] = old]
     /\ running' = [running EXCEPT ![r] = o]
     /\ cmd' = [cmd EXCEPT ![r] = Command(r, o, 1)]
     /\ foreign' = [foreign EXCEPT ![r] = IF conf[r] = vconf[r] /\ ver[r] = vver[r] /\ leader[r] = vleader[r] THEN 0 ELSE 1]   \* the view may already be behind the store
     /\ broken' = [broken EXCEPT ![r] = FALSE]

Reject(o) ==   \* Cancel + bury (an expired operator goes created->expired)
  /\ op' = [op EXCEPT ![o].st = IF St(o) = "Created" THEN (IF op[o].late THEN "Expired" ELSE "Canceled") ELSE @]
  /\ record' = Bury(record, o)
  /\ UNCHANGED <<running, cmd, foreign, broken>>

Add(o) ==
  /\ St(o) # "None" /\ o \notin waiting
  /\ IF CanAdd(o) THEN StartOp(o, op, record) ELSE Reject(o)
  /\ UNCHANGED <<conf, ver, leader, vconf, vver, vleader, waiting, judged>>

AddWaiting(o) ==
  /\ St(o) = "Created" /\ o \notin waiting
  /\ IF CanAdd(o) THEN /\ waiting' = waiting \cup {o}
                       /\ UNCHANGED <<op, record, running, cmd, foreign, broken>>
                  ELSE Reject(o) /\ UNCHANGED waiting
  /\ UNCHANGED <<conf, ver, leader, vconf, vver, vleader, judged>>

Promote(o) ==
  /\ o \in waiting /\ waiting' = waiting \ {o}
  /\ IF ~RecheckOnPromote \/ CanAdd(o) THEN StartOp(o, op, record) ELSE Reject(o)
  /\ UNCHANGED <<conf, ver, leader, vconf, vver, vleader, judged>>

Nominal(o, k) == SumTo(op[o].steps, MinN(k, Len(op[o].steps)))
(* region heartbeat: processRegionHeartbeat puts the region, then Dispatch *)
Heartbeat(r) ==
  /\ vconf' = [vconf EXCEPT ![r] = conf[r]] /\ vver' = [vver EXCEPT ![r] = ver[r]] /\ vleader' = [vleader EXCEPT ![r] = leader[r]]
  /\ IF running[r] = NoOp THEN UNCHANGED <<op, running, record, cmd, foreign, broken, judged>>
     ELSE LET o == running[r]
              cur == op[o].applied                     \* Check: steps whose effect is visible are finished
              n == Len(op[o].steps)
          IN IF op[o].late THEN                        \* CheckTimeout
                  /\ op' = [op EXCEPT ![o].st = "Timeout", ![o].cur = cur] /\ running' = [running EXCEPT ![r] = NoOp]
                  /\ record' = [record EXCEPT ![r] = o] /\ UNCHANGED <<cmd, foreign, broken, judged>>
             ELSE IF cur = n THEN
                  /\ op' = [op EXCEPT ![o].st = "Success", ![o].cur = cur] /\ running' = [running EXCEPT ![r] = NoOp]
                  /\ record' = [record EXCEPT ![r] = o] /\ UNCHANGED <<cmd, foreign, broken, judged>>
             ELSE IF broken[r] \/ conf[r] - op[o].ec > SumTo(op[o].steps, cur) THEN   \* checkStaleOperator
                  /\ op' = [op EXCEPT ![o].st = "Canceled", ![o].cur = cur] /\ running' = [running EXCEPT ![r] = NoOp]
                  /\ record' = [record EXCEPT ![r] = o] /\ judged' = judged \cup {foreign[r]}
                  /\ UNCHANGED <<cmd, foreign, broken>>
             ELSE /\ op' = [op EXCEPT ![o].cur = cur]
                  /\ cmd' = [cmd EXCEPT ![r] = [op |-> o, step |-> cur + 1, conf |-> conf[r], ver |-> ver[r], to |-> leader[r]]]
                  /\ UNCHANGED <<running, record, foreign, broken, judged>>
  /\ UNCHANGED <<conf, ver, leader, waiting>>

(* the store (a faithful TiKV) applies a command only at the epoch it was issued for and only on the leader *)
Execute(r) ==
  /\ cmd[r] # NoCmd
  /\ LET c == cmd[r] o == c.op IN
       /\ cmd' = [cmd EXCEPT ![r] = NoCmd]
       /\ IF c.conf = conf[r] /\ c.ver = ver[r] /\ c.to = leader[r] /\ op[o].applied = c.step - 1 /\ conf[r] + op[o].steps[c.step] <= MaxConf
          THEN /\ conf' = [conf EXCEPT ![r] = @ + op[o].steps[c.step]]
               /\ op' = [op EXCEPT ![o].applied = c.step]
               /\ foreign' = IF running[r] = o THEN foreign ELSE [foreign EXCEPT ![r] = 1]
          ELSE UNCHANGED <<conf, op, foreign>>
  /\ UNCHANGED <<ver, leader, vconf, vver, vleader, running, waiting, record, broken, judged>>

Foreign(r, brk) ==
  /\ conf[r] < MaxConf /\ conf' = [conf EXCEPT ![r] = @ + 1]
  /\ foreign' = [foreign EXCEPT ![r] = 1] /\ broken' = [broken EXCEPT ![r] = @ \/ brk]
  /\ UNCHANGED <<ver, leader, vconf, vver, vleader, op, running, waiting, record, cmd, judged>>
Split(r) ==
  /\ ver[r] < MaxVer /\ ver' = [ver EXCEPT ![r] = @ + 1] /\ foreign' = [foreign EXCEPT ![r] = 1]
  /\ UNCHANGED <<conf, leader, vconf, vver, vleader, op, running, waiting, record, cmd, broken, judged>>
LeaderMove(r, s, brk) ==
  /\ s # leader[r] /\ leader' = [leader EXCEPT ![r] = s]
  /\ foreign' = [foreign EXCEPT ![r] = 1] /\ broken' = [broken EXCEPT ![r] = @ \/ brk]
  /\ UNCHANGED <<conf, ver, vconf, vver, vleader, op, running, waiting, record, cmd, judged>>

Remove(o) ==
  /\ St(o) = "Started" /\ running[op[o].region] = o
  /\ op' = [op EXCEPT ![o].st = "Canceled"] /\ running' = [running EXCEPT ![op[o].region] = NoOp]
  /\ record' = Bury(record, o)
  /\ UNCHANGED <<conf, ver, leader, vconf, vver, vleader, waiting, cmd, foreign, broken, judged>>
TimePasses(o) ==
  /\ St(o) \in {"Created", "Started"} /\ ~op[o].late /\ op' = [op EXCEPT ![o].late = TRUE]
  /\ UNCHANGED <<conf, ver, leader, vconf, vver, vleader, running, waiting, record, cmd, foreign, broken, judged>>

Next == \/ \E o \in Ops, r \in Regions, p \in Prios, sh \in Shapes : Create(o, r, p, sh)
        \/ \E o \in Ops : Add(o) \/ AddWaiting(o) \/ Promote(o) \/ Remove(o) \/ TimePasses(o)
        \/ \E r \in Regions : Heartbeat(r) \/ Execute(r) \/ Split(r)
        \/ \E r \in Regions, b \in BOOLEAN : Foreign(r, b)
        \/ \E r \in Regions, s \in Stores, b \in BOOLEAN : LeaderMove(r, s, b)
ShapesSmall == {<<1>>, <<0, 1>>, <<1, 2>>}
ShapesOne == {<<1>>}
Spec == Init /\ [][Next]_vars

(* ---------------- C09 ---------------- *)
TypeOK == \A r \in Regions : running[r] # NoOp => St(running[r]) = "Started" /\ op[running[r]].region = r
OnePerRegion == \A o1, o2 \in Ops : (St(o1) = "Started" /\ St(o2) = "Started" /\ op[o1].region = op[o2].region) => o1 = o2
AdmittedOnlyAtEqualEpoch == [][\A o \in Ops : St(o) = "Created" /\ op'[o].st = "Started" => op[o].ec = vconf'[op[o].region] /\ op[o].ev = vver'[op[o].region]]_vars
StatusMoves == [][\A o \in Ops : St(o) # "None" /\ op'[o].st # St(o) => <<St(o), op'[o].st>> \in ValidTrans]_vars
LeavesEndedAndRemembered ==
  [][\A r \in Regions : running[r] # NoOp /\ running'[r] # running[r] =>
        /\ op'[running[r]].st \in EndStatus
        /\ (running'[r] = NoOp => record'[r] = running[r])]_vars
NotStaleUnderOwnSteps == \A j \in judged : j > 0
CommandToLeaderWithEpoch == [][\A r \in Regions : cmd'[r] # cmd[r] /\ cmd'[r] # NoCmd => LET c == cmd'[r] IN c.to = vleader'[r] /\ c.conf = vconf'[r] /\ c.ver = vver'[r] /\ running'[r] = c.op]_vars
StaleCancelledAtNextHeartbeat ==
  \* whenever a command goes out for a running operator, the view's conf version is within what its steps account for
  [][\A r \in Regions : cmd'[r] # cmd[r] /\ cmd'[r] # NoCmd =>
        LET o == cmd'[r].op IN vconf'[r] - op[o].ec <= Nominal(o, op'[o].cur + 1) /\ ~broken'[r]]_vars
Bound == \A r \in Regions : conf[r] <= MaxConf
=============================================================================
