---------------------------- MODULE Mon_Controller ----------------------------
(* Trace monitor for C09: histories of the real schedule.OperatorController (mock cluster, real *)
(* heartbeat streams, a store simulator that executes the commands actually delivered) are      *)
(* checked against the lifecycle rules of Controller.tla, with the step semantics (finished,    *)
(* safe, conf versions consumed, command to send) written out per step kind.                    *)
EXTENDS Steps, ControllerDefs

Voterish(r, s) == s \in DOMAIN r.peers /\ r.peers[s].role # "Learner"
IdAt(r, s) == IF s \in DOMAIN r.peers THEN r.peers[s].id ELSE 0
RoleAt(r, s) == IF s \in DOMAIN r.peers THEN r.peers[s].role ELSE "None"
JointCount(r) == Cardinality({s \in DOMAIN r.peers : r.peers[s].role \in {"IncomingVoter", "DemotingVoter"}})
Pairs(q) == {<<q[i][1], q[i][2]>> : i \in 1..Len(q)}

(* OpStep.IsFinish *)
Fin(r, st) ==
  CASE st.k = "TransferLeader" -> r.leader = st.to
    [] st.k \in {"AddPeer", "AddLightPeer", "PromoteLearner"} -> Voterish(r, st.store) /\ IdAt(r, st.store) = st.peer
    [] st.k \in {"AddLearner", "AddLightLearner", "DemoteFollower"} -> RoleAt(r, st.store) = "Learner" /\ IdAt(r, st.store) = st.peer
    [] st.k = "RemovePeer" -> st.store \notin DOMAIN r.peers
    [] st.k = "Split" -> r.keys # st.keys                 \* finished once the region's range changed
    [] st.k = "Merge" -> FALSE                            \* the source disappears / the target's range grows: never inside these histories
    [] st.k = "Enter" -> /\ \A p \in Pairs(st.promotes) : IdAt(r, p[1]) = p[2] /\ RoleAt(r, p[1]) = "IncomingVoter"
                         /\ \A p \in Pairs(st.demotes) : IdAt(r, p[1]) = p[2] /\ RoleAt(r, p[1]) = "DemotingVoter"
    [] st.k = "Leave" -> /\ \A p \in Pairs(st.promotes) : IdAt(r, p[1]) = p[2] /\ RoleAt(r, p[1]) = "Voter"
                         /\ \A p \in Pairs(st.demotes) : IdAt(r, p[1]) = p[2] /\ RoleAt(r, p[1]) = "Learner"
                         /\ ~InJoint(r)
    [] OTHER -> FALSE

JointOK(r, st, outRoleP, inRoleP, outRoleD, inRoleD) ==
  LET P == Pairs(st.promotes) D == Pairs(st.demotes)
      okP == \A p \in P : IdAt(r, p[1]) = p[2] /\ RoleAt(r, p[1]) \in {outRoleP, inRoleP}
      okD == \A p \in D : IdAt(r, p[1]) = p[2] /\ RoleAt(r, p[1]) \in {outRoleD, inRoleD}
      notIn == (\E p \in P : RoleAt(r, p[1]) = outRoleP) \/ (\E p \in D : RoleAt(r, p[1]) = outRoleD)
      in == (\E p \in P : RoleAt(r, p[1]) = inRoleP) \/ (\E p \in D : RoleAt(r, p[1]) = inRoleD)
      count == JointCount(r)
  IN okP /\ okD /\ ~(notIn /\ in) /\ ~(notIn /\ count # 0) /\ ~(in /\ count # Cardinality(P) + Cardinality(D))
(* OpStep.CheckSafety: the precondition of the current step *)
Safe(r, st) ==
  CASE st.k = "TransferLeader" -> Voterish(r, st.to)
    [] st.k \in {"AddPeer", "AddLightPeer"} -> st.store \notin DOMAIN r.peers \/ IdAt(r, st.store) = st.peer
    [] st.k \in {"AddLearner", "AddLightLearner"} -> st.store \notin DOMAIN r.peers \/ (IdAt(r, st.store) = st.peer /\ RoleAt(r, st.store) = "Learner")
    [] st.k = "PromoteLearner" -> st.store \in DOMAIN r.peers /\ IdAt(r, st.store) = st.peer
    [] st.k = "RemovePeer" -> r.leader # st.store
    [] st.k = "DemoteFollower" -> st.store \in DOMAIN r.peers /\ IdAt(r, st.store) = st.peer /\ r.leader # st.store
    [] st.k = "Enter" -> JointOK(r, st, "Learner", "IncomingVoter", "Voter", "DemotingVoter")
    [] st.k = "Leave" -> /\ JointOK(r, st, "Voter", "IncomingVoter", "Learner", "DemotingVoter")
                         /\ ~(\E p \in Pairs(st.demotes) : RoleAt(r, p[1]) = "DemotingVoter" /\ p[1] = r.leader)
    [] OTHER -> TRUE

(* the command SendScheduleCommand issues for a step *)
CmdOK(r, st, m) ==
  CASE st.k = "TransferLeader" -> m.k = "TransferLeader" /\ m.store = st.to /\ m.peer = IdAt(r, st.to)
    [] st.k \in {"AddPeer", "AddLightPeer", "PromoteLearner"} -> m.k = "AddNode" /\ m.store = st.store /\ m.peer = st.peer
    [] st.k \in {"AddLearner", "AddLightLearner", "DemoteFollower"} -> m.k = "AddLearnerNode" /\ m.store = st.store /\ m.peer = st.peer
    [] st.k = "RemovePeer" -> m.k = "RemoveNode" /\ m.store = st.store /\ m.peer = IdAt(r, st.store)
    [] st.k = "Enter" -> m.k = "V2" /\ {<<m.changes[i][1], m.changes[i][2], m.changes[i][3]>> : i \in 1..Len(m.changes)}
                                        = {<<"AddNode", p[1], p[2]>> : p \in Pairs(st.promotes)} \cup {<<"AddLearnerNode", p[1], p[2]>> : p \in Pairs(st.demotes)}
    [] st.k = "Leave" -> m.k = "V2" /\ Len(m.changes) = 0
    [] st.k = "Split" -> m.k = "Split"
    [] st.k = "Merge" -> m.k = "Merge" /\ ~st.passive      \* the passive half of a merge sends nothing
    [] OTHER -> FALSE

RECURSIVE Advance(_, _, _)
Advance(r, steps, c) == IF c < Len(steps) /\ Fin(r, steps[c + 1]) THEN Advance(r, steps, c + 1) ELSE c

VARIABLES tr, pst, prun, frn, cur
mvars == <<l, bad, tr, pst, prun, frn, cur>>
MInit == l = 1 /\ bad = {} /\ tr = 0 /\ pst = <<>> /\ prun = <<>> /\ frn = <<>> /\ cur = <<>> /\ TLCSet(1, 0) /\ TLCSet(2, {})

Reg(x) == LET r == RegionOf(x.peers, x.leader) IN [peers |-> r.peers, leader |-> r.leader, keys |-> x.keys]
Old(o) == IF o <= Len(pst) THEN pst[o] ELSE "Created"
Clauses(e) ==
  LET NR == Len(e.view)
      NO == Len(e.ops)
      st(o) == e.ops[o].status
      changed == {o \in 1..NO : Old(o) # st(o)}
      newRun(r) == e.running[r] # 0 /\ e.running[r] # prun[r]
      curOf(r) == LET o == e.running[r] IN Advance(Reg(e.view[r]), e.ops[o].steps, IF newRun(r) \/ o > Len(cur) THEN 0 ELSE cur[o])
  IN
  (IF \E i, j \in 1..Len(e.list) : i # j /\ e.list[i][2] = e.list[j][2] THEN {"OnePerRegion"} ELSE {})
  \cup (IF \E r \in 1..NR : (e.running[r] # 0 /\ <<e.running[r], r>> \notin ToSet(e.list)) \/ (\E i \in 1..Len(e.list) : e.list[i][2] = r /\ e.list[i][1] # e.running[r])
        THEN {"RunningSetConsistent"} ELSE {})
  \cup (IF \E o \in changed : <<Old(o), st(o)>> \notin ValidTrans \cup {<<"Created", x>> : x \in {"Success", "Canceled", "Replaced", "Timeout"}}   \* two moves inside one call
        THEN {"StatusMoves"} ELSE {})
  \cup (IF \E o \in 1..NO : (st(o) \in {"Started", "Success", "Replaced", "Timeout"} /\ ~e.ops[o].started)     \* ... but then the operator did pass through started
                             \/ (st(o) \in {"Created", "Expired"} /\ e.ops[o].started)
        THEN {"StatusMoves"} ELSE {})
  \cup (IF \E o \in 1..NO : Old(o) = "Created" /\ st(o) = "Started" /\
              LET r == e.ops[o].region IN ~(e.ops[o].ec = e.view[r].conf /\ e.ops[o].ev = e.view[r].ver)
        THEN {"AdmittedOnlyAtEqualEpoch"} ELSE {})
  \cup (IF \E o \in 1..NO : e.ops[o].pair # 0 /\ Old(o) = "Created" /\ st(o) # "Created" /\
              LET q == e.ops[o].pair IN ~((st(o) = "Started" /\ st(q) = "Started") \/ (st(o) \in EndStatus /\ st(q) \in EndStatus))
        THEN {"MergePairAdmittedTogetherOrNotAtAll"} ELSE {})
  \cup (IF \E r \in 1..NR : prun[r] # 0 /\ e.running[r] # prun[r] /\ st(prun[r]) \notin EndStatus THEN {"LeavesOnlyEnded"} ELSE {})
  \cup (IF \E r \in 1..NR : prun[r] # 0 /\ e.running[r] = 0 /\
              LET o == prun[r] rec == e.record[r] IN
                ~((rec.op = o /\ rec.status = PdpbOf(st(o))) \/ (rec.op # 0 /\ rec.op # o /\ rec.op \in changed))
        THEN {"LeftOperatorRemembered"} ELSE {})
  \cup (IF \E r \in 1..NR : e.running[r] = 0 /\ e.record[r].op # 0 /\ e.record[r].status # PdpbOf(e.record[r].opstatus) THEN {"RecordHasEndStatus"} ELSE {})
  \cup (IF \E i \in 1..Len(e.msgs) : LET m == e.msgs[i] v == e.view[m.region] IN ~(m.to = v.leader /\ m.conf = v.conf /\ m.ver = v.ver)
        THEN {"CommandToLeaderWithEpoch"} ELSE {})
  \cup (IF \E i \in 1..Len(e.msgs) : LET m == e.msgs[i] r == m.region o == e.running[r] IN
              o = 0 \/ LET c == curOf(r) IN c >= Len(e.ops[o].steps) \/ ~CmdOK(Reg(e.view[r]), e.ops[o].steps[c + 1], m)
        THEN {"CommandIsCurrentStepOfRunningOperator"} ELSE {})
  \cup (IF e.a = "Heartbeat" /\ prun[e.region] # 0 /\ Old(prun[e.region]) = "Started" THEN
          LET r == e.region o == prun[r] R == Reg(e.view[r]) steps == e.ops[o].steps
              c1 == Advance(R, steps, cur[o])
              stale == c1 < Len(steps) /\ (~Safe(R, steps[c1 + 1]) \/ e.view[r].conf - e.ops[o].ec > SumTo(e.ops[o].deltas, c1 + 1))
          IN (IF stale /\ e.running[r] = o THEN {"StaleCancelledAtNextHeartbeat"} ELSE {})
             \cup (IF ~frn[r] /\ ~e.ops[o].late /\ st(o) \notin {"Started", "Success"} THEN {"NotStaleUnderOwnSteps"} ELSE {})
             \cup (IF ~frn[r] /\ stale THEN {"OwnStepsNeverLookStale"} ELSE {})
        ELSE {})

MConsume ==
  /\ l <= Len(Trace) /\ l' = l + 1
  /\ LET e == Trace[l] IN
       IF e.ev = "reset" THEN tr' = e.beh /\ pst' = <<>> /\ prun' = <<>> /\ frn' = <<>> /\ cur' = <<>> /\ bad' = bad
       ELSE IF e.ev # "step" THEN UNCHANGED <<tr, pst, prun, frn, cur, bad>>
       ELSE IF e.a = "Init" THEN
            /\ tr' = tr /\ pst' = <<>> /\ prun' = [r \in 1..Len(e.view) |-> 0] /\ frn' = [r \in 1..Len(e.view) |-> FALSE] /\ cur' = <<>> /\ bad' = bad
       ELSE /\ tr' = tr
            /\ bad' = bad \cup {<<tr, c, l>> : c \in Clauses(e)}
            /\ pst' = [o \in 1..Len(e.ops) |-> e.ops[o].status]
            /\ prun' = e.running
            /\ frn' = [r \in 1..Len(e.view) |->
                         IF e.running[r] # 0 /\ e.running[r] # prun[r] THEN e.view[r] # e.truth[r] \/ e.view[r].leader # e.ops[e.running[r]].leader0   \* changed behind the operator's back already
                         ELSE IF e.region = r /\ (e.a = "Foreign" \/ (e.a = "Execute" /\ e.changed /\ ~e.own)) THEN TRUE
                         ELSE frn[r]]
            /\ cur' = [o \in 1..Len(e.ops) |->
                         LET r == e.ops[o].region IN
                         IF e.running[r] = o THEN Advance(Reg(e.view[r]), e.ops[o].steps, IF prun[r] # o \/ o > Len(cur) THEN 0 ELSE cur[o])
                         ELSE IF o <= Len(cur) THEN cur[o] ELSE 0]
MSpec == MInit /\ [][MConsume]_mvars
MHW == IF l > TLCGet(1) THEN TLCSet(1, l) /\ TLCSet(2, bad) ELSE TRUE
=============================================================================
