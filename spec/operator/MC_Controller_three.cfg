SPECIFICATION Spec
CONSTANTS
  Regions = {r1}
  Ops = {o1, o2, o3}
  Shapes <- ShapesOne
  MaxConf = 3
  MaxVer = 2
  Prios = {1, 2}
  Stores = {s1}
  NoOp = NoOp
  RecheckOnPromote = TRUE
INVARIANTS TypeOK OnePerRegion NotStaleUnderOwnSteps
PROPERTIES StatusMoves LeavesEndedAndRemembered StaleCancelledAtNextHeartbeat AdmittedOnlyAtEqualEpoch CommandToLeaderWithEpoch
CHECK_DEADLOCK FALSE
