SPECIFICATION Spec
CONSTANTS
  Regions = {r1, r2}
  Ops = {o1, o2}
  Shapes <- ShapesOne
  MaxConf = 2
  MaxVer = 1
  Prios = {1, 2}
  Stores = {s1}
  NoOp = NoOp
  RecheckOnPromote = TRUE
INVARIANTS TypeOK OnePerRegion NotStaleUnderOwnSteps
PROPERTIES StatusMoves LeavesEndedAndRemembered StaleCancelledAtNextHeartbeat AdmittedOnlyAtEqualEpoch CommandToLeaderWithEpoch
CHECK_DEADLOCK FALSE
