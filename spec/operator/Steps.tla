---------------------------------- MODULE Steps ----------------------------------
(* server/schedule/operator: the effect and the TiKV-side precondition of every operator step  *)
(* kind on a region (peers per store with roles Voter / Learner / IncomingVoter / DemotingVoter, *)
(* a leader store), and the C08 clauses evaluated in EVERY intermediate state of executing the    *)
(* steps of a produced operator in order.  Used as an executable oracle over recorded builder      *)
(* outputs (one trace event per case).                                                           *)
EXTENDS Integers, Sequences, FiniteSets, TLC, Json
Trace == ndJsonDeserialize("trace.ndjson")

ToSet(q) == {q[i] : i \in 1..Len(q)}
(* region state: [peers |-> function store -> [id, role], leader |-> store] *)
Put(f, k, v) == [x \in DOMAIN f \cup {k} |-> IF x = k THEN v ELSE f[x]]
Drop(f, k) == [x \in DOMAIN f \ {k} |-> f[x]]
Voters(r) == {s \in DOMAIN r.peers : r.peers[s].role \in {"Voter", "IncomingVoter", "DemotingVoter"}}
InJoint(r) == \E s \in DOMAIN r.peers : r.peers[s].role \in {"IncomingVoter", "DemotingVoter"}
Has(r, s, id, role) == s \in DOMAIN r.peers /\ r.peers[s].id = id /\ r.peers[s].role = role

(* precondition of a step, as the set of clause names it violates *)
Pre(r, st) ==
  CASE st.k \in {"AddPeer", "AddLightPeer", "AddLearner", "AddLightLearner"} ->
         IF st.store \in DOMAIN r.peers THEN {"OnePeerPerStore"} ELSE {}
    [] st.k = "PromoteLearner" -> IF Has(r, st.store, st.peer, "Learner") THEN {} ELSE {"StepPreconditionHolds"}
    [] st.k = "RemovePeer" ->
         (IF st.store \in DOMAIN r.peers /\ r.peers[st.store].id = st.peer THEN {} ELSE {"StepPreconditionHolds"})
         \cup (IF r.leader = st.store THEN {"LeaderNeverRemovedOrDemoted"} ELSE {})
    [] st.k = "TransferLeader" ->
         IF st.to \in DOMAIN r.peers /\ r.peers[st.to].role \in {"Voter", "IncomingVoter"} THEN {} ELSE {"TransferTargetLegal"}
    [] st.k = "DemoteFollower" ->
         (IF Has(r, st.store, st.peer, "Voter") THEN {} ELSE {"StepPreconditionHolds"})
         \cup (IF r.leader = st.store THEN {"LeaderNeverRemovedOrDemoted"} ELSE {})
    [] st.k = "Enter" ->
         (IF ~InJoint(r) /\ (\A i \in 1..Len(st.promotes) : Has(r, st.promotes[i][1], st.promotes[i][2], "Learner"))
                         /\ (\A i \in 1..Len(st.demotes) : Has(r, st.demotes[i][1], st.demotes[i][2], "Voter")) THEN {} ELSE {"StepPreconditionHolds"})
    [] st.k = "Leave" ->
         (IF (\A i \in 1..Len(st.promotes) : Has(r, st.promotes[i][1], st.promotes[i][2], "IncomingVoter"))
             /\ (\A i \in 1..Len(st.demotes) : Has(r, st.demotes[i][1], st.demotes[i][2], "DemotingVoter"))
             /\ Cardinality({s \in DOMAIN r.peers : r.peers[s].role \in {"IncomingVoter", "DemotingVoter"}}) = Len(st.promotes) + Len(st.demotes)
            THEN {} ELSE {"StepPreconditionHolds"})
         \cup (IF r.leader \in DOMAIN r.peers /\ r.peers[r.leader].role = "DemotingVoter" THEN {"LeaderNeverRemovedOrDemoted"} ELSE {})
    [] OTHER -> {"UnknownStep"}

SetRoles(ps, pairs, role) == [s \in DOMAIN ps |-> IF \E i \in 1..Len(pairs) : pairs[i][1] = s THEN [ps[s] EXCEPT !.role = role] ELSE ps[s]]
Eff(r, st) ==
  CASE st.k \in {"AddPeer", "AddLightPeer"} -> [r EXCEPT !.peers = Put(@, st.store, [id |-> st.peer, role |-> "Voter"])]
    [] st.k \in {"AddLearner", "AddLightLearner"} -> [r EXCEPT !.peers = Put(@, st.store, [id |-> st.peer, role |-> "Learner"])]
    [] st.k = "PromoteLearner" -> IF st.store \in DOMAIN r.peers THEN [r EXCEPT !.peers[st.store].role = "Voter"] ELSE r
    [] st.k = "RemovePeer" -> [r EXCEPT !.peers = Drop(@, st.store)]
    [] st.k = "TransferLeader" -> [r EXCEPT !.leader = st.to]
    [] st.k = "DemoteFollower" -> IF st.store \in DOMAIN r.peers THEN [r EXCEPT !.peers[st.store].role = "Learner"] ELSE r
    [] st.k = "Enter" -> [r EXCEPT !.peers = SetRoles(SetRoles(@, st.promotes, "IncomingVoter"), st.demotes, "DemotingVoter")]
    [] st.k = "Leave" -> [r EXCEPT !.peers = SetRoles(SetRoles(@, st.promotes, "Voter"), st.demotes, "Learner")]
    [] OTHER -> r

RegionOf(ps, leader) == [peers |-> [s \in {ps[i][1] : i \in 1..Len(ps)} |->
                                      LET p == ps[CHOOSE i \in 1..Len(ps) : ps[i][1] = s] IN [id |-> p[2], role |-> p[3]]],
                         leader |-> leader]
VotersOf(ps) == Cardinality({i \in 1..Len(ps) : ps[i][3] = "Voter"})
Min(a, b) == IF a < b THEN a ELSE b
(* run the steps; clause names violated in some intermediate state *)
RECURSIVE Run(_, _, _, _, _)
Run(r, steps, i, minVoters, acc) ==
  IF i > Len(steps) THEN <<r, acc>>
  ELSE LET st == steps[i]
           r2 == Eff(r, st)
           v  == Pre(r, st)
                 \cup (IF Cardinality(Voters(r2)) < minVoters THEN {"VotersAtLeastMin"} ELSE {})
                 \cup (IF r2.leader \notin DOMAIN r2.peers \/ r2.peers[r2.leader].role = "Learner" THEN {"LeaderIsAVoterPeer"} ELSE {})
       IN Run(r2, steps, i + 1, minVoters, acc \cup v)
Verdict(e) ==
  LET r0 == RegionOf(e.origin, e.leader)
      out == Run(r0, e.steps, 1, Min(VotersOf(e.origin), VotersOf(e.target)), {})
      rf == out[1]
      want == {<<e.target[i][1], e.target[i][3]>> : i \in 1..Len(e.target)}
      got == {<<s, rf.peers[s].role>> : s \in DOMAIN rf.peers}
  IN out[2]
     \cup (IF got = want THEN {} ELSE {"FinalPeersAndRolesAsRequested"})
     \cup (IF e.target_leader # 0 /\ rf.leader # e.target_leader THEN {"FinalLeaderAsRequested"} ELSE {})
     \cup (IF \E i \in 1..Len(e.safety) : ~e.safety[i] THEN {"StepOwnCheckSafetyHolds"} ELSE {})


VARIABLES l, bad
vars == <<l, bad>>
Init == l = 1 /\ bad = {} /\ TLCSet(1, 0) /\ TLCSet(2, {})
Consume == /\ l <= Len(Trace) /\ l' = l + 1
           /\ LET e == Trace[l] IN
                IF e.ev # "op" THEN bad' = bad
                ELSE bad' = bad \cup {<<e.n, c, l>> : c \in Verdict(e)}
Spec == Init /\ [][Consume]_vars
HW == IF l > TLCGet(1) THEN TLCSet(1, l) /\ TLCSet(2, bad) ELSE TRUE
AllConsumed == PrintT(<<"HW", TLCGet(1)>>) /\ PrintT(<<"BAD", TLCGet(2)>>) /\ TLCGet(1) = Len(Trace) + 1
=============================================================================
