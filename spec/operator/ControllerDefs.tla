---------------------------- MODULE ControllerDefs ----------------------------
(* Definitions shared by the design model (Controller.tla) and the trace monitor              *)
(* (Mon_Controller.tla) of server/schedule/operator_controller.go.                            *)
EXTENDS Integers, Sequences, FiniteSets

EndStatus == {"Success", "Canceled", "Replaced", "Expired", "Timeout"}
(* server/schedule/operator/status.go validTrans *)
ValidTrans == ({"Created"} \X {"Started", "Canceled", "Expired"})
              \cup ({"Started"} \X {"Success", "Canceled", "Replaced", "Timeout"})
(* what GetOperatorStatus reports for a buried operator (pdpbStatus) *)
PdpbOf(st) == CASE st = "Success" -> "SUCCESS" [] st = "Canceled" -> "CANCEL" [] st = "Replaced" -> "REPLACE"
                [] st \in {"Expired", "Timeout"} -> "TIMEOUT" [] st = "Started" -> "RUNNING" [] OTHER -> "INVALID"

RECURSIVE SumTo(_, _)
SumTo(ds, k) == IF k <= 0 THEN 0 ELSE ds[k] + SumTo(ds, k - 1)
MinN(a, b) == IF a < b THEN a ELSE b
=============================================================================
