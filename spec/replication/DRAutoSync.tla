-------------------------------- MODULE DRAutoSync --------------------------------
(* server/replication/replication_mode.go: the dr-auto-sync state machine driven by tickDR.      *)
(* Regions are a left-to-right sequence covering the key space; ok[i] = region i has reported     *)
(* integrity under the CURRENT state id; hole[i] = there is a key-range gap in front of region i  *)
(* (its predecessor is missing from the cache); hole has one more element: hole[Len(ok) + 1] = the end of the key space is not covered.  The recovery scan keeps a cursor (number of      *)
(* regions already recovered from the left) across ticks and looks at Batch regions per step.     *)
EXTENDS Integers, Sequences, FiniteSets, TLC
CONSTANTS PRep, DRep,          \* replicas per datacenter
          TimeoutPassed,       \* the wait-async timeout has passed (configuration: 0 = yes, 1h = no)
          MaxRegions, Batch, MaxOps, MaxFail
VARIABLES mode, state, sid, stored, offered, nextId,
          downP, downD, ok, hole, cursor, nOps, nFail, good
vars == <<mode, state, sid, stored, offered, nextId, downP, downD, ok, hole, cursor, nOps, nFail, good>>
Init == /\ mode = "dr" /\ state = "sync" /\ sid = 1 /\ stored = <<"sync", 1>> /\ offered = <<"sync", 1>> /\ nextId = 2
        /\ downP = 0 /\ downD = 0 /\ ok = <<FALSE>> /\ hole = <<FALSE, FALSE>> /\ cursor = 0 /\ nOps = 0 /\ nFail = 0 /\ good = TRUE
Step == nOps < MaxOps /\ nOps' = nOps + 1
CanSync == downP < PRep /\ downD < DRep
UpPeers == (IF downP < PRep THEN PRep - downP ELSE 0) + (IF downD < DRep THEN DRep - downD ELSE 0)
HasMajority == UpPeers * 2 > PRep + DRep
AllRecovered == (\A i \in 1..Len(ok) : ok[i] /\ ~hole[i]) /\ ~hole[Len(ok) + 1]
(* a transition: a fresh id is allocated, the new state is offered to the members and persisted; only then served *)
Switch(s, fails) ==
  /\ nextId' = nextId + 1
  /\ IF fails THEN /\ nFail < MaxFail /\ nFail' = nFail + 1 /\ offered' = <<s, nextId>>
                   /\ UNCHANGED <<state, sid, stored, ok, cursor>>
     ELSE /\ state' = s /\ sid' = nextId /\ stored' = <<s, nextId>> /\ offered' = <<s, nextId>> /\ UNCHANGED nFail
          /\ ok' = [i \in 1..Len(ok) |-> FALSE]            \* reports carry the old id
          /\ cursor' = 0
(* one tick: at most one of the guarded transitions, else a step of the recovery scan *)
Tick(fails) ==
  /\ Step /\ mode = "dr"
  /\ IF ~CanSync /\ HasMajority /\ state # "async" /\ TimeoutPassed THEN Switch("async", fails) /\ UNCHANGED <<good>>
     ELSE IF CanSync /\ state = "async" THEN Switch("sync_recover", fails) /\ UNCHANGED good
     ELSE IF state = "sync_recover" THEN
       LET scanned == {i \in (cursor + 1)..Len(ok) : i <= cursor + Batch}
           stop == {i \in scanned : ~ok[i] \/ hole[i]}
           newCursor == IF stop = {} THEN (IF scanned = {} THEN cursor ELSE cursor + Cardinality(scanned))
                        ELSE (CHOOSE i \in stop : \A j \in stop : i <= j) - 1 IN
       IF newCursor = Len(ok) /\ Len(ok) > 0 /\ ~hole[Len(ok) + 1]
         THEN Switch("sync", fails) /\ good' = (good /\ (fails \/ AllRecovered))      \* C19: sync only after all
         ELSE cursor' = newCursor /\ UNCHANGED <<state, sid, stored, offered, nextId, ok, nFail, good>>
     ELSE UNCHANGED <<state, sid, stored, offered, nextId, ok, cursor, nFail, good>>
  /\ UNCHANGED <<mode, downP, downD, hole>>
StoreDown(dc) == Step /\ (IF dc = "p" THEN downP < PRep /\ downP' = downP + 1 /\ UNCHANGED downD ELSE downD < DRep /\ downD' = downD + 1 /\ UNCHANGED downP)
                 /\ UNCHANGED <<mode, state, sid, stored, offered, nextId, ok, hole, cursor, nFail, good>>
StoreUp(dc) == Step /\ (IF dc = "p" THEN downP > 0 /\ downP' = downP - 1 /\ UNCHANGED downD ELSE downD > 0 /\ downD' = downD - 1 /\ UNCHANGED downP)
               /\ UNCHANGED <<mode, state, sid, stored, offered, nextId, ok, hole, cursor, nFail, good>>
Report(i) == Step /\ i \in 1..Len(ok) /\ ~ok[i] /\ ok' = [ok EXCEPT ![i] = TRUE]
             /\ UNCHANGED <<mode, state, sid, stored, offered, nextId, downP, downD, hole, cursor, nFail, good>>
(* a region splits: both halves carry the parent's report; the cursor counts regions, so a split left of it moves it *)
Split(i) == /\ Step /\ i \in 1..Len(ok) /\ Len(ok) < MaxRegions
            /\ ok' = SubSeq(ok, 1, i) \o <<ok[i]>> \o SubSeq(ok, i + 1, Len(ok))
            /\ hole' = SubSeq(hole, 1, i) \o <<FALSE>> \o SubSeq(hole, i + 1, Len(hole))
            /\ cursor' = IF i <= cursor THEN cursor + 1 ELSE cursor
            /\ UNCHANGED <<mode, state, sid, stored, offered, nextId, downP, downD, nFail, good>>
(* a region disappears from the cache (its successor now has a gap in front of it) *)
Lose(i) == /\ Step /\ i \in 1..(Len(ok) - 1) /\ i > cursor
           /\ ok' = SubSeq(ok, 1, i - 1) \o SubSeq(ok, i + 1, Len(ok))
           /\ hole' = SubSeq(hole, 1, i - 1) \o <<TRUE>> \o SubSeq(hole, i + 2, Len(hole))
           /\ UNCHANGED <<mode, state, sid, stored, offered, nextId, downP, downD, cursor, nFail, good>>
(* the last region disappears: the end of the key space is no longer covered *)
LoseTail == /\ Step /\ Len(ok) >= 2 /\ Len(ok) > cursor
            /\ ok' = SubSeq(ok, 1, Len(ok) - 1)
            /\ hole' = SubSeq(hole, 1, Len(ok) - 1) \o <<TRUE>>
            /\ UNCHANGED <<mode, state, sid, stored, offered, nextId, downP, downD, cursor, nFail, good>>
(* the administrator changes the replication mode; the switch back to dr-auto-sync persists sync_recover first, and *)
(* when that write fails the mode stays what it was                                                              *)
SwitchMode(fails) ==
  /\ Step
  /\ IF mode = "dr" THEN ~fails /\ mode' = "majority" /\ UNCHANGED <<state, sid, stored, offered, nextId, ok, cursor, nFail>>
     ELSE Switch("sync_recover", fails) /\ mode' = (IF fails THEN mode ELSE "dr")
  /\ UNCHANGED <<downP, downD, hole, good>>
Next == (\E f \in BOOLEAN : Tick(f)) \/ (\E dc \in {"p", "d"} : StoreDown(dc) \/ StoreUp(dc))
        \/ (\E i \in 1..MaxRegions : Report(i) \/ Split(i) \/ Lose(i)) \/ (\E f \in BOOLEAN : SwitchMode(f)) \/ LoseTail
Spec == Init /\ [][Next]_vars
SyncOnlyAfterAll == good
FreshId == sid < nextId /\ stored[2] < nextId
PersistedBeforeServed == stored = <<state, sid>>
OfferedBeforeServed == [][(sid' # sid) => offered' = <<state', sid'>>]_vars
FailedPersistKeepsServed == [][(nFail' > nFail) => (state' = state /\ sid' = sid /\ mode' = mode)]_vars
AsyncOnlyWhen == [][(state # "async" /\ state' = "async") => (~CanSync /\ HasMajority /\ TimeoutPassed)]_vars
RecoverOnlyWhen == [][(state = "async" /\ state' = "sync_recover") => (CanSync \/ mode # mode')]_vars
=============================================================================
