SPECIFICATION Spec
CONSTANTS PRep = 2
  DRep = 1
  TimeoutPassed = TRUE
  MaxRegions = 4
  Batch = 2
  MaxOps = 12
  MaxFail = 1
INVARIANTS SyncOnlyAfterAll FreshId PersistedBeforeServed
PROPERTIES OfferedBeforeServed FailedPersistKeepsServed AsyncOnlyWhen RecoverOnlyWhen
CHECK_DEADLOCK FALSE
