SPECIFICATION Spec
CONSTANTS PRep = 2
  DRep = 1
  TimeoutPassed = TRUE
  MaxRegions = 3
  Batch = 2
  MaxOps = 9
  MaxFail = 1
INVARIANTS SyncOnlyAfterAll FreshId PersistedBeforeServed
PROPERTIES OfferedBeforeServed FailedPersistKeepsServed AsyncOnlyWhen RecoverOnlyWhen
CHECK_DEADLOCK FALSE
