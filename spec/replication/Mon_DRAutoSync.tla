------------------------------ MODULE Mon_DRAutoSync ------------------------------
(* Property monitor for C19 over recordings of the real replication.ModeManager.  After every     *)
(* step: the state served to stores (state, state id), the stored state, the state last offered    *)
(* to the members, failed-store counts per datacenter, and the cached regions                      *)
(* <<start, end, reported state id, integrity>> in key order.                                      *)
EXTENDS Integers, Sequences, FiniteSets, TLC, Json
Trace == ndJsonDeserialize("trace.ndjson")
Inf == 1000000
VARIABLES l, tr, prev, used, bad
vars == <<l, tr, prev, used, bad>>
Init == l = 1 /\ tr = 0 /\ prev = <<>> /\ used = {} /\ bad = {} /\ TLCSet(1, 0) /\ TLCSet(2, {})
(* the replica layout (primary + dr replicas) is recorded with every event *)
CanSync(e) == e.down_p < e.prep /\ e.down_d < e.drep
UpPeers(e) == (IF e.down_p < e.prep THEN e.prep - e.down_p ELSE 0) + (IF e.down_d < e.drep THEN e.drep - e.down_d ELSE 0)
HasMajority(e) == UpPeers(e) * 2 > e.prep + e.drep
(* every region, contiguous over the whole key space, has reported integrity under state id `id` *)
AllInSync(rs, id) == /\ Len(rs) > 0 /\ rs[1][1] = 0 /\ rs[Len(rs)][2] = Inf
                     /\ \A i \in 1..Len(rs) : rs[i][3] = id /\ rs[i][4] /\ (i < Len(rs) => rs[i][2] = rs[i + 1][1])
BigAllInSync(p, id) == p.big_contiguous /\ \A i \in 1..Len(p.big_status) : p.big_status[i][1] = id
Consume ==
  /\ l <= Len(Trace) /\ l' = l + 1
  /\ LET e == Trace[l] IN
     \* a mode switch that reports an error (its write of sync_recover failed) leaves the served mode what it was
     LET b10 == IF e.ev = "SwitchMode" /\ e.err /\ e.mode # e.mode_before THEN {<<tr, "FailedSwitchKeepsMode", l>>} ELSE {} IN
     IF e.ev = "reset" THEN tr' = e.beh /\ prev' = e /\ used' = {e.sid} /\ bad' = bad
     ELSE IF e.mode # "DR_AUTO_SYNC" THEN tr' = tr /\ prev' = [prev EXCEPT !.regions = e.regions] /\ used' = used /\ bad' = bad \cup b10   \* majority mode: no dr state is served
     ELSE
       LET changed == e.state # prev.state \/ e.sid # prev.sid
           isTick == e.ev = "Tick"
           failedPersist == (isTick \/ e.ev = "SwitchMode") /\ e.fail /\ e.writes >= 1
           b1 == IF changed /\ (e.sid \in used) THEN {"FreshStateId"} ELSE {}
           b2 == IF changed /\ e.ev \notin {"Tick", "SwitchMode"} THEN {"ChangedWithoutTick"} ELSE {}
           \* the store counts are those of the moment of the tick (they are the same in prev and e for a Tick event)
           b3 == IF isTick /\ changed /\ e.state = "ASYNC" /\ ~(~CanSync(e) /\ HasMajority(e) /\ e.timeout_passed) THEN {"AsyncOnlyWhen"} ELSE {}
           b4 == IF isTick /\ changed /\ prev.state = "ASYNC" /\ e.state = "SYNC_RECOVER" /\ ~CanSync(e) THEN {"RecoverOnlyWhen"} ELSE {}
           b5 == IF isTick /\ changed /\ prev.state = "SYNC_RECOVER" /\ e.state = "SYNC"
                    /\ ~(IF e.big THEN BigAllInSync(prev, prev.sid) ELSE AllInSync(prev.regions, prev.sid)) THEN {"SyncOnlyAfterAll"} ELSE {}
           b6 == IF isTick /\ changed /\ ~(prev.state = "SYNC_RECOVER" /\ e.state = "SYNC") /\ ~(e.state = "ASYNC")
                    /\ ~(prev.state = "ASYNC" /\ e.state = "SYNC_RECOVER") THEN {"UnexpectedTransition"} ELSE {}
           b7 == IF e.mode = "DR_AUTO_SYNC" /\ (e.stored_state # "" )
                    /\ <<e.stored_sid>> # <<e.sid>> THEN {"PersistedBeforeServed"} ELSE {}
           b8 == IF changed /\ e.offered_sid # e.sid THEN {"OfferedBeforeServed"} ELSE {}
           b9 == IF failedPersist /\ e.writes = 1 /\ changed THEN {"FailedPersistKeepsServed"} ELSE {}
       IN tr' = tr /\ prev' = e /\ used' = used \cup {e.sid}
          /\ bad' = bad \cup {<<tr, c, l>> : c \in b1 \cup b2 \cup b3 \cup b4 \cup b5 \cup b6 \cup b7 \cup b8 \cup b9} \cup b10
Spec == Init /\ [][Consume]_vars
HW == IF l > TLCGet(1) THEN TLCSet(1, l) /\ TLCSet(2, bad) ELSE TRUE
AllConsumed == PrintT(<<"HW", TLCGet(1)>>) /\ PrintT(<<"BAD", TLCGet(2)>>) /\ TLCGet(1) = Len(Trace) + 1
=============================================================================
