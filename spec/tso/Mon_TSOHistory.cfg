SPECIFICATION Spec
CONSTRAINT HW
INVARIANTS Unique RealTimeOrder LogicalFits
POSTCONDITION AllConsumed
CHECK_DEADLOCK FALSE
