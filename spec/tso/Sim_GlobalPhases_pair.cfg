SPECIFICATION Spec
CONSTANTS DC = {"dc-1", "dc-2", "dc-3"}
  Groups = {{"dc-1", "dc-3"}, {"dc-2"}}
  Counts = {1, 2, 3}
  GlobalCounts = {1, 2, 4}
  MaxPhys = 8
  MaxLocalReq = 8
  MaxGlobalReq = 3
  MaxLost = 2
  MaxPush = 6
  MaxAttempts = 3
  Rounds = 2
  ResetSkip = TRUE
CHECK_DEADLOCK FALSE
