------------------------------- MODULE LocalGlobal -------------------------------
(* server/tso/global_allocator.go GenerateTSO / SyncMaxTS + grpc_service.go SyncMaxTS handler +    *)
(* local allocators + allocator_manager.go getOrCreateLocalTSOSuffix.                             *)
(* A timestamp is <<physical, raw logical>>; the value handed out by allocator x is composed as    *)
(* physical * 2^18 + (raw logical << bits) + suffix(x), suffix(global) = 0: values are compared     *)
(* as <<physical, raw logical, suffix>>.                                                          *)
(* A global request runs in phases that interleave with local requests of every datacenter:        *)
(*   Estimate -> Check(d) for every d (collect the local maximum) -> [fallback to the maximum]      *)
(*   -> Write(d) for every d (raise every local allocator to the value) -> Persist -> Return.       *)
EXTENDS Integers, FiniteSets, TLC
CONSTANTS DC, Counts, GlobalCounts, MaxPhys, MaxLocalReq, MaxGlobalReq
Suffix == CHOOSE f \in [DC -> 1..Cardinality(DC)] : \A a, b \in DC : a # b => f[a] # f[b]
VARIABLES loc,        \* per datacenter: <<phys, logi>> of the local allocator
          glo,        \* <<phys, logi>> of the global allocator
          gpc, est, seen, checked, written, gcount,    \* the global request in flight
          done,       \* ghost: completed requests: [who, val, ]
          gfloor,     \* ghost: completed requests when the global request in flight began
          nL, nG, ok
vars == <<loc, glo, gpc, est, seen, checked, written, gcount, done, gfloor, nL, nG, ok>>
Less(a, b) == a[1] < b[1] \/ (a[1] = b[1] /\ a[2] < b[2]) \/ (a[1] = b[1] /\ a[2] = b[2] /\ a[3] < b[3])
TsLess(a, b) == a[1] < b[1] \/ (a[1] = b[1] /\ a[2] < b[2])
TsMax(a, b) == IF TsLess(a, b) THEN b ELSE a
Init == /\ loc = [d \in DC |-> <<1, 0>>] /\ glo = <<1, 0>> /\ gpc = "idle" /\ est = <<0, 0>> /\ seen = <<0, 0>>
        /\ checked = {} /\ written = {} /\ gcount = 0 /\ done = {} /\ gfloor = {} /\ nL = 0 /\ nG = 0 /\ ok = TRUE
(* a local request: atomic; must exceed every global value returned before it began (it begins and ends here) *)
LocalGen(d, n) ==
  /\ nL < MaxLocalReq /\ nL' = nL + 1
  /\ loc' = [loc EXCEPT ![d] = <<@[1], @[2] + n>>]
  /\ LET v == <<loc[d][1], loc[d][2] + n, Suffix[d]>> IN
       /\ done' = done \cup {[who |-> d, val |-> v, n |-> n]}
       /\ ok' = (ok /\ \A r \in done : r.val # v /\ (r.who = "global" => Less(r.val, <<v[1], v[2] - n + 1, v[3]>>)))
  /\ UNCHANGED <<glo, gpc, est, seen, checked, written, gcount, gfloor, nG>>
(* physical time advances (UpdateTimestamp) *)
TickLocal(d) == loc[d][1] < MaxPhys /\ loc' = [loc EXCEPT ![d] = <<@[1] + 1, 0>>]
                /\ UNCHANGED <<glo, gpc, est, seen, checked, written, gcount, done, gfloor, nL, nG, ok>>
TickGlobal == glo[1] < MaxPhys /\ glo' = <<glo[1] + 1, 0>>
              /\ UNCHANGED <<loc, gpc, est, seen, checked, written, gcount, done, gfloor, nL, nG, ok>>
(* the global request *)
Estimate(n, skew) == /\ gpc = "idle" /\ nG < MaxGlobalReq /\ nG' = nG + 1
                     /\ glo' = <<glo[1], glo[2] + n>>
                     /\ est' = <<glo[1] + skew, glo[2] + n>> /\ gcount' = n
                     /\ seen' = <<0, 0>> /\ checked' = {} /\ written' = {} /\ gpc' = "check" /\ gfloor' = done
                     /\ UNCHANGED <<loc, done, nL, ok>>
Check(d) == /\ gpc = "check" /\ d \notin checked
            /\ seen' = TsMax(seen, loc[d]) /\ checked' = checked \cup {d}
            /\ UNCHANGED <<loc, glo, gpc, est, written, gcount, done, gfloor, nL, nG, ok>>
(* all datacenters answered: a local maximum >= the estimate replaces it (plus one if equal), then count is added *)
Decide == /\ gpc = "check" /\ checked = DC
          /\ est' = IF TsLess(est, seen) \/ est = seen
                      THEN <<seen[1], (IF est = seen THEN seen[2] + 1 ELSE seen[2]) + gcount>> ELSE est
          /\ gpc' = "write"
          /\ UNCHANGED <<loc, glo, seen, checked, written, gcount, done, gfloor, nL, nG, ok>>
Write(d) == /\ gpc = "write" /\ d \notin written
            /\ loc' = [loc EXCEPT ![d] = TsMax(@, est)] /\ written' = written \cup {d}
            /\ UNCHANGED <<glo, gpc, est, seen, checked, gcount, done, gfloor, nL, nG, ok>>
Return == /\ gpc = "write" /\ written = DC
          /\ glo' = TsMax(glo, est) /\ gpc' = "idle"
          /\ LET v == <<est[1], est[2], 0>> IN
               /\ done' = done \cup {[who |-> "global", val |-> v, n |-> gcount]}
               \* greater than every value of every request that had completed when this one began; unique
               /\ ok' = (ok /\ (\A r \in gfloor : Less(r.val, <<v[1], v[2] - gcount + 1, 0>>)) /\ (\A r \in done : r.val # v))
          /\ UNCHANGED <<loc, est, seen, checked, written, gcount, gfloor, nL, nG>>
Next == \/ \E d \in DC, n \in Counts : LocalGen(d, n)
        \/ \E d \in DC : TickLocal(d) \/ Check(d) \/ Write(d)
        \/ TickGlobal \/ Decide \/ Return
        \/ \E n \in GlobalCounts, k \in {0, 1} : Estimate(n, k)
Spec == Init /\ [][Next]_vars
Consistent == ok
View == <<loc, glo, gpc, est, seen, checked, written, gcount, {r.val : r \in done}, {r.val : r \in gfloor}, nL, nG, ok>>
=============================================================================
