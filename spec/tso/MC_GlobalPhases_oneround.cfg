SPECIFICATION Spec
CONSTANTS DC = {"d1", "d2"}
  Groups = {{"d1"}, {"d2"}}
  Counts = {1}
  GlobalCounts = {1, 2}
  MaxPhys = 3
  MaxLocalReq = 2
  MaxGlobalReq = 2
  MaxLost = 1
  MaxPush = 2
  MaxAttempts = 2
  Rounds = 1
  ResetSkip = TRUE
INVARIANTS Consistent
VIEW View
CHECK_DEADLOCK FALSE
