SPECIFICATION Spec
CONSTANTS
  Member = {"m1", "m2"}
  MaxClock = 12
  SaveInt = 3
  Counts = {1, 131071, 131072}
  ResetPhys = {4}
  ResetLogi = {0}
  MaxGap = 12
  MaxGrants = 14
  MaxResets = 0
  MaxCrash = 0
  MaxTerms = 1
  MaxDelete = 0
  MaxJump = 0
  Jumps <- JumpBig
  ExcludeRace = TRUE
  ExcludeLost = TRUE
  ExcludeStale = TRUE
CHECK_DEADLOCK FALSE
