------------------------------- MODULE GlobalPhases -------------------------------
(* The global-timestamp protocol at the grain of the code:                                          *)
(*   server/tso/global_allocator.go  GenerateTSO (attempts), SyncMaxTS (rounds of RPCs),             *)
(*   server/grpc_service.go          SyncMaxTS handler (one RPC at one datacenter),                  *)
(*   server/tso/local_allocator.go   WriteTSO, local GenerateTSO.                                    *)
(* One attempt: estimate -> SyncMaxTS(skip = FALSE) -> [a datacenter answered with something bigger: *)
(* take it, add the count, SyncMaxTS(skip = TRUE)] -> persist -> return. SyncMaxTS sends its request  *)
(* to every datacenter in `Rounds` consecutive rounds (the loop in SyncMaxTS has no early exit), each *)
(* round carrying the maximum collected so far. A lost reply fails the attempt; the next attempt      *)
(* starts from a fresh estimate and - in the code as it is - with skip = FALSE again (ResetSkip).     *)
(* Groups partitions the datacenters by the member that leads their allocators: one request per round goes to   *)
(* every member, and its handler looks at / writes all the allocators it leads.                                  *)
(* LocalGlobal.tla is the abstract protocol; this module is implementation-shaped and is bound to     *)
(* the real three-server cluster by Mon_GlobalPhases.tla (the RPCs are gated one by one).             *)
EXTENDS Integers, FiniteSets, TLC
CONSTANTS DC, Groups, Counts, GlobalCounts, MaxPhys, MaxLocalReq, MaxGlobalReq, MaxLost, MaxPush, MaxAttempts, Rounds,
          ResetSkip        \* TRUE: the code as it is; FALSE: the second-phase flag survives a failed attempt (must be refuted)
Suffix == CHOOSE f \in [DC -> 1..Cardinality(DC)] : \A a, b \in DC : a # b => f[a] # f[b]
None == <<-1, -1>>
Lost == <<-2, -2>>
VARIABLES loc,          \* per datacenter: <<phys, logi>> of the local allocator
          glo,          \* <<phys, logi>> of the global allocator
          pc,           \* "idle" | "sync" | "persist"
          n, est, cur, skip, round, pending, reply, attempt,     \* the global request in flight
          done, gfloor, \* ghost: completed requests; those completed when the request in flight began
          nL, nG, nLost, nPush, ok, last
vars == <<loc, glo, pc, n, est, cur, skip, round, pending, reply, attempt, done, gfloor, nL, nG, nLost, nPush, ok, last>>
TsLess(a, b) == a[1] < b[1] \/ (a[1] = b[1] /\ a[2] < b[2])
TsMax(a, b) == IF TsLess(a, b) THEN b ELSE a
Less(a, b) == a[1] < b[1] \/ (a[1] = b[1] /\ a[2] < b[2]) \/ (a[1] = b[1] /\ a[2] = b[2] /\ a[3] < b[3])
(* ---- pure functions shared with the trace monitor ---- *)
(* the SyncMaxTS handler of a member that leads the allocators of the datacenters in g, which are at lo[d]:      *)
(* <<new allocator values, reply>>. Without skip a member that has a value >= the request answers with its biggest  *)
(* (plus one if equal) and writes nothing; otherwise every allocator below the request is raised to it.              *)
MaxOf(S) == CHOOSE m \in S : \A x \in S : ~TsLess(m, x)
Handler(lo, g, c, s) == LET ml == MaxOf({lo[d] : d \in g}) IN
                        IF ~s /\ ~TsLess(ml, c) THEN <<[d \in g |-> lo[d]], IF ml = c THEN <<ml[1], ml[2] + 1>> ELSE ml>>
                        ELSE <<[d \in g |-> TsMax(lo[d], c)], None>>
(* the maximum after a round: the request's value or the biggest reply *)
Collect(c, rs) == MaxOf({c} \cup {r \in rs : r # None /\ r # Lost})
(* what GenerateTSO does once SyncMaxTS returned m: <<"again", new est>> (second phase) or <<"persist", m>> *)
AfterSync(e, m, s, cnt) == IF ~s /\ TsLess(e, m) THEN <<"again", <<m[1], m[2] + cnt>>>> ELSE <<"persist", m>>

Init == /\ loc = [d \in DC |-> <<1, 0>>] /\ glo = <<1, 0>> /\ pc = "idle" /\ n = 0 /\ est = <<0, 0>> /\ cur = <<0, 0>>
        /\ skip = FALSE /\ round = 0 /\ pending = {} /\ reply = [g \in Groups |-> None] /\ attempt = 0
        /\ done = {} /\ gfloor = {} /\ nL = 0 /\ nG = 0 /\ nLost = 0 /\ nPush = 0 /\ ok = TRUE /\ last = <<"init">>
(* a local request: atomic; must exceed every global value returned before it began *)
LocalGen(d, m) ==
  /\ nL < MaxLocalReq /\ nL' = nL + 1
  /\ loc' = [loc EXCEPT ![d] = <<@[1], @[2] + m>>]
  /\ LET v == <<loc[d][1], loc[d][2] + m, Suffix[d]>> IN
       /\ done' = done \cup {[who |-> d, val |-> v, n |-> m]}
       /\ ok' = (ok /\ \A r \in done : r.val # v /\ (r.who = "global" => Less(r.val, <<v[1], v[2] - m + 1, v[3]>>)))
  /\ last' = <<"LocalGen", d, m>>
  /\ UNCHANGED <<glo, pc, n, est, cur, skip, round, pending, reply, attempt, gfloor, nG, nLost, nPush>>
(* a local clock moves: one tick ahead, or - while a request is in flight - to the value it carries, just above it, *)
(* or a tick above it                                                                                             *)
PushKinds == {"tick", "eq", "eq1", "above"}
PushTarget(d, kind) == IF kind = "tick" THEN <<loc[d][1] + 1, 0>>
                       ELSE IF kind = "eq" THEN cur ELSE IF kind = "eq1" THEN <<cur[1], cur[2] + 1>> ELSE <<cur[1] + 1, 0>>
Push(d, kind) == /\ nPush < MaxPush /\ nPush' = nPush + 1 /\ (kind # "tick" => pc = "sync")
                 /\ LET v == PushTarget(d, kind) IN TsLess(loc[d], v) /\ v[1] <= MaxPhys /\ loc' = [loc EXCEPT ![d] = v]
                 /\ last' = <<"Push", d, kind>>
                 /\ UNCHANGED <<glo, pc, n, est, cur, skip, round, pending, reply, attempt, done, gfloor, nL, nG, nLost, ok>>
PushGlobal == /\ nPush < MaxPush /\ nPush' = nPush + 1 /\ pc = "idle" /\ glo[1] < MaxPhys /\ glo' = <<glo[1] + 1, 0>>
              /\ last' = <<"PushGlobal">>
              /\ UNCHANGED <<loc, pc, n, est, cur, skip, round, pending, reply, attempt, done, gfloor, nL, nG, nLost, ok>>
(* estimateMaxTS: the global allocator's own next value, the physical part possibly a little ahead *)
Estimate(m, k, s) == /\ glo' = <<glo[1], glo[2] + m>>
                     /\ est' = <<glo[1] + k, glo[2] + m>> /\ cur' = <<glo[1] + k, glo[2] + m>>
                     /\ skip' = s /\ round' = 1 /\ pending' = Groups /\ reply' = [g \in Groups |-> None] /\ pc' = "sync"
Start(m, k) == /\ pc = "idle" /\ nG < MaxGlobalReq /\ nG' = nG + 1 /\ glo[1] + k <= MaxPhys
               /\ n' = m /\ attempt' = 1 /\ gfloor' = done /\ Estimate(m, k, FALSE) /\ last' = <<"Start", m>>
               /\ UNCHANGED <<loc, done, nL, nLost, nPush, ok>>
(* one request of the current round reaches its member; the reply may be lost on the way back *)
Deliver(g, lose) ==
  /\ pc = "sync" /\ g \in pending /\ (lose => nLost < MaxLost)
  /\ LET h == Handler(loc, g, cur, skip) IN
       /\ loc' = [d \in DC |-> IF d \in g THEN h[1][d] ELSE loc[d]]
       /\ reply' = [reply EXCEPT ![g] = IF lose THEN Lost ELSE h[2]]
  /\ pending' = pending \ {g} /\ nLost' = IF lose THEN nLost + 1 ELSE nLost
  /\ last' = <<"Deliver", g, lose>>
  /\ UNCHANGED <<glo, pc, n, est, cur, skip, round, attempt, done, gfloor, nL, nG, nPush, ok>>
(* all replies of the round are in *)
EndRound(k) ==
  /\ pc = "sync" /\ pending = {} /\ last' = <<"EndRound">>
  /\ LET rs == {reply[g] : g \in Groups}
         m == Collect(cur, rs) IN
     IF Lost \in rs THEN
       \* the attempt failed: retry from a fresh estimate, or give up
       IF attempt < MaxAttempts /\ glo[1] + k <= MaxPhys
         THEN /\ attempt' = attempt + 1 /\ Estimate(n, k, IF ResetSkip THEN FALSE ELSE skip)
              /\ UNCHANGED <<loc, n, done, gfloor, nL, nG, nLost, nPush, ok>>
         ELSE /\ pc' = "idle" /\ UNCHANGED <<loc, glo, n, est, cur, skip, round, pending, reply, attempt, done, gfloor, nL, nG, nLost, nPush, ok>>
     ELSE IF round < Rounds
       THEN /\ round' = round + 1 /\ cur' = m /\ pending' = Groups /\ reply' = [g \in Groups |-> None]
            /\ UNCHANGED <<loc, glo, pc, n, est, skip, attempt, done, gfloor, nL, nG, nLost, nPush, ok>>
     ELSE LET a == AfterSync(est, m, skip, n) IN
       IF a[1] = "again"
         THEN /\ est' = a[2] /\ cur' = a[2] /\ skip' = TRUE /\ round' = 1 /\ pending' = Groups /\ reply' = [g \in Groups |-> None]
              /\ UNCHANGED <<loc, glo, pc, n, attempt, done, gfloor, nL, nG, nLost, nPush, ok>>
         ELSE /\ pc' = "persist" /\ cur' = m
              /\ UNCHANGED <<loc, glo, n, est, skip, round, pending, reply, attempt, done, gfloor, nL, nG, nLost, nPush, ok>>
(* the value is written to the global allocator and returned *)
Return == /\ pc = "persist" /\ glo' = TsMax(glo, cur) /\ pc' = "idle" /\ last' = <<"Return">>
          /\ LET v == <<cur[1], cur[2], 0>> IN
               /\ done' = done \cup {[who |-> "global", val |-> v, n |-> n]}
               /\ ok' = (ok /\ (\A r \in gfloor : Less(r.val, <<v[1], v[2] - n + 1, 0>>)) /\ (\A r \in done : r.val # v))
          /\ UNCHANGED <<loc, n, est, cur, skip, round, pending, reply, attempt, gfloor, nL, nG, nLost, nPush>>
Next == \/ \E d \in DC, m \in Counts : LocalGen(d, m)
        \/ \E d \in DC, kind \in PushKinds : Push(d, kind)
        \/ \E g \in Groups, lose \in BOOLEAN : Deliver(g, lose)
        \/ PushGlobal \/ Return
        \/ \E k \in {0, 1} : EndRound(k) \/ \E m \in GlobalCounts : Start(m, k)
Spec == Init /\ [][Next]_vars
Consistent == ok
View == <<loc, glo, pc, n, est, cur, skip, round, pending, reply, attempt, {r.val : r \in done}, {r.val : r \in gfloor}, nL, nG, nLost, nPush, ok>>
=============================================================================
