---------------------------- MODULE Mon_GlobalPhases ----------------------------
(* Trace validation of the real global-timestamp protocol against GlobalPhases.tla. The recording   *)
(* (harness `tso phases`) has one event per local request, clock movement, start of a global        *)
(* request, round of SyncMaxTS requests (skip flag and value carried), delivery of one request to    *)
(* one datacenter (its reply; possibly lost afterwards) and result of the global request. All        *)
(* clocks are ahead of the wall clock, so every value is determined by the events: the monitor       *)
(* carries the specification's state (loc, glo, est, cur, skip, round, replies) through the events   *)
(* with the specification's own functions (Handler, Collect, AfterSync) and compares every logged     *)
(* value with it; only the estimate of an attempt is taken from the log (it depends on elapsed        *)
(* time), bounded below by the global allocator's own next value.                                    *)
EXTENDS Integers, Sequences, FiniteSets, TLC, Json
Trace == ndJsonDeserialize("trace.ndjson")
DC == {"dc-1", "dc-2", "dc-3"}
Rounds == 2
None == <<-1, -1>>
Lost == <<-2, -2>>
TsLess(a, b) == a[1] < b[1] \/ (a[1] = b[1] /\ a[2] < b[2])
TsMax(a, b) == IF TsLess(a, b) THEN b ELSE a
MaxOf(S) == CHOOSE m \in S : \A x \in S : ~TsLess(m, x)
Handler(lo, g, c, s) == LET ml == MaxOf({lo[d] : d \in g}) IN
                        IF ~s /\ ~TsLess(ml, c) THEN <<[d \in g |-> lo[d]], IF ml = c THEN <<ml[1], ml[2] + 1>> ELSE ml>>
                        ELSE <<[d \in g |-> TsMax(lo[d], c)], None>>
Collect(c, rs) == MaxOf({c} \cup {r \in rs : r # None /\ r # Lost})
AfterSync(e, m, s, cnt) == IF ~s /\ TsLess(e, m) THEN <<"again", <<m[1], m[2] + cnt>>>> ELSE <<"persist", m>>
VARIABLES l, tr, loc, glo, issued, lastG, rq, bad
(* rq: the request in flight: [on, n, floor, skip, cur, est, round, reps, got, expect] where expect is what the    *)
(* next round / result must be: <<"round", skip, value>> | <<"result", value>> | <<"fresh">> | <<"none">>             *)
vars == <<l, tr, loc, glo, issued, lastG, rq, bad>>
Idle == [on |-> FALSE, n |-> 0, floor |-> [d \in DC |-> None], skip |-> FALSE, cur |-> None, est |-> None, round |-> 0,
         reps |-> {}, got |-> {}, expect |-> <<"none">>]
Init == l = 1 /\ tr = 0 /\ loc = [d \in DC |-> <<0, 0>>] /\ glo = <<0, 0>> /\ issued = [d \in DC |-> None] /\ lastG = None
        /\ rq = Idle /\ bad = {} /\ TLCSet(1, 0) /\ TLCSet(2, {})
T2(x) == <<x[1], x[2]>>
B(c, cond) == IF cond THEN {} ELSE {<<tr, c, l>>}
Consume ==
  /\ l <= Len(Trace) /\ l' = l + 1
  /\ LET e == Trace[l] IN
     CASE e.ev = "reset" ->
            /\ tr' = e.beh /\ loc' = [d \in DC |-> T2(e.loc[d])] /\ glo' = T2(e.glo) /\ issued' = [d \in DC |-> None] /\ lastG' = None
            /\ rq' = Idle /\ bad' = bad
       [] e.ev = "local" ->
            LET d == e.dc
                want == <<loc[d][1], loc[d][2] + e.n>>
                v == T2(e.ts)
                first == <<v[1], v[2] - e.n + 1>>
                b == IF e.err THEN {} ELSE
                       B("LocalContinues", v = want)
                       \cup B("LocalAboveEarlierGlobal", lastG = None \/ ~TsLess(first, lastG))
                       \cup B("NeverEqual", e.suffix # 0)
            IN /\ loc' = IF e.err THEN loc ELSE [loc EXCEPT ![d] = v]
               /\ issued' = IF e.err THEN issued ELSE [issued EXCEPT ![d] = v]
               /\ bad' = bad \cup b /\ UNCHANGED <<tr, glo, lastG, rq>>
       [] e.ev = "push" ->
            /\ loc' = IF e.ok THEN [loc EXCEPT ![e.dc] = T2(e.to)] ELSE loc
            /\ bad' = bad \cup B("ClockMovesForward", e.ok = TsLess(loc[e.dc], T2(e.to)))
            /\ UNCHANGED <<tr, glo, issued, lastG, rq>>
       [] e.ev = "pushg" ->
            /\ glo' = (IF e.ok THEN T2(e.to) ELSE glo) /\ UNCHANGED <<tr, loc, issued, lastG, rq, bad>>
       [] e.ev = "start" ->
            /\ rq' = [Idle EXCEPT !.on = TRUE, !.n = e.n, !.floor = issued, !.expect = <<"fresh">>]
            /\ UNCHANGED <<tr, loc, glo, issued, lastG, bad>>
       [] e.ev = "round" ->
            LET v == T2(e.max)
                own == <<glo[1], glo[2] + rq.n>>          \* estimateMaxTS: the global allocator hands out its next value first
                fresh == rq.expect[1] = "fresh"
                b == IF fresh
                       THEN B("AttemptStartsWithCheck", ~e.skip) \cup B("EstimateCoversGlobal", ~TsLess(v, own))
                       ELSE B("RoundCarriesCollected", rq.expect[1] = "round" /\ rq.expect[2] = e.skip /\ rq.expect[3] = v)
            IN /\ rq' = [rq EXCEPT !.skip = e.skip, !.cur = v, !.est = IF fresh \/ (e.skip /\ ~rq.skip) THEN v ELSE @,
                                   !.round = IF fresh \/ (e.skip /\ ~rq.skip) THEN 1 ELSE @ + 1,
                                   !.reps = {}, !.got = {}, !.expect = <<"none">>]
               /\ glo' = IF fresh THEN own ELSE glo
               /\ bad' = bad \cup b /\ UNCHANGED <<tr, loc, issued, lastG>>
       [] e.ev = "deliver" ->
            LET g == {e.dcs[i] : i \in 1..Len(e.dcs)}          \* the datacenters whose allocators the addressed member leads
                h == Handler(loc, g, rq.cur, rq.skip)
                r == T2(e.reply)
                b == IF e.rpcerr THEN {} ELSE B("HandlerFollowsRule", r = h[2])
                \* after a mismatch follow the code where the log tells: an accepted request raised the allocators
                nl == [d \in DC |-> IF d \notin g \/ e.rpcerr THEN loc[d]
                                    ELSE IF r = h[2] THEN h[1][d] ELSE IF r = None THEN TsMax(loc[d], rq.cur) ELSE loc[d]]
                rs == rq.reps \cup {IF e.lost \/ e.rpcerr THEN Lost ELSE r}
                got == rq.got \cup g
                m == Collect(rq.cur, rs)
                a == AfterSync(rq.est, m, rq.skip, rq.n)
                ex == IF got # DC THEN <<"none">>
                      ELSE IF Lost \in rs THEN <<"fresh">>
                      ELSE IF rq.round < Rounds THEN <<"round", rq.skip, m>>
                      ELSE IF a[1] = "again" THEN <<"round", TRUE, a[2]>> ELSE <<"result", m>>
            IN /\ loc' = nl
               /\ rq' = [rq EXCEPT !.reps = rs, !.got = got, !.expect = ex]
               /\ bad' = bad \cup b /\ UNCHANGED <<tr, glo, issued, lastG>>
       [] e.ev = "global" ->
            LET v == T2(e.ts)
                first == <<v[1], v[2] - e.n + 1>>
                b == IF e.err THEN {} ELSE
                       B("GlobalReturnsCollected", rq.expect[1] = "result" /\ rq.expect[2] = v)
                       \cup B("GlobalAboveEarlierLocal", \A d \in DC : rq.floor[d] = None \/ TsLess(rq.floor[d], first))
                       \cup B("GlobalSuffixZero", e.suffix = 0)
            IN /\ rq' = Idle /\ lastG' = IF e.err THEN lastG ELSE v
               /\ glo' = IF e.err THEN glo ELSE TsMax(glo, v)
               /\ bad' = bad \cup b /\ UNCHANGED <<tr, loc, issued>>
       [] OTHER -> UNCHANGED <<tr, loc, glo, issued, lastG, rq, bad>>
Spec == Init /\ [][Consume]_vars
HW == IF l > TLCGet(1) THEN TLCSet(1, l) /\ TLCSet(2, bad) ELSE TRUE
AllConsumed == PrintT(<<"HW", TLCGet(1)>>) /\ PrintT(<<"BAD", TLCGet(2)>>) /\ TLCGet(1) = Len(Trace) + 1
=============================================================================
