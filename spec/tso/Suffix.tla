---------------------------------- MODULE Suffix ----------------------------------
(* allocator_manager.go getOrCreateLocalTSOSuffix: the PD leader gives every datacenter a suffix:  *)
(* read the whole suffix table, take max+1, write it with a create-if-absent transaction.  The      *)
(* transaction of a member that has lost the leadership in the meantime may still arrive.           *)
(* Guarded = TRUE: the transaction also compares the leader record (the repaired code).            *)
EXTENDS Integers, FiniteSets, TLC
CONSTANTS Mem, DC, Guarded, MaxLeaderChanges
None == "none"
VARIABLES table, leader, pc, want, nLC     \* table: dc -> suffix (0 = none); pc/want per <<member, dc>>
vars == <<table, leader, pc, want, nLC>>
Init == table = [d \in DC |-> 0] /\ leader \in Mem /\ pc = [m \in Mem |-> [d \in DC |-> "idle"]] /\ want = [m \in Mem |-> [d \in DC |-> 0]] /\ nLC = 0
MaxS == LET S == {table[d] : d \in DC} IN CHOOSE x \in S : \A y \in S : y <= x
Read(m, d) == /\ leader = m /\ pc[m][d] = "idle" /\ table[d] = 0
              /\ \A e \in DC : pc[m][e] = "idle"                          \* one at a time per member (manager lock)
              /\ want' = [want EXCEPT ![m][d] = MaxS + 1] /\ pc' = [pc EXCEPT ![m][d] = "txn"]
              /\ UNCHANGED <<table, leader, nLC>>
Txn(m, d) == /\ pc[m][d] = "txn" /\ pc' = [pc EXCEPT ![m][d] = "idle"]
             /\ table' = IF table[d] = 0 /\ (Guarded => leader = m) THEN [table EXCEPT ![d] = want[m][d]] ELSE table
             /\ UNCHANGED <<leader, want, nLC>>
LeaderChange(m) == nLC < MaxLeaderChanges /\ leader # m /\ leader' = m /\ nLC' = nLC + 1 /\ UNCHANGED <<table, pc, want>>
Next == \E m \in Mem : (\E d \in DC : Read(m, d) \/ Txn(m, d)) \/ LeaderChange(m)
Spec == Init /\ [][Next]_vars
SuffixUnique == \A a, b \in DC : (a # b /\ table[a] # 0) => table[a] # table[b]
SuffixStable == [][\A d \in DC : table[d] # 0 => table'[d] = table[d]]_vars
=============================================================================
