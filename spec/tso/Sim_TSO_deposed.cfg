SPECIFICATION Spec
CONSTANTS
  Member = {"m1", "m2"}
  MaxClock = 16
  SaveInt = 3
  Counts = {1, 7}
  ResetPhys = {3, 5, 7, 9, 11, 13, 15, 17}
  ResetLogi = {0, 5}
  MaxGap = 12
  MaxGrants = 10
  MaxResets = 6
  MaxCrash = 0
  MaxTerms = 2
  MaxDelete = 2
  MaxJump = 0
  Jumps <- JumpBig
  ExcludeRace = TRUE
  ExcludeLost = TRUE
  ExcludeStale = TRUE
CHECK_DEADLOCK FALSE
