SPECIFICATION Spec
CONSTANTS Mem = {"m1", "m2"}
  DC = {"d1", "d2", "d3"}
  Guarded = FALSE
  MaxLeaderChanges = 1
INVARIANTS SuffixUnique
PROPERTIES SuffixStable
CHECK_DEADLOCK FALSE
