---------------------------- MODULE Mon_TSOHistory ----------------------------
(* C01 over free-running concurrent histories: every completed request is an event         *)
(* <<s, e, phys, lo, hi>> (s/e: process-wide sequence numbers taken before the call and     *)
(* after its return).  Unique: ranges pairwise disjoint.  Real-time order: e(a) < s(b)      *)
(* implies every value of a is below every value of b.  Order-independent: each new event   *)
(* is compared with all earlier ones in both directions.                                    *)
EXTENDS Integers, Sequences, FiniteSets, TLC, Json
Trace == ndJsonDeserialize("trace.ndjson")
VARIABLES l, hist, viol
vars == <<l, hist, viol>>
Init == l = 1 /\ hist = {} /\ viol = {} /\ TLCSet(1, 0)
Less(a, b) == a[1] < b[1] \/ (a[1] = b[1] /\ a[2] < b[2])
Consume ==
  /\ l <= Len(Trace) /\ l' = l + 1
  /\ LET e == Trace[l] IN
     IF e.ev = "reset" THEN hist' = {} /\ viol' = viol
     ELSE IF e.ev # "ts" \/ e.err THEN UNCHANGED <<hist, viol>>
     ELSE
       LET g == <<e.s, e.e, e.phys, e.lo, e.hi>>
           v1 == IF \E h \in hist : h[3] = g[3] /\ ~(h[5] < g[4] \/ g[5] < h[4]) THEN {"Unique"} ELSE {}
           v2 == IF \E h \in hist : \/ (h[2] < g[1] /\ ~Less(<<h[3], h[5]>>, <<g[3], g[4]>>))
                                    \/ (g[2] < h[1] /\ ~Less(<<g[3], g[5]>>, <<h[3], h[4]>>))
                   THEN {"RealTimeOrder"} ELSE {}
           v3 == IF ~(g[4] >= 1 /\ g[5] < 262144 /\ g[4] <= g[5]) THEN {"LogicalFits"} ELSE {}
       IN hist' = hist \cup {g} /\ viol' = viol \cup v1 \cup v2 \cup v3
Spec == Init /\ [][Consume]_vars
HW == TLCSet(1, IF l > TLCGet(1) THEN l ELSE TLCGet(1))
AllConsumed == PrintT(<<"HW", TLCGet(1)>>) /\ TLCGet(1) = Len(Trace) + 1
Unique == "Unique" \notin viol
RealTimeOrder == "RealTimeOrder" \notin viol
LogicalFits == "LogicalFits" \notin viol
=============================================================================
