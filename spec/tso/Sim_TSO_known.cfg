SPECIFICATION Spec
CONSTANTS
  Member = {"m1", "m2"}
  MaxClock = 40
  SaveInt = 3
  Counts = {1, 7, 131073}
  ResetPhys = {4, 9, 15, 22, 30, 47}
  ResetLogi = {0, 5}
  MaxGap = 12
  MaxGrants = 12
  MaxResets = 4
  MaxCrash = 2
  MaxTerms = 4
  MaxDelete = 2
  MaxJump = 4
  Jumps <- JumpBig
  ExcludeRace = FALSE
  ExcludeLost = FALSE
  ExcludeStale = FALSE
CHECK_DEADLOCK FALSE
