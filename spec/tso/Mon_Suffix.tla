------------------------------- MODULE Mon_Suffix -------------------------------
(* C05, suffix clauses, over recordings of real suffix assignments: the suffix table read back    *)
(* from etcd after every step.                                                                   *)
EXTENDS Integers, Sequences, FiniteSets, TLC, Json
Trace == ndJsonDeserialize("trace.ndjson")
VARIABLES l, tr, prev, bad
vars == <<l, tr, prev, bad>>
Init == l = 1 /\ tr = 0 /\ prev = <<>> /\ bad = {} /\ TLCSet(1, 0) /\ TLCSet(2, {})
Consume ==
  /\ l <= Len(Trace) /\ l' = l + 1
  /\ LET e == Trace[l]  t == e.table IN
     IF e.ev = "reset" THEN tr' = e.beh /\ prev' = t /\ bad' = bad
     ELSE tr' = tr /\ prev' = t
          /\ bad' = bad \cup (IF \E a, b \in DOMAIN t : a # b /\ t[a] = t[b] THEN {<<tr, "SuffixUnique", l>>} ELSE {})
                        \cup (IF \E a \in DOMAIN prev : a \notin DOMAIN t \/ t[a] # prev[a] THEN {<<tr, "SuffixStable", l>>} ELSE {})
                        \cup (IF \E a \in DOMAIN t : t[a] < 1 THEN {<<tr, "SuffixPositive", l>>} ELSE {})
Spec == Init /\ [][Consume]_vars
HW == IF l > TLCGet(1) THEN TLCSet(1, l) /\ TLCSet(2, bad) ELSE TRUE
AllConsumed == PrintT(<<"HW", TLCGet(1)>>) /\ PrintT(<<"BAD", TLCGet(2)>>) /\ TLCGet(1) = Len(Trace) + 1
=============================================================================
