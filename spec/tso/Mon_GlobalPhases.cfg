SPECIFICATION Spec
CONSTRAINT HW
POSTCONDITION AllConsumed
CHECK_DEADLOCK FALSE
