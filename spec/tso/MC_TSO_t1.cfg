SPECIFICATION Spec
CONSTANTS
  Member = {"m1", "m2"}
  MaxClock = 4
  SaveInt = 2
  Counts = {1, 131073}
  ResetPhys = {3, 6}
  ResetLogi = {0}
  MaxGap = 4
  MaxGrants = 2
  MaxResets = 1
  MaxCrash = 1
  MaxTerms = 2
  MaxDelete = 1
  MaxJump = 1
  Jumps <- JumpSmall
  ExcludeRace = TRUE
  ExcludeLost = TRUE
  ExcludeStale = TRUE
INVARIANTS Safe
PROPERTIES WindowMonotone
VIEW View
CHECK_DEADLOCK FALSE
