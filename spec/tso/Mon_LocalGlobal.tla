---------------------------- MODULE Mon_LocalGlobal ----------------------------
(* Property monitor for C05 over request histories of a real cluster with per-datacenter       *)
(* allocators.  A completed request: who (global / datacenter), count n, start/end sequence      *)
(* numbers s/e, physical, the returned (differentiated) logical and the suffix width `bits`.      *)
(* It owns the values <<physical, logical - i * 2^bits>>, i = 0..n-1.                             *)
EXTENDS Integers, Sequences, FiniteSets, TLC, Json
Trace == ndJsonDeserialize("trace.ndjson")
VARIABLES l, hist, bad
vars == <<l, hist, bad>>
Init == l = 1 /\ hist = {} /\ bad = {} /\ TLCSet(1, 0) /\ TLCSet(2, {})
RECURSIVE Pow2(_)
Pow2(b) == IF b <= 0 THEN 1 ELSE 2 * Pow2(b - 1)
Less(a, b) == a[1] < b[1] \/ (a[1] = b[1] /\ a[2] < b[2])
(* record: <<who, s, e, phys, lo, hi, suffix, bits, n>> *)
Consume ==
  /\ l <= Len(Trace) /\ l' = l + 1
  /\ LET ev == Trace[l] IN
     IF ev.ev = "reset" THEN hist' = {} /\ bad' = bad
     ELSE IF ev.ev # "ts" \/ ev.err THEN UNCHANGED <<hist, bad>>
     ELSE
       LET w == Pow2(ev.bits)
           r == <<ev.who, ev.s, ev.e, ev.phys, ev.logical - (ev.n - 1) * w, ev.logical, ev.logical % w, ev.bits, ev.n>>
           before == {h \in hist : h[3] < r[2]}          \* completed before r began
           after  == {h \in hist : r[3] < h[2]}          \* began after r completed (recorded earlier)
           b1 == IF r[6] >= 262144 \/ r[5] < 1 THEN {"LogicalFits"} ELSE {}
           b2 == IF \E h \in hist : h[1] = r[1] /\ h[8] = r[8] /\ h[7] # r[7] THEN {"SuffixStable"} ELSE {}
           b3 == IF \E h \in hist : h[1] # r[1] /\ h[8] = r[8] /\ h[7] = r[7] THEN {"SuffixUniqueAndWideEnough"} ELSE {}
           b4 == (IF r[1] = "global" /\ r[7] # 0 THEN {"SuffixUniqueAndWideEnough"} ELSE {})
                 \* after a later datacenter was given its suffix, every timestamp reports a width that covers it
                 \cup (IF ev.bits < ev.need_bits THEN {"SuffixUniqueAndWideEnough"} ELSE {})
           same(h) == h[4] = r[4] /\ h[7] = r[7] /\ h[8] = r[8] /\ ~(h[6] < r[5] \/ r[6] < h[5])     \* some value in common
           b5 == (IF \E h \in hist : h[1] # r[1] /\ same(h) THEN {"NeverEqual"} ELSE {})
                 \cup (IF \E h \in hist : h[1] = r[1] /\ same(h) /\ r[1] # "global" THEN {"UniqueWithinAllocator"} ELSE {})
                 \cup (IF \E h \in hist : h[1] = r[1] /\ same(h) /\ r[1] = "global" /\ ~(h[3] < r[2] \/ r[3] < h[2]) THEN {"ConcurrentGlobalRequestsShareValues"} ELSE {})
                 \cup (IF \E h \in hist : h[1] = r[1] /\ same(h) /\ r[1] = "global" /\ (h[3] < r[2] \/ r[3] < h[2]) THEN {"UniqueWithinAllocator"} ELSE {})
           \* real-time order, both directions; a multi-value global request whose LARGEST value is above the earlier local
           \* one but whose smaller values are not is reported under its own name (known finding)
           viol(a, b) == ~Less(<<a[4], a[6]>>, <<b[4], b[5]>>)        \* a completed before b began, yet some value of a >= some value of b
           batch(a, b) == b[1] = "global" /\ b[9] > 1 /\ a[1] # "global" /\ Less(<<a[4], a[6]>>, <<b[4], b[6]>>)
           \* order is required within one allocator and between the global allocator and a local one, not between two local ones
           related(a, b) == a[1] = b[1] \/ a[1] = "global" \/ b[1] = "global"
           pairs == {p \in {<<h, r>> : h \in before} \cup {<<r, h>> : h \in after} : related(p[1], p[2])}
           b6 == IF \E p \in pairs : viol(p[1], p[2]) /\ ~batch(p[1], p[2]) THEN {"RealTimeOrder"} ELSE {}
           b7 == IF \E p \in pairs : viol(p[1], p[2]) /\ batch(p[1], p[2]) THEN {"GlobalBatchAboveEarlierLocal"} ELSE {}
       IN hist' = hist \cup {r} /\ bad' = bad \cup {<<0, c, l>> : c \in b1 \cup b2 \cup b3 \cup b4 \cup b5 \cup b6 \cup b7}
Spec == Init /\ [][Consume]_vars
HW == IF l > TLCGet(1) THEN TLCSet(1, l) /\ TLCSet(2, bad) ELSE TRUE
AllConsumed == PrintT(<<"HW", TLCGet(1)>>) /\ PrintT(<<"BAD", TLCGet(2)>>) /\ TLCGet(1) = Len(Trace) + 1
=============================================================================
