--------------------------------- MODULE TSO ---------------------------------
(* server/tso/tso.go + global_allocator.go + allocator_manager.go (updater) +             *)
(* server.go:campaignLeader, for one timestamp allocator served by several members.       *)
(* One process per goroutine of the real code:                                            *)
(*   leader loop   Campaign -> SyncLoad -> SyncSave(+set memory) -> serving -> StepDown    *)
(*   updater       UpdRead (unlocked read of memory + clock, decide) -> UpdSave(+set)      *)
(*                 at most one in flight per allocator, NOT cancelled by a step-down;      *)
(*                 on failure it resets the allocator group                               *)
(*   handlers      Gen (atomic add under tsoMux + lease check)                            *)
(*   admin         ResetUser (holds tsoMux across its own save transaction)               *)
(* Each etcd transaction is one action; the in-memory write that follows a transaction in  *)
(* the same goroutine is folded into it (the binding can only park goroutines at           *)
(* transactions).  Times are integers (milliseconds relative to a base instant).           *)
EXTENDS Integers, FiniteSets, TLC

CONSTANTS Member, MaxClock, SaveInt, Counts, ResetPhys, ResetLogi, MaxGap,
          MaxGrants, MaxResets, MaxCrash, MaxTerms, MaxDelete, MaxJump, Jumps,
          ExcludeRace,   \* TRUE: no admin reset while an update of the same member is in flight (known finding C02-upd-reset-race)
          ExcludeLost,   \* TRUE: the save of an admin reset is never applied-with-lost-reply (known finding C02-reset-lost-reply)
          ExcludeStale   \* TRUE: no re-campaign of a member while its own update is in flight (known finding C02-stale-upd-across-terms)

Guard      == 1
MaxLogical == 262144
MaxRetry   == 10
None       == "none"
JumpSmall  == {-2, 2}
JumpBig    == {-7, -3, 5, 11}

VARIABLES leaderKey, window,                 \* etcd: leader record, stored time window (0 = absent)
          lease, phys, logi, lastSaved,      \* per member: local lease view, memory (phys 0 = uninitialised), cached window
          clock,                             \* per member wall clock
          pcL, sNext,                        \* leader loop
          pcU, uNext,                        \* updater
          term,
          grants, maxGrant,                  \* ghost: returned ranges <<phys, lo, hi>>, largest value returned <<phys, logical>>
          nGrants, nResets, nCrash, nDelete, nJump,
          ok

vars == <<leaderKey, window, lease, phys, logi, lastSaved, clock, pcL, sNext, pcU, uNext, term,
          grants, maxGrant, nGrants, nResets, nCrash, nDelete, nJump, ok>>

Init == /\ leaderKey = None /\ window = 0
        /\ lease = [m \in Member |-> FALSE] /\ phys = [m \in Member |-> 0] /\ logi = [m \in Member |-> 0]
        /\ lastSaved = [m \in Member |-> 0] /\ clock \in [Member -> {1, 2}]
        /\ pcL = [m \in Member |-> "idle"] /\ sNext = [m \in Member |-> 0]
        /\ pcU = [m \in Member |-> "idle"] /\ uNext = [m \in Member |-> 0]
        /\ term = [m \in Member |-> 0]
        /\ grants = {} /\ maxGrant = <<0, 0>>
        /\ nGrants = 0 /\ nResets = 0 /\ nCrash = 0 /\ nDelete = 0 /\ nJump = 0 /\ ok = TRUE

Less(a, b) == a[1] < b[1] \/ (a[1] = b[1] /\ a[2] < b[2])
Overlap(g, h) == g[1] = h[1] /\ ~(g[3] < h[2] \/ h[3] < g[2])

\* Leadership.Reset(): local view false, lease revoked (the record disappears if it is this member's)
\* The leader record was removed while its holder's local lease view is still valid: outside the lease
\* assumption PD relies on (a lease never expires in etcd before it expires locally).  Uniqueness and the
\* window bound must still hold then; real-time order between the two serving members cannot.
Split == \E m \in Member : lease[m] /\ leaderKey # m

Revoked(m) == IF leaderKey = m THEN None ELSE leaderKey

-----------------------------------------------------------------------------
(* request handler: GenerateTSO(count) *)
Gen(m, n) ==
  /\ nGrants < MaxGrants /\ lease[m] /\ phys[m] # 0
  /\ nGrants' = nGrants + 1
  /\ logi' = [logi EXCEPT ![m] = IF @ + n >= MaxLogical THEN @ + MaxRetry * n ELSE @ + n]   \* getTS adds again on every retry
  /\ IF logi[m] + n >= MaxLogical
       THEN UNCHANGED <<grants, maxGrant, ok>>            \* overflow: nothing is returned (retry / error)
       ELSE LET g == <<phys[m], logi[m] + 1, logi[m] + n>> IN
            /\ grants' = grants \cup {g}
            /\ maxGrant' = IF Less(maxGrant, <<g[1], g[3]>>) THEN <<g[1], g[3]>> ELSE maxGrant
            /\ ok' = (ok /\ (\A h \in grants : ~Overlap(g, h))          \* C01 unique
                         /\ (Split \/ Less(maxGrant, <<g[1], g[2]>>))   \* C01 real-time order (requests are sequential here)
                         /\ phys[m] < window)                           \* C02 grant below the durable window
  /\ UNCHANGED <<leaderKey, window, lease, phys, lastSaved, clock, pcL, sNext, pcU, uNext, term, nResets, nCrash, nDelete, nJump>>

-----------------------------------------------------------------------------
(* updater: UpdateTimestamp *)
UpdNext(m) == IF clock[m] - phys[m] > Guard THEN clock[m]
              ELSE IF logi[m] > MaxLogical \div 2 THEN phys[m] + 1 ELSE 0        \* 0 = skip

UpdRead(m) ==
  /\ pcU[m] = "idle" /\ lease[m] /\ phys[m] # 0 /\ UpdNext(m) # 0
  /\ LET next == UpdNext(m) IN
       IF lastSaved[m] - next <= Guard
         THEN /\ pcU' = [pcU EXCEPT ![m] = "save"] /\ uNext' = [uNext EXCEPT ![m] = next]
              /\ UNCHANGED <<phys, logi>>
         ELSE /\ phys' = [phys EXCEPT ![m] = IF next > @ THEN next ELSE @]
              /\ logi' = [logi EXCEPT ![m] = IF next > phys[m] THEN 0 ELSE @]
              /\ UNCHANGED <<pcU, uNext>>
  /\ UNCHANGED <<leaderKey, window, lease, lastSaved, clock, pcL, sNext, term, grants, maxGrant, nGrants, nResets, nCrash, nDelete, nJump, ok>>

(* the leader-guarded save of the updater; o: "ok" | "lost" (applied, reply lost) | "err" (not applied) *)
UpdSave(m, o) ==
  /\ pcU[m] = "save"
  /\ pcU' = [pcU EXCEPT ![m] = "idle"]
  /\ LET applied == leaderKey = m /\ o \in {"ok", "lost"}
         w == uNext[m] + SaveInt IN
     /\ window' = IF applied THEN w ELSE window
     /\ IF applied /\ o = "ok"
          THEN /\ lastSaved' = [lastSaved EXCEPT ![m] = w]
               /\ phys' = [phys EXCEPT ![m] = IF uNext[m] > @ THEN uNext[m] ELSE @]
               /\ logi' = [logi EXCEPT ![m] = IF uNext[m] > phys[m] THEN 0 ELSE @]
               /\ UNCHANGED <<lease, leaderKey>>
          ELSE \* UpdateTSO failed: updateAllocator resets the allocator group
               /\ phys' = [phys EXCEPT ![m] = 0] /\ logi' = [logi EXCEPT ![m] = 0]
               /\ lease' = [lease EXCEPT ![m] = FALSE]
               /\ leaderKey' = Revoked(m)
               /\ UNCHANGED lastSaved
  /\ UNCHANGED <<clock, pcL, sNext, uNext, term, grants, maxGrant, nGrants, nResets, nCrash, nDelete, nJump, ok>>

-----------------------------------------------------------------------------
(* admin: resetUserTimestamp(ts = <<p, l>>), holds tsoMux including its save; o as above *)
ResetUser(m, p, l, o) ==
  /\ nResets < MaxResets /\ nResets' = nResets + 1
  /\ ExcludeRace => pcU[m] = "idle"
  /\ ExcludeLost => o # "lost"
  /\ LET pd == p - phys[m]
         rejected == ~lease[m] \/ phys[m] = 0 \/ pd < 0 \/ (pd = 0 /\ l - logi[m] <= 0) \/ pd >= MaxGap
         needSave == lastSaved[m] - p <= Guard
         applied  == ~rejected /\ needSave /\ leaderKey = m /\ o \in {"ok", "lost"}
         saved    == applied /\ o = "ok"
         w == p + SaveInt IN
     /\ window' = IF applied THEN w ELSE window
     /\ lastSaved' = IF saved THEN [lastSaved EXCEPT ![m] = w] ELSE lastSaved
     /\ IF ~rejected /\ (~needSave \/ saved)
          THEN phys' = [phys EXCEPT ![m] = p] /\ logi' = [logi EXCEPT ![m] = l]
          ELSE UNCHANGED <<phys, logi>>
  /\ UNCHANGED <<leaderKey, lease, clock, pcL, sNext, pcU, uNext, term, grants, maxGrant, nGrants, nCrash, nDelete, nJump, ok>>

-----------------------------------------------------------------------------
(* leader loop *)
Campaign(m) ==
  /\ pcL[m] = "idle" /\ leaderKey = None /\ term[m] < MaxTerms
  /\ ExcludeStale => pcU[m] = "idle"
  /\ leaderKey' = m /\ lease' = [lease EXCEPT ![m] = TRUE] /\ term' = [term EXCEPT ![m] = @ + 1]
  /\ pcL' = [pcL EXCEPT ![m] = "load"]
  /\ UNCHANGED <<window, phys, logi, lastSaved, clock, sNext, pcU, uNext, grants, maxGrant, nGrants, nResets, nCrash, nDelete, nJump, ok>>

SyncLoad(m) ==
  /\ pcL[m] = "load"
  /\ sNext' = [sNext EXCEPT ![m] = IF clock[m] - window < Guard THEN window + Guard ELSE clock[m]]
  /\ pcL' = [pcL EXCEPT ![m] = "save"]
  /\ UNCHANGED <<leaderKey, window, lease, phys, logi, lastSaved, clock, pcU, uNext, term, grants, maxGrant, nGrants, nResets, nCrash, nDelete, nJump, ok>>

SyncSave(m, o) ==
  /\ pcL[m] = "save"
  /\ LET applied == leaderKey = m /\ o \in {"ok", "lost"}
         w == sNext[m] + SaveInt IN
     /\ window' = IF applied THEN w ELSE window
     /\ IF applied /\ o = "ok"
          THEN /\ lastSaved' = [lastSaved EXCEPT ![m] = w]
               /\ phys' = [phys EXCEPT ![m] = IF sNext[m] > @ THEN sNext[m] ELSE @]
               /\ logi' = [logi EXCEPT ![m] = IF sNext[m] > phys[m] THEN 0 ELSE @]
               /\ pcL' = [pcL EXCEPT ![m] = "serving"]
               /\ UNCHANGED <<lease, leaderKey>>
          ELSE \* Initialize failed: campaignLeader returns, ResetLeader; memory is not touched
               /\ lease' = [lease EXCEPT ![m] = FALSE] /\ leaderKey' = Revoked(m)
               /\ pcL' = [pcL EXCEPT ![m] = "idle"]
               /\ UNCHANGED <<lastSaved, phys, logi>>
  /\ UNCHANGED <<clock, sNext, pcU, uNext, term, grants, maxGrant, nGrants, nResets, nCrash, nDelete, nJump, ok>>

(* lease lost / resign / shutdown: deferred ResetAllocatorGroup + ResetLeader *)
StepDown(m) ==
  /\ pcL[m] = "serving"
  /\ phys' = [phys EXCEPT ![m] = 0] /\ logi' = [logi EXCEPT ![m] = 0]
  /\ lease' = [lease EXCEPT ![m] = FALSE] /\ leaderKey' = Revoked(m)
  /\ pcL' = [pcL EXCEPT ![m] = "idle"]
  /\ UNCHANGED <<window, lastSaved, clock, sNext, pcU, uNext, term, grants, maxGrant, nGrants, nResets, nCrash, nDelete, nJump, ok>>

-----------------------------------------------------------------------------
(* environment *)
DeleteKey == /\ leaderKey # None /\ nDelete < MaxDelete /\ nDelete' = nDelete + 1 /\ leaderKey' = None
             /\ UNCHANGED <<window, lease, phys, logi, lastSaved, clock, pcL, sNext, pcU, uNext, term, grants, maxGrant, nGrants, nResets, nCrash, nJump, ok>>

Tick(m) == /\ clock[m] < MaxClock /\ clock' = [clock EXCEPT ![m] = @ + 1]
           /\ UNCHANGED <<leaderKey, window, lease, phys, logi, lastSaved, pcL, sNext, pcU, uNext, term, grants, maxGrant, nGrants, nResets, nCrash, nDelete, nJump, ok>>

Jump(m, d) == /\ nJump < MaxJump /\ d # 0 /\ clock[m] + d >= 1 /\ clock[m] + d <= MaxClock
              /\ clock' = [clock EXCEPT ![m] = @ + d] /\ nJump' = nJump + 1
              /\ UNCHANGED <<leaderKey, window, lease, phys, logi, lastSaved, pcL, sNext, pcU, uNext, term, grants, maxGrant, nGrants, nResets, nCrash, nDelete, ok>>

(* the process stops; every goroutine and all memory is gone; the leader record stays until its lease expires *)
Crash(m) == /\ nCrash < MaxCrash /\ nCrash' = nCrash + 1
            /\ lease' = [lease EXCEPT ![m] = FALSE] /\ phys' = [phys EXCEPT ![m] = 0] /\ logi' = [logi EXCEPT ![m] = 0]
            /\ lastSaved' = [lastSaved EXCEPT ![m] = 0]
            /\ pcL' = [pcL EXCEPT ![m] = "idle"] /\ pcU' = [pcU EXCEPT ![m] = "idle"]
            /\ UNCHANGED <<leaderKey, window, clock, sNext, uNext, term, grants, maxGrant, nGrants, nResets, nDelete, nJump, ok>>

EtcdExpire(m) == /\ leaderKey = m /\ ~lease[m] /\ pcL[m] = "idle"
                 /\ leaderKey' = None
                 /\ UNCHANGED <<window, lease, phys, logi, lastSaved, clock, pcL, sNext, pcU, uNext, term, grants, maxGrant, nGrants, nResets, nCrash, nDelete, nJump, ok>>

Outcome == {"ok", "lost", "err"}
Next == \/ \E m \in Member, n \in Counts : Gen(m, n)
        \/ \E m \in Member : UpdRead(m)
        \/ \E m \in Member, o \in Outcome : UpdSave(m, o)
        \/ \E m \in Member, p \in ResetPhys, l \in ResetLogi, o \in Outcome : ResetUser(m, p, l, o)
        \/ \E m \in Member : Campaign(m)
        \/ \E m \in Member : SyncLoad(m)
        \/ \E m \in Member, o \in Outcome : SyncSave(m, o)
        \/ \E m \in Member : StepDown(m)
        \/ DeleteKey
        \/ \E m \in Member : Tick(m)
        \/ \E m \in Member, d \in Jumps : Jump(m, d)
        \/ \E m \in Member : Crash(m)
        \/ \E m \in Member : EtcdExpire(m)

Spec == Init /\ [][Next]_vars

-----------------------------------------------------------------------------
Safe == ok                                         \* C01 unique + ordered, C02 grant below window (evaluated at every grant)
WindowMonotone == [][window' >= window]_vars       \* C02
MemoryBelowWindow == \A m \in Member : (lease[m] /\ phys[m] # 0 /\ leaderKey = m) => phys[m] < window
View == <<leaderKey, window, lease, phys, logi, lastSaved, clock, pcL, sNext, pcU, uNext, term,
          maxGrant, nGrants, nResets, nCrash, nDelete, nJump, ok>>
=============================================================================
