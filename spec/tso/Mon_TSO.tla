------------------------------- MODULE Mon_TSO -------------------------------
(* Property monitor for C01 / C02 over gated (sequential) recordings of the real TSO code.   *)
(* Observables only: results of GenerateTSO, the window and leader keys read back from etcd,  *)
(* each member's lease view.  Never stops at a violation: violations are accumulated in `bad` *)
(* as <<trace number, clause, event line>> and reported at the end.                           *)
EXTENDS Integers, Sequences, FiniteSets, TLC, Json
Trace == ndJsonDeserialize("trace.ndjson")
VARIABLES l, tr, grants, maxG, window, bad
vars == <<l, tr, grants, maxG, window, bad>>

Init == l = 1 /\ tr = 0 /\ grants = {} /\ maxG = <<0, 0>> /\ window = 0 /\ bad = {} /\ TLCSet(1, 0) /\ TLCSet(2, {})

Less(a, b) == a[1] < b[1] \/ (a[1] = b[1] /\ a[2] < b[2])
Overlap(g, h) == g[1] = h[1] /\ ~(g[3] < h[2] \/ h[3] < g[2])
Members(e) == DOMAIN e.lease
\* a member still believes in its lease although it does not own the leader record (see TSO.tla, Split)
Split(e) == \E m \in Members(e) : e.lease[m] /\ e.leader # m

Consume ==
  /\ l <= Len(Trace) /\ l' = l + 1
  /\ LET e == Trace[l] IN
     IF e.ev = "reset"
       THEN tr' = e.beh /\ grants' = {} /\ maxG' = <<0, 0>> /\ window' = e.window /\ bad' = bad
       ELSE
         LET hasG == Len(e.grant) = 3
             g == e.grant
             b1 == IF e.window < window THEN {<<tr, "WindowMonotone", l>>} ELSE {}
             b2 == IF hasG /\ \E h \in grants : Overlap(g, h) THEN {<<tr, "Unique", l>>} ELSE {}
             b3 == IF hasG /\ ~Split(e) /\ ~Less(maxG, <<g[1], g[2]>>) THEN {<<tr, "RealTimeOrder", l>>} ELSE {}
             b4 == IF hasG /\ ~(g[1] < e.window) THEN {<<tr, "GrantBelowWindow", l>>} ELSE {}
             b5 == IF hasG /\ ~(g[2] >= 1 /\ g[3] < 262144 /\ g[2] <= g[3]) THEN {<<tr, "LogicalFits", l>>} ELSE {}
         IN /\ tr' = tr
            /\ grants' = IF hasG THEN grants \cup {g} ELSE grants
            /\ maxG' = IF hasG /\ Less(maxG, <<g[1], g[3]>>) THEN <<g[1], g[3]>> ELSE maxG
            /\ window' = e.window
            /\ bad' = bad \cup b1 \cup b2 \cup b3 \cup b4 \cup b5
Spec == Init /\ [][Consume]_vars
HW == IF l > TLCGet(1) THEN TLCSet(1, l) /\ TLCSet(2, bad) ELSE TRUE
AllConsumed == PrintT(<<"HW", TLCGet(1)>>) /\ PrintT(<<"BAD", TLCGet(2)>>) /\ TLCGet(1) = Len(Trace) + 1
=============================================================================
