SPECIFICATION Spec
CONSTANTS DC = {"d1", "d2"}
  Counts = {1, 2}
  GlobalCounts = {1, 2}
  MaxPhys = 2
  MaxLocalReq = 3
  MaxGlobalReq = 2
INVARIANTS Consistent
VIEW View
CHECK_DEADLOCK FALSE
