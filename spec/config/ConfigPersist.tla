----------------------------- MODULE ConfigPersist -----------------------------
(* server/server.go Set*Config + config/persist_options.go Persist / Reload.                    *)
(* The served configuration is a record of sections plus a set of label properties.  An update   *)
(* validates the value, swaps it in, persists the WHOLE configuration with one storage write      *)
(* (which may fail) and on failure restores what was served before.                              *)
EXTENDS Integers, FiniteSets, TLC
CONSTANTS Sections, Valid, Invalid, Labels, MaxOps, MaxFail   \* Valid/Invalid: section -> set of values
VARIABLES served, labels, stored, storedLabels, nOps, nFail
vars == <<served, labels, stored, storedLabels, nOps, nFail>>
Init == /\ served = [s \in Sections |-> "default"] /\ labels = {} /\ stored = served /\ storedLabels = {} /\ nOps = 0 /\ nFail = 0
Step == nOps < MaxOps /\ nOps' = nOps + 1
Set(s, v, fails) ==
  /\ Step /\ v \in Valid[s] \cup Invalid[s]
  /\ IF v \in Invalid[s] THEN UNCHANGED <<served, stored, nFail>>                    \* rejected by validation
     ELSE IF fails THEN nFail < MaxFail /\ nFail' = nFail + 1 /\ UNCHANGED <<served, stored>>   \* persist failed: rolled back
     ELSE served' = [served EXCEPT ![s] = v] /\ stored' = [served EXCEPT ![s] = v] /\ UNCHANGED nFail
  /\ UNCHANGED <<labels, storedLabels>>
SetLabel(k, fails) ==
  /\ Step
  /\ IF fails THEN nFail < MaxFail /\ nFail' = nFail + 1 /\ UNCHANGED <<labels, storedLabels>>
     ELSE labels' = labels \cup {k} /\ storedLabels' = labels \cup {k} /\ UNCHANGED nFail
  /\ UNCHANGED <<served, stored>>
DelLabel(k, fails) ==
  /\ Step
  /\ IF fails THEN nFail < MaxFail /\ nFail' = nFail + 1 /\ UNCHANGED <<labels, storedLabels>>
     ELSE labels' = labels \ {k} /\ storedLabels' = labels \ {k} /\ UNCHANGED nFail
  /\ UNCHANGED <<served, stored>>
(* a leader change: the new leader (here: the same server after resigning) reloads the configuration from storage *)
LeaderChange == Step /\ served' = stored /\ labels' = storedLabels /\ UNCHANGED <<stored, storedLabels, nFail>>
AllVals == UNION {Valid[s] \cup Invalid[s] : s \in Sections}
Next == \/ \E s \in Sections, v \in AllVals, f \in BOOLEAN : Set(s, v, f)
        \/ \E k \in Labels, f \in BOOLEAN : SetLabel(k, f) \/ DelLabel(k, f)
        \/ LeaderChange
Spec == Init /\ [][Next]_vars
AcceptedIsReloaded == stored = served /\ storedLabels = labels
DomainsRespected == \A s \in Sections : served[s] \notin Invalid[s]
RejectedLeavesServed == [][(nFail' > nFail) => (served' = served /\ labels' = labels)]_vars
=============================================================================
