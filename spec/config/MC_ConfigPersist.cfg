SPECIFICATION Spec
CONSTANTS Sections = {"schedule", "replication", "pdserver"}
  Valid <- ValidMap
  Invalid <- InvalidMap
  Labels = {"l1", "l2"}
  MaxOps = 5
  MaxFail = 2
INVARIANTS AcceptedIsReloaded DomainsRespected
PROPERTIES RejectedLeavesServed
CHECK_DEADLOCK FALSE
