--------------------------- MODULE Mon_ConfigPersist ---------------------------
(* Property monitor for C18 over recordings of the real Server.Set*Config calls.  `served` and    *)
(* `reloaded` map every configuration section (and the derived default placement rule) to its     *)
(* canonical JSON text; `reloaded` is what a fresh PersistOptions object reloads from storage.    *)
EXTENDS Integers, Sequences, FiniteSets, TLC, Json
Trace == ndJsonDeserialize("trace.ndjson")
VARIABLES l, tr, prev, bad
vars == <<l, tr, prev, bad>>
Init == l = 1 /\ tr = 0 /\ prev = <<>> /\ bad = {} /\ TLCSet(1, 0) /\ TLCSet(2, {})
Consume ==
  /\ l <= Len(Trace) /\ l' = l + 1
  /\ LET e == Trace[l] IN
     IF e.ev = "reset" THEN tr' = e.beh /\ prev' = e.served /\ bad' = bad
     ELSE
       LET acc == e.res = "ok"
           b1 == IF e.invalid /\ acc THEN {"DomainsRespected"} ELSE {}
           b2 == IF ~acc /\ \E s \in DOMAIN e.served : e.served[s] # prev[s] THEN {"RejectedLeavesServed"} ELSE {}
           b3 == IF acc /\ \E s \in DOMAIN e.reloaded : e.reloaded[s] # e.served_norm[s] THEN {"AcceptedIsReloaded"} ELSE {}
       IN tr' = tr /\ prev' = e.served /\ bad' = bad \cup {<<tr, c, l>> : c \in b1 \cup b2 \cup b3}
Spec == Init /\ [][Consume]_vars
HW == IF l > TLCGet(1) THEN TLCSet(1, l) /\ TLCSet(2, bad) ELSE TRUE
AllConsumed == PrintT(<<"HW", TLCGet(1)>>) /\ PrintT(<<"BAD", TLCGet(2)>>) /\ TLCGet(1) = Len(Trace) + 1
=============================================================================
