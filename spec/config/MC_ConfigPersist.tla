---- MODULE MC_ConfigPersist ----
EXTENDS ConfigPersist
ValidMap == [s \in Sections |-> {"v1", "v2"}]
InvalidMap == [s \in Sections |-> {"i1"}]
SimValid == [s \in Sections |-> CASE s = "schedule" -> {"v1", "v2", "v3", "v4", "v5", "v6"} [] s = "replication" -> {"v1", "v2", "v3", "v4"}
                                  [] s = "pdserver" -> {"v1", "v2"} [] s = "version" -> {"v1", "v2"} [] OTHER -> {"v1", "v2"}]
SimInvalid == [s \in Sections |-> CASE s = "schedule" -> {"i1", "i2", "i3", "i4", "i5", "i6", "i7", "i8"} [] s = "replication" -> {"i1"}
                                    [] s = "pdserver" -> {"i1"} [] s = "version" -> {"i1"} [] OTHER -> {"i1"}]
====
