SPECIFICATION Spec
CONSTANTS Sections = {"schedule", "replication", "pdserver", "version", "replmode"}
  Valid <- SimValid
  Invalid <- SimInvalid
  Labels = {"l1", "l2", "l3"}
  MaxOps = 30
  MaxFail = 30
CHECK_DEADLOCK FALSE
