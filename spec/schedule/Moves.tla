---------------------------------- MODULE Moves ----------------------------------
(* C11: what an operator of region scatter or of a built-in scheduler may do to a region.       *)
(* Every recorded operator (stores as the filters see them, the region's peers and leader, the  *)
(* steps) is executed on the region model of Steps.tla (C08) and judged by TLC.                 *)
EXTENDS Steps

StoreRec(e, s) == CHOOSE st \in ToSet(e.stores) : st.id = s
Known(e, s) == \E st \in ToSet(e.stores) : st.id = s
OriginStores(e) == {e.origin[i][1] : i \in 1..Len(e.origin)}
CountRole(ps, roles) == Cardinality({s \in DOMAIN ps : ps[s].role \in roles})
AddSteps(e) == {i \in 1..Len(e.steps) : e.steps[i].k \in {"AddPeer", "AddLightPeer", "AddLearner", "AddLightLearner"}}
RemoveSteps(e) == {i \in 1..Len(e.steps) : e.steps[i].k = "RemovePeer"}
LeaderSteps(e) == {i \in 1..Len(e.steps) : e.steps[i].k = "TransferLeader"}
UpStore(e, s) == Known(e, s) /\ LET st == StoreRec(e, s) IN st.state = "Up" /\ ~st.down
(* a store whose leader transfers are paused (evict-leader / grant-leader at work on it) takes no leader, except from the *)
(* grant-leader scheduler that paused it itself                                                                          *)
AcceptsLeader(e, s) == UpStore(e, s) /\ ~StoreRec(e, s).reject /\ (~StoreRec(e, s).paused \/ e.src = "grant-leader")

Verdict11(e) ==
  LET r0 == RegionOf(e.origin, e.leader)
      out == Run(r0, e.steps, 1, 0, {})
      rf == out[1]
  IN (out[2] \cap {"OnePeerPerStore", "TransferTargetLegal", "LeaderIsAVoterPeer"})
     \cup (IF CountRole(rf.peers, {"Voter"}) = CountRole(r0.peers, {"Voter"}) /\ CountRole(rf.peers, {"Learner"}) = CountRole(r0.peers, {"Learner"})
              /\ ~InJoint(rf) THEN {} ELSE {"SamePeersOfEachRole"})
     \cup (IF \E i \in AddSteps(e) : ~UpStore(e, e.steps[i].store) THEN {"PeersMoveOnlyToUpStores"} ELSE {})
     \cup (IF \E i \in AddSteps(e) : e.steps[i].store \in OriginStores(e) THEN {"PeersMoveOnlyToStoresWithoutThisRegion"} ELSE {})
     \cup (IF \E i \in LeaderSteps(e) : ~AcceptsLeader(e, e.steps[i].to)
           THEN (IF \A i \in LeaderSteps(e) : AcceptsLeader(e, e.steps[i].to) \/ e.steps[i].to = e.leader
                 THEN {"LeadersMoveOnlyToAcceptingStores_BackToOriginLeaderStore"}     \* the leader is moved away and handed back
                 ELSE {"LeadersMoveOnlyToAcceptingStores"})
           ELSE {})
     \cup (IF (\E i \in LeaderSteps(e) : e.steps[i].from = e.steps[i].to)
              \/ (\E i \in AddSteps(e), j \in RemoveSteps(e) : e.steps[i].store = e.steps[j].store)
           THEN {"SourceAndTargetDiffer"} ELSE {})

MConsume == /\ l <= Len(Trace) /\ l' = l + 1
            /\ LET e == Trace[l] IN
                 IF e.ev # "move" THEN bad' = bad
                 ELSE bad' = bad \cup {<<e.n, c, l>> : c \in Verdict11(e)}
MSpec == Init /\ [][MConsume]_vars
=============================================================================
