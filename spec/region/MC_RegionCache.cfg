SPECIFICATION Spec
CONSTANTS Inf = 3
  EnumHB = FALSE
  Ids = {1, 2, 3}
  Handlers = {"p", "q"}
  MaxTruth = 3
  MaxDeliver = 4
  Restarts = FALSE
INVARIANTS NoOverlap NoRegress SequentialStorageEqualsCache ServedNotAheadOfTruth
VIEW View
CHECK_DEADLOCK FALSE
