SPECIFICATION Spec
CONSTANTS MaxKey = 2
  Ids = {1, 2, 3}
  Stores = {1, 2}
  Sizes = {1}
INVARIANTS NoOverlap SearchUnique CountsConsistent
CHECK_DEADLOCK FALSE
