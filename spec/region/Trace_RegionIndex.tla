-------------------------- MODULE Trace_RegionIndex --------------------------
(* Validates recordings of the real core.RegionsInfo against RegionIndex.tla: `set`/`remove`  *)
(* events drive the model, `q` events carry the answers of the real lookups and statistics,   *)
(* which must equal the linear-scan definitions.  The model is the property (C07), so a       *)
(* mismatch is a violation.  Never stops: mismatches are accumulated.                         *)
EXTENDS RegionIndex, Json
Trace == ndJsonDeserialize("trace.ndjson")
VARIABLES l, tr, bad
tvars == <<regs, l, tr, bad>>
TInit == regs = <<>> /\ l = 1 /\ tr = 0 /\ bad = {} /\ TLCSet(1, 0) /\ TLCSet(2, {})

ToSet(q) == {q[i] : i \in 1..Len(q)}
Rec(e) == [s |-> e.s, e |-> e.e, ld |-> e.ld, vot |-> ToSet(e.vot), lrn |-> ToSet(e.lrn), pen |-> ToSet(e.pen), size |-> e.size]

(* one answer record: [k |-> kind, a |-> args, v |-> value]; returns the clause name if it disagrees *)
Check(q) ==
  CASE q.k = "search"     -> Search(q.a[1]) = q.v
    [] q.k = "prev"       -> SearchPrev(q.a[1]) = q.v
    [] q.k = "scan"       -> Scan(q.a[1], q.a[2], q.a[3]) = q.v
    [] q.k = "overlaps"   -> Overlaps(q.a[1], q.a[2]) = q.v
    [] q.k = "adj"        -> (q.a[1] \in Dom) => <<AdjPrev(q.a[1]), AdjNext(q.a[1])>> = q.v
    [] q.k = "count"      -> Cardinality(Dom) = q.v[1] /\ Cardinality(Dom) = q.v[2]      \* cached regions, indexed regions
    [] q.k = "leaders"    -> Cardinality(Leaders(q.a[1])) = q.v[1] /\ SumSize(Leaders(q.a[1])) = q.v[2]
    [] q.k = "followers"  -> Cardinality(Followers(q.a[1])) = q.v[1] /\ SumSize(Followers(q.a[1])) = q.v[2]
    [] q.k = "learners"   -> Cardinality(Learners(q.a[1])) = q.v[1] /\ SumSize(Learners(q.a[1])) = q.v[2]
    [] q.k = "pending"    -> Cardinality(Pendings(q.a[1])) = q.v[1]
    [] q.k = "storeregions" -> Cardinality(Leaders(q.a[1]) \cup Followers(q.a[1]) \cup Learners(q.a[1])) = q.v[1]
                               /\ SumSize(Leaders(q.a[1]) \cup Followers(q.a[1]) \cup Learners(q.a[1])) = q.v[2]
    \* random picks: every region returned must be a candidate (a[1] store, a[2] role, a[3] s, a[4] e)
    [] q.k = "rand"       -> ToSet(q.v) \subseteq Within(CASE q.a[2] = "leader" -> Leaders(q.a[1]) [] q.a[2] = "follower" -> Followers(q.a[1])
                                                         [] q.a[2] = "learner" -> Learners(q.a[1]) [] OTHER -> Pendings(q.a[1]), q.a[3], q.a[4])
    [] OTHER -> FALSE

Consume ==
  /\ l <= Len(Trace) /\ l' = l + 1
  /\ LET e == Trace[l] IN
     CASE e.ev = "reset"  -> regs' = <<>> /\ tr' = e.beh /\ bad' = bad
       [] e.ev = "set"    -> regs' = SetR(e.id, Rec(e)) /\ tr' = tr /\ bad' = bad
       [] e.ev = "remove" -> regs' = RemoveR(e.id) /\ tr' = tr /\ bad' = bad
       [] e.ev = "q"      -> /\ regs' = regs /\ tr' = tr
                             /\ bad' = bad \cup {<<tr, e.qs[i].k, l>> : i \in {j \in 1..Len(e.qs) : ~Check(e.qs[j])}}
       [] OTHER -> UNCHANGED <<regs, tr, bad>>
TSpec == TInit /\ [][Consume]_tvars
HW == IF l > TLCGet(1) THEN TLCSet(1, l) /\ TLCSet(2, bad) ELSE TRUE
AllConsumed == PrintT(<<"HW", TLCGet(1)>>) /\ PrintT(<<"BAD", TLCGet(2)>>) /\ TLCGet(1) = Len(Trace) + 1
=============================================================================
