----------------------------- MODULE RegionIndex -----------------------------
(* server/core/region.go RegionsInfo + region_tree.go + pkg/btree: the cached region set    *)
(* and every lookup / statistic defined by LINEAR SCAN over that set (the reference the      *)
(* B-tree index and the per-store sub-trees must agree with).                                *)
(* Keys are integers 0..MaxKey; end key Inf (= MaxKey+1) is the unbounded end ("").         *)
EXTENDS Integers, FiniteSets, Sequences, TLC

CONSTANTS MaxKey, Ids, Stores, Sizes
Inf == MaxKey + 1

VARIABLES regs      \* id -> [s, e, ld, vot, lrn, pen, size]   (ld: leader store; vot/lrn/pen: sets of stores)
vars == <<regs>>

Dom == DOMAIN regs
Overl(a, b) == a.s < b.e /\ b.s < a.e
Contains(r, k) == r.s <= k /\ k < r.e

(* SetRegion: the new region replaces the one with its id and displaces every overlapping region *)
SetR(id, r) ==
  LET keep == {x \in Dom : x # id /\ ~Overl(regs[x], r)} IN
    [x \in keep \cup {id} |-> IF x = id THEN r ELSE regs[x]]
RemoveR(id) == [x \in Dom \ {id} |-> regs[x]]

----------------------------------------------------------------------------
(* queries, by linear scan; 0 = no region *)
Search(k) == IF \E x \in Dom : Contains(regs[x], k) THEN CHOOSE x \in Dom : Contains(regs[x], k) ELSE 0
(* the region that ends exactly where the region containing k starts *)
SearchPrev(k) ==
  LET c == Search(k) IN
    IF c = 0 THEN 0
    ELSE IF \E x \in Dom : regs[x].e = regs[c].s THEN CHOOSE x \in Dom : regs[x].e = regs[c].s ELSE 0
(* regions in start-key order *)
RECURSIVE SortIds(_)
SortIds(S) == IF S = {} THEN <<>>
              ELSE LET m == CHOOSE x \in S : \A y \in S : regs[x].s <= regs[y].s IN <<m>> \o SortIds(S \ {m})
(* ScanRange(s, e, limit): from the region containing s (or the first one behind s) while start < e; limit 0 = none *)
Scan(s, e, limit) ==
  LET S == {x \in Dom : regs[x].e > s /\ regs[x].s < e}
      all == SortIds(S) IN
    IF limit > 0 /\ Len(all) > limit THEN SubSeq(all, 1, limit) ELSE all
Overlaps(s, e) == SortIds({x \in Dom : regs[x].s < e /\ s < regs[x].e})
AdjPrev(id) == IF \E x \in Dom : regs[x].e = regs[id].s THEN CHOOSE x \in Dom : regs[x].e = regs[id].s ELSE 0
AdjNext(id) == IF \E x \in Dom : regs[x].s = regs[id].e THEN CHOOSE x \in Dom : regs[x].s = regs[id].e ELSE 0

Leaders(st)   == {x \in Dom : regs[x].ld = st}
Followers(st) == {x \in Dom : st \in regs[x].vot /\ regs[x].ld # st}
Learners(st)  == {x \in Dom : st \in regs[x].lrn}
Pendings(st)  == {x \in Dom : st \in regs[x].pen}
RECURSIVE SumSize(_)
SumSize(S) == IF S = {} THEN 0 ELSE LET x == CHOOSE y \in S : TRUE IN regs[x].size + SumSize(S \ {x})
(* candidates of a random pick of `role` on store st inside the key range [s, e): regions wholly inside *)
Within(S, s, e) == {x \in S : regs[x].s >= s /\ regs[x].e <= e}

----------------------------------------------------------------------------
(* a small exhaustive model of the set itself *)
Regions == [s : 0..MaxKey, e : 1..Inf, ld : Stores, vot : SUBSET Stores, lrn : SUBSET Stores, pen : SUBSET Stores, size : Sizes]
WellFormed(r) == r.s < r.e /\ r.ld \in r.vot /\ r.vot \cap r.lrn = {} /\ r.pen \subseteq (r.vot \cup r.lrn) /\ Cardinality(r.vot \cup r.lrn) <= 2
Init == regs = <<>>
Set(id, r) == WellFormed(r) /\ regs' = SetR(id, r)
Remove(id) == id \in Dom /\ regs' = RemoveR(id)
Next == (\E id \in Ids, r \in Regions : Set(id, r)) \/ (\E id \in Ids : Remove(id))
Spec == Init /\ [][Next]_vars

NoOverlap == \A a, b \in Dom : a # b => ~Overl(regs[a], regs[b])
SearchUnique == \A k \in 0..MaxKey : Cardinality({x \in Dom : Contains(regs[x], k)}) <= 1
CountsConsistent == \A st \in Stores : Cardinality(Leaders(st)) + Cardinality(Followers(st)) = Cardinality({x \in Dom : st \in regs[x].vot})
=============================================================================
