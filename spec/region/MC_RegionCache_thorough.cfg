SPECIFICATION Spec
CONSTANTS Inf = 3
  EnumHB = FALSE
  Ids = {1, 2, 3}
  Handlers = {"p", "q"}
  MaxTruth = 4
  MaxDeliver = 5
  Restarts = FALSE
INVARIANTS NoOverlap NoRegress SequentialStorageEqualsCache ServedNotAheadOfTruth
VIEW View
CHECK_DEADLOCK FALSE
