SPECIFICATION Spec
CONSTANTS Inf = 3
  EnumHB = FALSE
  Ids = {1, 2, 3}
  Handlers = {"p"}
  MaxTruth = 3
  MaxDeliver = 6
  Restarts = TRUE
INVARIANTS NoOverlap NoRegress SequentialStorageEqualsCache ServedNotAheadOfTruth
VIEW View
CHECK_DEADLOCK FALSE
