--------------------------- MODULE Mon_RegionCache ---------------------------
(* Property monitor for C06 over recordings of the real processRegionHeartbeat.              *)
(* Observables: the heartbeat handed to the handler, its answer (ok / stale error / nothing   *)
(* to do), the served region set after every step (GetRegions) and, at the end of a           *)
(* sequential history, the regions loaded back from storage after a flush.                    *)
(* A region is <<id, s, e, ver, conf, term>>.                                                 *)
EXTENDS Integers, Sequences, FiniteSets, TLC, Json
Trace == ndJsonDeserialize("trace.ndjson")
VARIABLES l, tr, prev, bad
vars == <<l, tr, prev, bad>>
Init == l = 1 /\ tr = 0 /\ prev = {} /\ bad = {} /\ TLCSet(1, 0) /\ TLCSet(2, {})

ToSet(q) == {q[i] : i \in 1..Len(q)}
Overl(a, b) == a[2] < b[3] /\ b[2] < a[3]
ById(S, id) == {x \in S : x[1] = id}
(* staleness of heartbeat h against the served set S, as the property states it *)
Stale(S, h) ==
  \/ \E o \in ById(S, h[1]) : h[4] < o[4] \/ h[5] < o[5] \/ (h[6] > 0 /\ h[6] < o[6])
  \/ \E x \in S : x[1] # h[1] /\ Overl(x, h) /\ h[4] < x[4]

Consume ==
  /\ l <= Len(Trace) /\ l' = l + 1
  /\ LET e == Trace[l] IN
     IF e.ev = "reset" THEN tr' = e.beh /\ prev' = ToSet(e.cache) /\ bad' = bad
     ELSE
       LET c == ToSet(e.cache)
           completes == (e.ev = "PreCheck" /\ e.res \in {"stale", "noop"}) \/ e.ev = "Commit"
           h == e.h
           b1 == IF \E a, b \in c : a # b /\ Overl(a, b) THEN {<<tr, "NoOverlap", l>>} ELSE {}
           b2 == IF \E n \in c : \E o \in ById(prev, n[1]) : n[4] < o[4] \/ n[5] < o[5] \/ (n[6] > 0 /\ n[6] < o[6])
                   THEN {<<tr, "NoRegress", l>>} ELSE {}
           b3 == IF completes /\ e.res = "stale" /\ c # prev THEN {<<tr, "StaleChangesNothing", l>>} ELSE {}
           b4 == IF completes /\ Stale(prev, h) /\ (e.res # "stale" \/ c # prev) THEN {<<tr, "StaleIsRefused", l>>} ELSE {}
           \* nothing disappears from the served set except regions displaced by the accepted heartbeat
           b5 == IF \E o \in prev : ById(c, o[1]) = {} /\ ~(completes /\ e.res = "ok" /\ Overl(o, h)) /\ ~(completes /\ e.res = "noop")
                   THEN {<<tr, "OnlyDisplacedDisappear", l>>} ELSE {}
           \* a parked PreCheck and ground-truth steps change nothing
           \* (a restart loads the served set back from storage: same regions, no terms)
           b6 == IF ~completes /\ e.ev \notin {"end", "Restart"} /\ c # prev THEN {<<tr, "ChangedWithoutHeartbeat", l>>} ELSE {}
           b8 == IF e.ev = "Restart" /\ {<<x[1], x[2], x[3], x[4], x[5]>> : x \in c} # {<<x[1], x[2], x[3], x[4], x[5]>> : x \in prev}
                   THEN {<<tr, "RestartServesWhatWasServed", l>>} ELSE {}
           meta(S) == {<<x[1], x[2], x[3], x[4], x[5]>> : x \in S}
           b7 == IF e.ev = "end" /\ ~e.concurrent /\ meta(ToSet(e.stored)) # meta(c) THEN {<<tr, "SequentialStorageEqualsCache", l>>} ELSE {}
       IN tr' = tr /\ prev' = c /\ bad' = bad \cup b1 \cup b2 \cup b3 \cup b4 \cup b5 \cup b6 \cup b7 \cup b8
Spec == Init /\ [][Consume]_vars
HW == IF l > TLCGet(1) THEN TLCSet(1, l) /\ TLCSet(2, bad) ELSE TRUE
AllConsumed == PrintT(<<"HW", TLCGet(1)>>) /\ PrintT(<<"BAD", TLCGet(2)>>) /\ TLCGet(1) = Len(Trace) + 1
=============================================================================
