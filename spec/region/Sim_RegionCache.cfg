SPECIFICATION Spec
CONSTANTS Inf = 7
  EnumHB = FALSE
  Ids = {1, 2, 3, 4, 5, 6, 7}
  Handlers = {"p", "q", "r"}
  MaxTruth = 10
  MaxDeliver = 18
  Restarts = FALSE
CHECK_DEADLOCK FALSE
