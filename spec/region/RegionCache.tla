----------------------------- MODULE RegionCache -----------------------------
(* server/cluster/cluster.go processRegionHeartbeat + core.BasicCluster.PreCheckPutRegion:   *)
(* a ground-truth history of splits / merges / conf changes / leader (term) changes emits     *)
(* heartbeats into a bag; any heartbeat in the bag may be delivered at any time, any number    *)
(* of times (delay, duplication, reordering), to one of several concurrent handlers.          *)
(* A handler is: PreCheck (no cluster lock) -> Commit (re-check + put under the cluster lock)  *)
(* -> StoreOps (delete displaced regions from storage, save the region; after the lock).       *)
EXTENDS Integers, FiniteSets, TLC

CONSTANTS EnumHB,       \* TRUE: enumerate heartbeats from a constant universe (keeps TLC's action labels)
          Inf,          \* keys 0..Inf-1, Inf = unbounded end
          Ids, Handlers, MaxTruth, MaxDeliver,
          Restarts      \* TRUE: PD may restart (the cluster is loaded back from storage: no leaders, no terms)

None == [id |-> 0]
VARIABLES truth, used, bag,       \* ground truth: id -> [s,e,ver,conf,term]; ids ever used; heartbeats emitted
          cache, store,           \* what PD serves / what PD has persisted: id -> heartbeat record / meta record
          hpc, hh, horg,          \* per handler: "idle"|"checked"|"committed"; heartbeat; origin seen by the first check
          hdel,                   \* per handler: regions displaced by its commit (to delete from storage)
          best,                   \* ghost: id -> last epoch served for that id (survives displacement)
          conc,                   \* ghost: two handlers have been in flight at the same time
          last,                   \* ghost: <<handler, heartbeat>> of the most recent delivery (for replay)
          nT, nD, ok
vars == <<truth, used, bag, cache, store, hpc, hh, horg, hdel, best, conc, last, nT, nD, ok>>

Overl(a, b) == a.s < b.e /\ b.s < a.e
HB(id, r) == [id |-> id, s |-> r.s, e |-> r.e, ver |-> r.ver, conf |-> r.conf, term |-> r.term]
Meta(h) == [s |-> h.s, e |-> h.e, ver |-> h.ver, conf |-> h.conf]
Put(f, k, v) == [x \in DOMAIN f \cup {k} |-> IF x = k THEN v ELSE f[x]]
Drop(f, S) == [x \in DOMAIN f \ S |-> f[x]]

Init == /\ truth = (1 :> [s |-> 0, e |-> Inf, ver |-> 1, conf |-> 1, term |-> 1]) /\ used = {1}
        /\ bag = {HB(1, truth[1])}
        /\ cache = <<>> /\ store = <<>>
        /\ hpc = [p \in Handlers |-> "idle"] /\ hh = [p \in Handlers |-> None] /\ horg = [p \in Handlers |-> None]
        /\ hdel = [p \in Handlers |-> {}]
        /\ best = <<>> /\ conc = FALSE /\ last = <<>> /\ nT = 0 /\ nD = 0 /\ ok = TRUE

----------------------------------------------------------------------------
(* ground truth (TiKV side) *)
Emit(S) == bag' = bag \cup S
Split(id, k, new) ==
  /\ nT < MaxTruth /\ id \in DOMAIN truth /\ new \notin used /\ truth[id].s < k /\ k < truth[id].e
  /\ LET r == truth[id]
         right == [r EXCEPT !.s = k, !.ver = r.ver + 1]
         left  == [s |-> r.s, e |-> k, ver |-> r.ver + 1, conf |-> r.conf, term |-> 1]
     IN truth' = Put(Put(truth, id, right), new, left) /\ Emit({HB(id, right), HB(new, left)})
  /\ used' = used \cup {new} /\ nT' = nT + 1
  /\ UNCHANGED <<cache, store, hpc, hh, horg, hdel, best, conc, last, nD, ok>>
Merge(src, tgt) ==
  /\ nT < MaxTruth /\ src \in DOMAIN truth /\ tgt \in DOMAIN truth /\ src # tgt
  /\ (truth[src].e = truth[tgt].s \/ truth[tgt].e = truth[src].s)
  /\ LET a == truth[src]  b == truth[tgt]
         m == [b EXCEPT !.s = IF a.s < b.s THEN a.s ELSE b.s, !.e = IF a.e > b.e THEN a.e ELSE b.e,
                        !.ver = (IF a.ver > b.ver THEN a.ver ELSE b.ver) + 1]
     IN truth' = Put(Drop(truth, {src}), tgt, m) /\ Emit({HB(tgt, m)})
  /\ nT' = nT + 1 /\ UNCHANGED <<used, cache, store, hpc, hh, horg, hdel, best, conc, last, nD, ok>>
ConfChange(id) ==
  /\ nT < MaxTruth /\ id \in DOMAIN truth
  /\ LET r == [truth[id] EXCEPT !.conf = @ + 1] IN truth' = Put(truth, id, r) /\ Emit({HB(id, r)})
  /\ nT' = nT + 1 /\ UNCHANGED <<used, cache, store, hpc, hh, horg, hdel, best, conc, last, nD, ok>>
LeaderChange(id) ==
  /\ nT < MaxTruth /\ id \in DOMAIN truth
  /\ LET r == [truth[id] EXCEPT !.term = @ + 1] IN truth' = Put(truth, id, r) /\ Emit({HB(id, r)})
  /\ nT' = nT + 1 /\ UNCHANGED <<used, cache, store, hpc, hh, horg, hdel, best, conc, last, nD, ok>>

(* a deposed leader (one term behind) that has applied the region's latest epoch reports it: newer epoch, older term *)
DeposedReport(id) ==
  /\ nT < MaxTruth /\ id \in DOMAIN truth /\ truth[id].term > 1
  /\ Emit({HB(id, [truth[id] EXCEPT !.term = @ - 1])})
  /\ nT' = nT + 1 /\ UNCHANGED <<truth, used, cache, store, hpc, hh, horg, hdel, best, conc, last, nD, ok>>

----------------------------------------------------------------------------
(* PD side *)
Origin(c, h) == IF h.id \in DOMAIN c THEN c[h.id] ELSE None
RangeSame(o, h) == o.s = h.s /\ o.e = h.e
(* PreCheckPutRegion *)
Stale(c, h) ==
  LET o == Origin(c, h)
      ovs == IF o = None \/ ~RangeSame(o, h) THEN {x \in DOMAIN c : Overl(c[x], h)} ELSE {}
  IN \/ \E x \in ovs : h.ver < c[x].ver
     \/ o # None /\ ((h.term > 0 /\ h.term < o.term) \/ h.ver < o.ver \/ h.conf < o.conf)
(* what processRegionHeartbeat decides from the origin of its FIRST check *)
SaveKV(o, h)    == o = None \/ h.ver > o.ver \/ h.conf > o.conf
\* a term change alone is invisible to PD; it shows through the leader peer. The binding gives every region
\* three voters and makes the peer with index (term mod 3) the leader.
Leader(h) == h.term % 3
SaveCache(o, h) == SaveKV(o, h) \/ o.term = 0 \/ Leader(h) # Leader(o)       \* term 0: loaded from storage, no leader known

PreCheck(p, h) ==
  /\ hpc[p] = "idle" /\ h \in bag /\ nD < MaxDeliver /\ nD' = nD + 1
  /\ conc' = (conc \/ \E q \in Handlers : q # p /\ hpc[q] # "idle")
  /\ IF Stale(cache, h) \/ ~SaveCache(Origin(cache, h), h)
       THEN UNCHANGED <<hpc, hh, horg>>                       \* answered (stale error / nothing to do); nothing changes
       ELSE hpc' = [hpc EXCEPT ![p] = "checked"] /\ hh' = [hh EXCEPT ![p] = h] /\ horg' = [horg EXCEPT ![p] = Origin(cache, h)]
  /\ last' = <<p, h>>
  /\ UNCHANGED <<truth, used, bag, cache, store, hdel, best, nT, ok>>

GE(a, b) == a.ver >= b.ver /\ a.conf >= b.conf /\ (a.term = 0 \/ a.term >= b.term)
Commit(p) ==
  /\ hpc[p] = "checked"
  /\ LET h == hh[p] IN
     IF Stale(cache, h)
       THEN /\ hpc' = [hpc EXCEPT ![p] = "idle"] /\ UNCHANGED <<cache, hdel, best, ok>>
       ELSE LET ovs == {x \in DOMAIN cache : x # h.id /\ Overl(cache[x], h)} IN
            /\ cache' = Put(Drop(cache, ovs), h.id, h)
            /\ hdel' = [hdel EXCEPT ![p] = ovs]
            /\ hpc' = [hpc EXCEPT ![p] = "committed"]
            \* C06: what is served for this id does not go back, and nothing newer is displaced.
            \* (Reading: relative to the region of the same id that is being served and to the served regions it
            \* overlaps; once an id has been displaced from the cache PD keeps no memory of its epoch.)
            /\ ok' = (ok /\ (h.id \in DOMAIN cache => GE(h, cache[h.id])) /\ \A x \in ovs : h.ver >= cache[x].ver)
            /\ best' = Put(best, h.id, h)
  /\ UNCHANGED <<truth, used, bag, store, hh, horg, conc, last, nT, nD>>

StoreOps(p) ==
  /\ hpc[p] = "committed"
  /\ store' = LET d == Drop(store, hdel[p]) IN
                IF SaveKV(horg[p], hh[p]) THEN Put(d, hh[p].id, Meta(hh[p])) ELSE d
  /\ hpc' = [hpc EXCEPT ![p] = "idle"]
  /\ UNCHANGED <<truth, used, bag, cache, hh, horg, hdel, best, conc, last, nT, nD, ok>>

(* PD restarts (or another member takes over) while heartbeats are handled one at a time: what is served is what was  *)
(* persisted, without leaders and terms, until the regions report again                                                *)
Restart ==
  /\ Restarts /\ ~conc /\ nD >= 3 /\ \A p \in Handlers : hpc[p] = "idle"
  /\ cache # <<>> /\ \A i \in DOMAIN cache : cache[i].term # 0
  /\ cache' = [i \in DOMAIN store |-> [id |-> i, s |-> store[i].s, e |-> store[i].e, ver |-> store[i].ver, conf |-> store[i].conf, term |-> 0]]
  /\ last' = <<"restart", None>>
  /\ UNCHANGED <<truth, used, bag, store, hpc, hh, horg, hdel, best, conc, nT, nD, ok>>

MaxE == MaxTruth + 1
HBs == [id : Ids, s : 0..(Inf - 1), e : 1..Inf, ver : 1..(MaxE + 1), conf : 1..MaxE, term : 1..MaxE]
Next == \/ \E id \in Ids, k \in 1..(Inf - 1), new \in Ids : Split(id, k, new)
        \/ \E a, b \in Ids : Merge(a, b)
        \/ \E id \in Ids : ConfChange(id)
        \/ \E id \in Ids : LeaderChange(id)
        \/ \E id \in Ids : DeposedReport(id)
        \/ \E p \in Handlers, h \in (IF EnumHB THEN HBs ELSE bag) : PreCheck(p, h)
        \/ \E p \in Handlers : Commit(p)
        \/ \E p \in Handlers : StoreOps(p)
        \/ Restart
Spec == Init /\ [][Next]_vars
(* the same system without splits and merges: simulation then concentrates on epochs and terms of one region *)
NextTerms == \/ \E id \in Ids : ConfChange(id)
             \/ \E id \in Ids : LeaderChange(id)
             \/ \E id \in Ids : DeposedReport(id)
             \/ \E p \in Handlers, h \in (IF EnumHB THEN HBs ELSE bag) : PreCheck(p, h)
             \/ \E p \in Handlers : Commit(p)
             \/ \E p \in Handlers : StoreOps(p)
SpecTerms == Init /\ [][NextTerms]_vars

----------------------------------------------------------------------------
NoOverlap == \A a, b \in DOMAIN cache : a # b => ~Overl(cache[a], cache[b])
NoRegress == ok
(* whenever heartbeats have been handled one at a time, storage and cache describe the same regions *)
SequentialStorageEqualsCache ==
  (~conc /\ \A p \in Handlers : hpc[p] = "idle") => (DOMAIN store = DOMAIN cache /\ \A x \in DOMAIN cache : store[x] = Meta(cache[x]))
(* what is served never gets ahead of the truth *)
View == <<truth, used, bag, cache, store, hpc, hh, horg, hdel, conc, nT, nD, ok>>
ServedNotAheadOfTruth == \A x \in DOMAIN cache : x \in DOMAIN truth => truth[x].ver >= cache[x].ver /\ truth[x].conf >= cache[x].conf
=============================================================================
