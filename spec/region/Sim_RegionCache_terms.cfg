SPECIFICATION SpecTerms
CONSTANTS Inf = 7
  EnumHB = FALSE
  Ids = {1}
  Handlers = {"p", "q"}
  MaxTruth = 8
  MaxDeliver = 14
  Restarts = FALSE
CHECK_DEADLOCK FALSE
