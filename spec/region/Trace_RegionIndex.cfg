SPECIFICATION TSpec
CONSTANTS MaxKey = 1000000
  Ids = {1}
  Stores = {1}
  Sizes = {1}
CONSTRAINT HW
POSTCONDITION AllConsumed
CHECK_DEADLOCK FALSE
