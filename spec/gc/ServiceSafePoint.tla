-------------------------- MODULE ServiceSafePoint --------------------------
(* server/grpc_service.go UpdateServiceGCSafePoint + core.Storage service safe points.     *)
(* Serialised by serviceSafePointLock, hence sequential. Time is a tick counter; a          *)
(* registration with ttl j is alive while fewer than j+1 ticks have passed (the binding      *)
(* uses TTL = 300 + 1000 j seconds and moves the TSO clock forward by 1000 s per tick).      *)
EXTENDS Integers, FiniteSets, TLC

CONSTANTS Svc, MaxSp, MaxTtl, MaxTick, MaxOps
GC == "gc_worker"
Inf == 1000000

VARIABLES reg,      \* recorded registrations: service -> [sp, until]  (until = last tick it is alive, Inf = unlimited)
          tick, ops,
          lastMin,  \* the minimum reported by the last call: [svc, sp]
          ok

vars == <<reg, tick, ops, lastMin, ok>>
All == Svc \cup {GC}

Init == reg = <<>> /\ tick = 0 /\ ops = 0 /\ lastMin = [svc |-> GC, sp |-> 0] /\ ok = TRUE

Alive(r, t) == {s \in DOMAIN r : r[s].until >= t}
Put(r, s, v) == [x \in DOMAIN r \cup {s} |-> IF x = s THEN v ELSE r[x]]
Drop(r, S) == [x \in DOMAIN r \ S |-> r[x]]
MinSp(r) == CHOOSE m \in {r[s].sp : s \in DOMAIN r} : \A s \in DOMAIN r : r[s].sp >= m

(* LoadMinServiceGCSafePoint: prune expired entries, make sure gc_worker exists *)
Prune(r, t) ==
  LET live == Drop(r, DOMAIN r \ Alive(r, t)) IN
    IF DOMAIN r = {} THEN Put(<<>>, GC, [sp |-> 0, until |-> Inf])
    ELSE IF DOMAIN live = {} THEN Put(live, GC, [sp |-> 0, until |-> Inf])
    ELSE IF GC \notin DOMAIN r THEN Put(live, GC, [sp |-> MinSp(live), until |-> Inf])
    ELSE live

(* a call: service s, safe point sp, ttl j (j < 0: remove) *)
Update(s, sp, j) ==
  /\ ops < MaxOps /\ ops' = ops + 1
  /\ ~(s = GC /\ j < 0)    \* removing gc_worker is refused before anything else happens (error, no state change)
  /\ LET r0 == IF j < 0 THEN Drop(reg, {s}) ELSE reg
         r1 == Prune(r0, tick)
         m  == MinSp(r1)
         accepted == j >= 0 /\ sp >= m /\ (s = GC => j = MaxTtl + 1)
         r2 == IF accepted THEN Put(r1, s, [sp |-> sp, until |-> IF s = GC THEN Inf ELSE tick + j]) ELSE r1
         r3 == r2
     IN /\ reg' = r3
        /\ lastMin' = [svc |-> "?", sp |-> MinSp(r3)]
        /\ ok' = (ok /\ \A x \in Alive(r3, tick) : MinSp(r3) <= r3[x].sp)
  /\ UNCHANGED tick

(* the administrator's removal (HTTP DELETE /gc/safepoint/{service}): the storage-level removal, no pruning; the garbage
   collector's own entry cannot be removed this way either *)
Delete(s) ==
  /\ ops < MaxOps /\ ops' = ops + 1 /\ GC \in DOMAIN reg
  /\ reg' = IF s = GC THEN reg ELSE Drop(reg, {s})
  /\ UNCHANGED <<tick, lastMin, ok>>

Tick == tick < MaxTick /\ tick' = tick + 1 /\ UNCHANGED <<reg, ops, lastMin, ok>>

Next == \/ \E s \in All, sp \in 0..MaxSp, j \in (-1)..(MaxTtl + 1) : Update(s, sp, j)
        \/ \E s \in All : Delete(s)
        \/ Tick
Spec == Init /\ [][Next]_vars

MinNotAboveLive == ok
GcWorkerThereUnlimited == ops > 0 => (GC \in DOMAIN reg /\ reg[GC].until = Inf)
NoExpiredAfterCall == [][ops' > ops => \A s \in DOMAIN reg' : reg'[s].until >= tick']_vars
=============================================================================
