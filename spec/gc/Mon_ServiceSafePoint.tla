------------------------ MODULE Mon_ServiceSafePoint ------------------------
(* Property monitor for C15 (service safe points) over recordings of the real handler       *)
(* UpdateServiceGCSafePoint; `all` is the list of stored registrations read back after each *)
(* call, exp = expiry second relative to the start of the run (-1 = unlimited).              *)
EXTENDS Integers, Sequences, FiniteSets, TLC, Json
Trace == ndJsonDeserialize("trace.ndjson")
VARIABLES l, prev, prevFillMin, viol
vars == <<l, prev, prevFillMin, viol>>
GC == "gc_worker"
Init == l = 1 /\ prev = <<>> /\ prevFillMin = -1 /\ viol = {} /\ TLCSet(1, 0)

Range(s) == {s[i] : i \in 1..Len(s)}
SetMin(S) == CHOOSE x \in S : \A y \in S : x <= y

Consume ==
  /\ l <= Len(Trace) /\ l' = l + 1
  /\ LET e == Trace[l] IN
     /\ prev' = e.all
     /\ prevFillMin' = IF e.fill_n > 0 THEN e.fill_min ELSE -1
     /\ IF e.ev = "Delete" THEN
          \* the administrator's removal: refused for the collector's own entry, which stays with unlimited lifetime
          viol' = viol \cup (IF ~\E x \in Range(e.all) : x.id = GC /\ x.exp = -1 THEN {"GcWorkerThereUnlimited"} ELSE {})
                       \cup (IF e.svc # GC /\ ~e.err /\ \E x \in Range(e.all) : x.id = e.svc THEN {"NonPositiveTtlGone"} ELSE {})
        ELSE IF e.ev # "Update" THEN viol' = viol
        ELSE
         LET now == Range(e.all)
             before == Range(prev)
             liveNow == {x \in now : x.exp = -1 \/ x.exp >= e.now_hi}
             \* live before the call, and not the service this call is about: still live, still registered
             keptLive == {x \in Range(prev) : (x.exp = -1 \/ x.exp >= e.now_hi) /\ x.id # e.svc}
             v1 == IF ~e.err /\ ((\E x \in liveNow \cup keptLive : e.min_sp > x.sp) \/ (e.fill_n > 0 /\ e.min_sp > e.fill_min))
                     THEN {"MinNotAboveLive"} ELSE {}
             \* the minimum before the call, when it is unambiguous
             ambiguous == \E x \in before : x.exp # -1 /\ x.exp >= e.now_lo /\ x.exp < e.now_hi
             liveBefore == {x \in before : x.exp = -1 \/ x.exp >= e.now_hi}
             sps == {x.sp : x \in liveBefore} \cup (IF prevFillMin >= 0 THEN {prevFillMin} ELSE {})
             hasGC == \E x \in before : x.id = GC
             v2 == IF ~ambiguous /\ hasGC /\ sps # {} /\ e.sp < SetMin(sps)
                      /\ \E x \in now : x.id = e.svc /\ x.sp = e.sp /\ x \notin before
                     THEN {"BelowMinNotRecorded"} ELSE {}
             v3 == IF ~e.err /\ ~\E x \in now : x.id = GC /\ x.exp = -1 THEN {"GcWorkerThereUnlimited"} ELSE {}
             v4 == IF ~e.err /\ \E x \in now : x.exp # -1 /\ x.exp < e.now_lo THEN {"ExpiredGone"} ELSE {}
             v5 == IF ~e.err /\ ~e.ttl_pos /\ e.svc # GC /\ \E x \in now : x.id = e.svc THEN {"NonPositiveTtlGone"} ELSE {}
         IN viol' = viol \cup v1 \cup v2 \cup v3 \cup v4 \cup v5
Spec == Init /\ [][Consume]_vars
HW == TLCSet(1, IF l > TLCGet(1) THEN l ELSE TLCGet(1))
AllConsumed == PrintT(<<"HW", TLCGet(1)>>) /\ TLCGet(1) = Len(Trace) + 1
MinNotAboveLive        == "MinNotAboveLive" \notin viol
BelowMinNotRecorded    == "BelowMinNotRecorded" \notin viol
GcWorkerThereUnlimited == "GcWorkerThereUnlimited" \notin viol
ExpiredGone            == "ExpiredGone" \notin viol
NonPositiveTtlGone     == "NonPositiveTtlGone" \notin viol
=============================================================================
