SPECIFICATION Spec
CONSTRAINT HW
INVARIANTS MinNotAboveLive BelowMinNotRecorded GcWorkerThereUnlimited ExpiredGone NonPositiveTtlGone
POSTCONDITION AllConsumed
CHECK_DEADLOCK FALSE
