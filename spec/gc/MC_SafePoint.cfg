SPECIFICATION Spec
CONSTANTS Client = {"a", "b", "c"}
  MaxVal = 3
  Locked = TRUE
  MaxCalls = 5
INVARIANTS ResponseNotBelowAcked StoredCoversAcked
PROPERTIES StoredMonotone
CHECK_DEADLOCK FALSE
