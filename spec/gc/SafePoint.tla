------------------------------ MODULE SafePoint ------------------------------
(* server/grpc_service.go UpdateGCSafePoint / GetGCSafePoint: the cluster GC safe point.    *)
(* One action per storage access of the handler: load, compare, (save), reply.            *)
(* Locked = TRUE models the handler holding a mutex from the load to the save (the         *)
(* repaired code); Locked = FALSE is the load-compare-save without mutual exclusion.      *)
EXTENDS Integers, FiniteSets, TLC

CONSTANTS Client, MaxVal, Locked, MaxCalls

VARIABLES stored,   \* gc/safe_point in storage
          pc,       \* per client: "idle" | "load" | "save" | "reply"
          req, old, \* per client: requested value, value loaded
          floor,    \* ghost per client: largest value acknowledged before the call began
          acked,    \* ghost: largest value acknowledged so far
          lock,     \* holder or "free"
          calls, ok

vars == <<stored, pc, req, old, floor, acked, lock, calls, ok>>
Max(a, b) == IF a > b THEN a ELSE b

Init == /\ stored = 0 /\ pc = [c \in Client |-> "idle"] /\ req = [c \in Client |-> 0]
        /\ old = [c \in Client |-> 0] /\ floor = [c \in Client |-> 0] /\ acked = 0
        /\ lock = "free" /\ calls = 0 /\ ok = TRUE

Start(c, v) == /\ pc[c] = "idle" /\ calls < MaxCalls
               /\ pc' = [pc EXCEPT ![c] = "load"] /\ req' = [req EXCEPT ![c] = v]
               /\ floor' = [floor EXCEPT ![c] = acked] /\ calls' = calls + 1
               /\ UNCHANGED <<stored, old, acked, lock, ok>>

(* req = -1 is GetGCSafePoint: a plain load, no mutex. A failed load returns the error. *)
Load(c, fails) ==
           /\ pc[c] = "load"
           /\ (Locked /\ req[c] >= 0) => lock = "free"
           /\ lock' = IF Locked /\ req[c] >= 0 /\ ~fails THEN c ELSE lock
           /\ old' = [old EXCEPT ![c] = IF fails THEN @ ELSE stored]
           /\ pc' = [pc EXCEPT ![c] = IF fails THEN "idle" ELSE IF req[c] > stored THEN "save" ELSE "reply"]
           /\ UNCHANGED <<stored, req, floor, acked, calls, ok>>

(* the save may fail (fails = TRUE): the handler returns the error, nothing is acknowledged *)
Save(c, fails) == /\ pc[c] = "save"
                  /\ stored' = IF fails THEN stored ELSE req[c]
                  /\ pc' = [pc EXCEPT ![c] = IF fails THEN "idle" ELSE "reply"]
                  /\ lock' = IF fails /\ lock = c THEN "free" ELSE lock
                  /\ UNCHANGED <<req, old, floor, acked, calls, ok>>

Reply(c) == /\ pc[c] = "reply"
            /\ LET r == Max(req[c], old[c]) IN
                 /\ acked' = Max(acked, r)
                 /\ ok' = (ok /\ r >= floor[c])
            /\ pc' = [pc EXCEPT ![c] = "idle"]
            /\ lock' = IF lock = c THEN "free" ELSE lock
            /\ UNCHANGED <<stored, req, old, floor, calls>>

Next == \/ \E c \in Client, v \in (-1)..MaxVal : Start(c, v)
        \/ \E c \in Client, f \in BOOLEAN : Load(c, f)
        \/ \E c \in Client, f \in BOOLEAN : Save(c, f)
        \/ \E c \in Client : Reply(c)
Spec == Init /\ [][Next]_vars

ResponseNotBelowAcked == ok
StoredMonotone == [][stored' >= stored]_vars
StoredCoversAcked == acked <= stored
=============================================================================
