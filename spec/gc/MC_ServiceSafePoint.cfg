SPECIFICATION Spec
CONSTANTS Svc = {"s1", "s2"}
  MaxSp = 2
  MaxTtl = 1
  MaxTick = 2
  MaxOps = 4
INVARIANTS MinNotAboveLive GcWorkerThereUnlimited
PROPERTIES NoExpiredAfterCall
CHECK_DEADLOCK FALSE
