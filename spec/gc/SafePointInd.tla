------------------------------ MODULE SafePointInd ------------------------------
(* Typed copy of SafePoint.tla (Locked = TRUE, no bound on the number of calls) for Apalache.    *)
(* IndInv is inductive; it implies that a reply is never below what was acknowledged before the    *)
(* call began and that storage covers everything acknowledged; StoredMonotoneAct holds for every   *)
(* step from a state satisfying IndInv.                                                           *)
EXTENDS Integers, FiniteSets

Client == {"a", "b", "c"}
MaxVal == 5

VARIABLES
  \* @type: Int;
  stored,
  \* @type: Str -> Str;
  pc,
  \* @type: Str -> Int;
  req,
  \* @type: Str -> Int;
  old,
  \* @type: Str -> Int;
  floor,
  \* @type: Int;
  acked,
  \* @type: Str;
  lock,
  \* @type: Bool;
  ok

Max(a, b) == IF a > b THEN a ELSE b

Init == /\ stored = 0 /\ pc = [c \in Client |-> "idle"] /\ req = [c \in Client |-> 0]
        /\ old = [c \in Client |-> 0] /\ floor = [c \in Client |-> 0] /\ acked = 0
        /\ lock = "free" /\ ok = TRUE

Start(c, v) == /\ pc[c] = "idle"
               /\ pc' = [pc EXCEPT ![c] = "load"] /\ req' = [req EXCEPT ![c] = v]
               /\ floor' = [floor EXCEPT ![c] = acked]
               /\ UNCHANGED <<stored, old, acked, lock, ok>>
Load(c, fails) ==
           /\ pc[c] = "load"
           /\ (req[c] >= 0 => lock = "free")
           /\ lock' = IF req[c] >= 0 /\ ~fails THEN c ELSE lock
           /\ old' = [old EXCEPT ![c] = IF fails THEN old[c] ELSE stored]
           /\ pc' = [pc EXCEPT ![c] = IF fails THEN "idle" ELSE IF req[c] > stored THEN "save" ELSE "reply"]
           /\ UNCHANGED <<stored, req, floor, acked, ok>>
Save(c, fails) == /\ pc[c] = "save"
                  /\ stored' = IF fails THEN stored ELSE req[c]
                  /\ pc' = [pc EXCEPT ![c] = IF fails THEN "idle" ELSE "reply"]
                  /\ lock' = IF fails /\ lock = c THEN "free" ELSE lock
                  /\ UNCHANGED <<req, old, floor, acked, ok>>
Reply(c) == /\ pc[c] = "reply"
            /\ acked' = Max(acked, Max(req[c], old[c]))
            /\ ok' = (ok /\ Max(req[c], old[c]) >= floor[c])
            /\ pc' = [pc EXCEPT ![c] = "idle"]
            /\ lock' = IF lock = c THEN "free" ELSE lock
            /\ UNCHANGED <<stored, req, old, floor>>
Next == \/ \E c \in Client, v \in (-1)..MaxVal : Start(c, v)
        \/ \E c \in Client, f \in BOOLEAN : Load(c, f)
        \/ \E c \in Client, f \in BOOLEAN : Save(c, f)
        \/ \E c \in Client : Reply(c)

TypeOK == /\ stored \in 0..MaxVal /\ acked \in 0..MaxVal /\ ok \in BOOLEAN /\ lock \in Client \cup {"free"}
          /\ pc \in [Client -> {"idle", "load", "save", "reply"}]
          /\ req \in [Client -> (-1)..MaxVal] /\ old \in [Client -> 0..MaxVal] /\ floor \in [Client -> 0..MaxVal]
ResponseNotBelowAcked == ok
StoredCoversAcked == acked <= stored
StoredMonotoneAct == stored' >= stored
Updating(c) == pc[c] \in {"save", "reply"} /\ req[c] >= 0
IndInv == /\ TypeOK /\ ok /\ acked <= stored
          /\ \A c \in Client : Updating(c) <=> lock = c                      \* the mutex is held exactly from the load to the reply
          /\ \A c \in Client : Updating(c) => old[c] = stored \/ (pc[c] = "reply" /\ stored = Max(req[c], old[c]))
          /\ \A c \in Client : pc[c] = "save" => req[c] > stored
          /\ \A c \in Client : pc[c] # "idle" => floor[c] <= acked
          /\ \A c \in Client : pc[c] = "reply" => Max(req[c], old[c]) >= floor[c]
          /\ \A c \in Client : pc[c] = "reply" => Max(req[c], old[c]) <= stored     \* what will be acknowledged is stored already
=============================================================================
