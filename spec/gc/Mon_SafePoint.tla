---------------------------- MODULE Mon_SafePoint ----------------------------
(* Property monitor for C15 (cluster GC safe point) over recordings of the real handlers. *)
EXTENDS Integers, Sequences, FiniteSets, TLC, Json
Trace == ndJsonDeserialize("trace.ndjson")
VARIABLES l, hist, lastStored, mode, viol
vars == <<l, hist, lastStored, mode, viol>>

Init == l = 1 /\ hist = {} /\ lastStored = 0 /\ mode = "replay" /\ viol = {} /\ TLCSet(1, 0)

Consume ==
  /\ l <= Len(Trace) /\ l' = l + 1
  /\ LET e == Trace[l] IN
     IF e.ev = "reset" THEN hist' = {} /\ lastStored' = e.stored /\ mode' = e.mode /\ viol' = viol
     ELSE
       LET sampled == mode = "replay" /\ e.stored >= 0
           v1 == IF sampled /\ e.stored < lastStored THEN {"StoredNeverDecreases"} ELSE {}
           isDone == e.ev = "done" /\ ~e.err
           v2 == IF isDone /\ \E h \in hist : \/ (h[2] < e.s /\ e.resp < h[3])
                                             \/ (e.e < h[1] /\ h[3] < e.resp)
                   THEN {"ResponseNotBelowAcked"} ELSE {}
       IN /\ hist' = IF isDone THEN hist \cup {<<e.s, e.e, e.resp>>} ELSE hist
          /\ lastStored' = IF sampled THEN e.stored ELSE lastStored
          /\ mode' = mode
          /\ viol' = viol \cup v1 \cup v2
Spec == Init /\ [][Consume]_vars
HW == TLCSet(1, IF l > TLCGet(1) THEN l ELSE TLCGet(1))
AllConsumed == PrintT(<<"HW", TLCGet(1)>>) /\ TLCGet(1) = Len(Trace) + 1
StoredNeverDecreases  == "StoredNeverDecreases" \notin viol
ResponseNotBelowAcked == "ResponseNotBelowAcked" \notin viol
=============================================================================
