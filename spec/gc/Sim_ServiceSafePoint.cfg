SPECIFICATION Spec
CONSTANTS Svc = {"s1", "s2", "s3"}
  MaxSp = 5
  MaxTtl = 2
  MaxTick = 6
  MaxOps = 14
CHECK_DEADLOCK FALSE
