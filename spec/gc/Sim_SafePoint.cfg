SPECIFICATION Spec
CONSTANTS Client = {"a", "b", "c"}
  MaxVal = 6
  Locked = FALSE
  MaxCalls = 8
CHECK_DEADLOCK FALSE
