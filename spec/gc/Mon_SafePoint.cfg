SPECIFICATION Spec
CONSTRAINT HW
INVARIANTS StoredNeverDecreases ResponseNotBelowAcked
POSTCONDITION AllConsumed
CHECK_DEADLOCK FALSE
