SPECIFICATION Spec
CONSTANTS
  Inst = {"i1", "i2", "i3"}
  Mem = {"m1", "m2"}
  Member <- MemberMap
  Step = 1000
  MaxId = 30000
  MaxCrash = 3
  MaxSwitch = 6
INVARIANTS Unique ReturnObligations
