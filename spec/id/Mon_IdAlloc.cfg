SPECIFICATION Spec
CONSTRAINT HW
INVARIANTS Unique NotAboveStoredWindow IncreasingPerAllocator StoredMonotone OnlyOwnerExtends
POSTCONDITION AllConsumed
CHECK_DEADLOCK FALSE
