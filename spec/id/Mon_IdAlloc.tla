---------------------------- MODULE Mon_IdAlloc ----------------------------
(* Property monitor for C04 over recordings of the REAL server/id allocators.            *)
(* Built from observables only: ids returned by Alloc, the alloc_id and leader keys read  *)
(* back from etcd. Every event is consumable; the property clauses are invariants.        *)
EXTENDS Integers, Sequences, FiniteSets, TLC, Json

Trace == ndJsonDeserialize("trace.ndjson")

VARIABLES l,        \* next event
          seen,     \* ids returned so far in the current trace
          last,     \* allocator object (+goroutine) -> last id it returned
          stored,   \* last sampled value of alloc_id (sequential recordings only)
          mode,
          viol      \* names of violated clauses

vars == <<l, seen, last, stored, mode, viol>>
Has(e, f) == f \in DOMAIN e
SetMax(S) == CHOOSE x \in S : \A y \in S : y <= x
SetMin(S) == CHOOSE x \in S : \A y \in S : y >= x

Init == /\ l = 1 /\ seen = {} /\ last = <<>> /\ stored = 0 /\ mode = "replay" /\ viol = {}
        /\ TLCSet(1, 0)

Ids(e) == IF e.ev = "AllocFast" THEN e.lo .. e.hi
          ELSE IF Has(e, "id") THEN {e.id} ELSE {}

Consume ==
  /\ l <= Len(Trace)
  /\ l' = l + 1
  /\ LET e == Trace[l] IN
     IF e.ev = "reset"
       THEN /\ seen' = {} /\ last' = <<>> /\ stored' = e.stored /\ mode' = e.mode /\ viol' = viol
       ELSE
         LET ids  == Ids(e)
             prev == IF e.k \in DOMAIN last THEN last[e.k] ELSE 0
             v1 == IF ids \cap seen # {} THEN {"Unique"} ELSE {}
             v2 == IF ids # {} /\ SetMax(ids) > e.stored THEN {"NotAboveStoredWindow"} ELSE {}
             v3 == IF ids # {} /\ SetMin(ids) <= prev THEN {"IncreasingPerAllocator"} ELSE {}
             v4 == IF mode = "replay" /\ e.stored < stored THEN {"StoredMonotone"} ELSE {}
             v5 == IF e.ev = "Txn" /\ (e.pre # e.rd \/ e.pre_leader # e.member) /\ e.stored # e.pre
                     THEN {"OnlyOwnerExtends"} ELSE {}
         IN /\ seen' = seen \cup ids
            /\ last' = IF ids = {} THEN last
                       ELSE [k \in DOMAIN last \cup {e.k} |-> IF k = e.k THEN SetMax(ids) ELSE last[k]]
            /\ stored' = e.stored
            /\ mode' = mode
            /\ viol' = viol \cup v1 \cup v2 \cup v3 \cup v4 \cup v5

Spec == Init /\ [][Consume]_vars

HW == TLCSet(1, IF l > TLCGet(1) THEN l ELSE TLCGet(1))
AllConsumed == PrintT(<<"HW", TLCGet(1)>>) /\ TLCGet(1) = Len(Trace) + 1

Unique                 == "Unique" \notin viol
NotAboveStoredWindow   == "NotAboveStoredWindow" \notin viol
IncreasingPerAllocator == "IncreasingPerAllocator" \notin viol
StoredMonotone         == "StoredMonotone" \notin viol
OnlyOwnerExtends       == "OnlyOwnerExtends" \notin viol
=============================================================================
