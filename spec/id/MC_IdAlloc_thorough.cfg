SPECIFICATION Spec
CONSTANTS
  Inst = {"i1", "i2", "i3"}
  Mem = {"m1", "m2"}
  Member <- MemberMap
  Step = 2
  MaxId = 8
  MaxCrash = 2
  MaxSwitch = 2
CONSTRAINT Bound
INVARIANTS Unique ReturnObligations WindowInMemoryBelowStored
PROPERTIES OnlyOwnerExtends StoredMonotone
