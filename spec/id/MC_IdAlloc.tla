---- MODULE MC_IdAlloc ----
EXTENDS IdAlloc
MemberMap == [i \in Inst |-> IF i = "i1" THEN "m1" ELSE IF i = "i2" THEN "m2" ELSE "m1"]
\* ghost variables that record history only are hidden from the fingerprint
View == <<stored, leader, base, end, pc, rd, dup, crashes, switches, ok,
          [i \in Inst |-> lastRet[i]], returned>>
====
