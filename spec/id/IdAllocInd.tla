------------------------------ MODULE IdAllocInd ------------------------------
(* Typed copy of IdAlloc.tla for Apalache (crash and leader-switch budgets dropped, stored window  *)
(* bounded by MaxId so that the state space is typed and finite per state but the number of steps   *)
(* is unbounded).  IndInv is inductive; it implies Unique and WindowInMemoryBelowStored.            *)
EXTENDS Integers, FiniteSets

Inst == {"i1", "i2", "i3"}
Mem == {"m1", "m2"}
\* @type: Str -> Str;
Member == [i \in Inst |-> IF i = "i1" THEN "m1" ELSE "m2"]
Step == 3
MaxId == 12
None == "none"

VARIABLES
  \* @type: Int;
  stored,
  \* @type: Str;
  leader,
  \* @type: Str -> Int;
  base,
  \* @type: Str -> Int;
  end,
  \* @type: Str -> Str;
  pc,
  \* @type: Str -> Int;
  rd,
  \* @type: Set(Int);
  returned,
  \* @type: Bool;
  dup

Init == /\ stored = 0 /\ leader \in Mem \cup {None}
        /\ base = [i \in Inst |-> 0] /\ end = [i \in Inst |-> 0]
        /\ pc = [i \in Inst |-> "idle"] /\ rd = [i \in Inst |-> 0]
        /\ returned = {} /\ dup = FALSE

Return(lo, hi) == /\ returned' = returned \cup {x \in 1..(MaxId + Step) : lo <= x /\ x <= hi}
                  /\ dup' = (dup \/ \E x \in returned : lo <= x /\ x <= hi)

AllocFast(i, n) == /\ pc[i] = "idle" /\ base[i] + n <= end[i]
                   /\ base' = [base EXCEPT ![i] = base[i] + n]
                   /\ Return(base[i] + 1, base[i] + n)
                   /\ UNCHANGED <<stored, leader, end, pc, rd>>
Read(i, kind) == /\ pc[i] = "idle"
                 /\ (kind = "alloc" => base[i] = end[i])
                 /\ pc' = [pc EXCEPT ![i] = kind]
                 /\ rd' = [rd EXCEPT ![i] = stored]
                 /\ UNCHANGED <<stored, leader, base, end, returned, dup>>
CmpHolds(i) == stored = rd[i] /\ leader = Member[i]
Txn(i, outcome) ==
    /\ pc[i] \in {"alloc", "rebase"}
    /\ stored + Step <= MaxId
    /\ pc' = [pc EXCEPT ![i] = "idle"]
    /\ LET applied == CmpHolds(i) /\ outcome \in {"ok", "lost"} IN
          /\ stored' = IF applied THEN rd[i] + Step ELSE stored
          /\ IF CmpHolds(i) /\ outcome = "ok"
               THEN /\ end' = [end EXCEPT ![i] = rd[i] + Step]
                    /\ IF pc[i] = "alloc"
                         THEN /\ base' = [base EXCEPT ![i] = rd[i] + 1]
                              /\ Return(rd[i] + 1, rd[i] + 1)
                         ELSE /\ base' = [base EXCEPT ![i] = rd[i]]
                              /\ UNCHANGED <<returned, dup>>
               ELSE UNCHANGED <<base, end, returned, dup>>
    /\ UNCHANGED <<leader, rd>>
Crash(i) == /\ base' = [base EXCEPT ![i] = 0] /\ end' = [end EXCEPT ![i] = 0]
            /\ pc' = [pc EXCEPT ![i] = "idle"] /\ rd' = [rd EXCEPT ![i] = 0]
            /\ UNCHANGED <<stored, leader, returned, dup>>
LeaderSwitch(m) == /\ leader' = m /\ UNCHANGED <<stored, base, end, pc, rd, returned, dup>>
Next == \/ \E i \in Inst, n \in 1..Step : AllocFast(i, n)
        \/ \E i \in Inst, k \in {"alloc", "rebase"} : Read(i, k)
        \/ \E i \in Inst, o \in {"ok", "lost", "err"} : Txn(i, o)
        \/ \E i \in Inst : Crash(i)
        \/ \E m \in Mem \cup {None} : LeaderSwitch(m)

TypeOK == /\ stored \in 0..MaxId /\ leader \in Mem \cup {None}
          /\ base \in [Inst -> 0..MaxId] /\ end \in [Inst -> 0..MaxId]
          /\ pc \in [Inst -> {"idle", "alloc", "rebase"}] /\ rd \in [Inst -> 0..MaxId]
          /\ returned \in SUBSET (1..MaxId) /\ dup \in BOOLEAN
Unique == ~dup
WindowInMemoryBelowStored == \A i \in Inst : end[i] <= stored
(* the unreturned part of an instance's window *)
Rest(i) == {x \in 1..MaxId : base[i] < x /\ x <= end[i]}
IndInv == /\ TypeOK /\ ~dup
          /\ \A i \in Inst : base[i] <= end[i] /\ end[i] <= stored /\ rd[i] <= stored
          /\ \A x \in returned : x <= stored
          /\ \A i \in Inst : Rest(i) \cap returned = {}
          /\ \A i, j \in Inst : i # j => Rest(i) \cap Rest(j) = {}
=============================================================================
