------------------------------ MODULE IdAlloc ------------------------------
(* server/id/id.go: several allocator instances share the etcd key alloc_id.          *)
(* One action per critical section: the unlocked read of alloc_id, the guarded        *)
(* transaction (value comparison + leader-record comparison), the in-window fast path.*)
(* Each instance holds its mutex for a whole Alloc/Rebase call, hence one pc each.    *)
EXTENDS Integers, FiniteSets, Sequences, TLC

CONSTANTS Inst,        \* allocator instances; instance i belongs to member Member[i]
          Mem,         \* member names that may own the leader record
          Member,      \* Inst -> Mem
          Step,        \* allocStep (1000 in the code)
          MaxId,       \* bound on the stored window (state constraint)
          MaxCrash, MaxSwitch

None == "none"

VARIABLES stored,     \* value of alloc_id in etcd, 0 = key absent
          leader,     \* value of the leader record (a member name or None)
          base, end,  \* per instance, in memory
          pc,         \* per instance: "idle" | "alloc" | "rebase" (between the read and the txn)
          rd,         \* per instance: value read from alloc_id by the pending call
          returned,   \* ghost: set of ids returned so far
          dup,        \* ghost: some id was returned twice
          lastRet,    \* ghost: per instance, last id returned by it (0 = none since creation)
          crashes, switches,
          ok          \* ghost: conjunction of the per-return obligations

vars == <<stored, leader, base, end, pc, rd, returned, dup, lastRet, crashes, switches, ok>>

Init == /\ stored = 0 /\ leader \in Mem \cup {None}
        /\ base = [i \in Inst |-> 0] /\ end = [i \in Inst |-> 0]
        /\ pc = [i \in Inst |-> "idle"] /\ rd = [i \in Inst |-> 0]
        /\ returned = {} /\ dup = FALSE
        /\ lastRet = [i \in Inst |-> 0]
        /\ crashes = 0 /\ switches = 0 /\ ok = TRUE

(* ids lo..hi are returned by instance i, in order; storedNow is alloc_id at that moment *)
Return(i, lo, hi, storedNow) ==
    /\ returned' = returned \cup (lo..hi)
    /\ dup' = (dup \/ (lo..hi) \cap returned # {})
    /\ lastRet' = [lastRet EXCEPT ![i] = hi]
    /\ ok' = (ok /\ hi <= storedNow /\ (lastRet[i] = 0 \/ lo > lastRet[i]))

(* n consecutive Allocs inside the in-memory window. *)
AllocFast(i, n) == /\ pc[i] = "idle" /\ base[i] + n <= end[i]
                   /\ n \in {1, end[i] - base[i]}   \* one id, or the rest of the window
                   /\ base' = [base EXCEPT ![i] = @ + n]
                   /\ Return(i, base[i] + 1, base[i] + n, stored)
                   /\ UNCHANGED <<stored, leader, end, pc, rd, crashes, switches>>

(* Alloc with an exhausted window, or Rebase: read alloc_id. *)
Read(i, kind) == /\ pc[i] = "idle"
                 /\ kind = "alloc" => base[i] = end[i]
                 /\ pc' = [pc EXCEPT ![i] = kind]
                 /\ rd' = [rd EXCEPT ![i] = stored]
                 /\ UNCHANGED <<stored, leader, base, end, returned, dup, lastRet, crashes, switches, ok>>

CmpHolds(i) == stored = rd[i] /\ leader = Member[i]

(* The guarded transaction. outcome: "ok" | "lost" (applied but the reply is lost) | "err" (not applied). *)
Txn(i, outcome) ==
    /\ pc[i] \in {"alloc", "rebase"}
    /\ pc' = [pc EXCEPT ![i] = "idle"]
    /\ LET applied == CmpHolds(i) /\ outcome \in {"ok", "lost"}
           newStored == IF applied THEN rd[i] + Step ELSE stored
       IN /\ stored' = newStored
          /\ IF CmpHolds(i) /\ outcome = "ok"
               THEN /\ end' = [end EXCEPT ![i] = rd[i] + Step]
                    /\ IF pc[i] = "alloc"
                         THEN /\ base' = [base EXCEPT ![i] = rd[i] + 1]
                              /\ Return(i, rd[i] + 1, rd[i] + 1, newStored)
                         ELSE /\ base' = [base EXCEPT ![i] = rd[i]]
                              /\ UNCHANGED <<returned, dup, lastRet, ok>>
               ELSE UNCHANGED <<base, end, returned, dup, lastRet, ok>>
    /\ UNCHANGED <<leader, rd, crashes, switches>>

(* The instance is dropped (process restart, or the leader creates a fresh allocator). A call *)
(* in flight never reaches its transaction.                                                  *)
Crash(i) == /\ crashes < MaxCrash
            /\ crashes' = crashes + 1
            /\ base' = [base EXCEPT ![i] = 0] /\ end' = [end EXCEPT ![i] = 0]
            /\ pc' = [pc EXCEPT ![i] = "idle"] /\ rd' = [rd EXCEPT ![i] = 0]
            /\ lastRet' = [lastRet EXCEPT ![i] = 0]
            /\ UNCHANGED <<stored, leader, returned, dup, switches, ok>>

LeaderSwitch(m) == /\ switches < MaxSwitch /\ leader # m
                   /\ leader' = m /\ switches' = switches + 1
                   /\ UNCHANGED <<stored, base, end, pc, rd, returned, dup, lastRet, crashes, ok>>

Next == \/ \E i \in Inst, n \in 1..Step : AllocFast(i, n)
        \/ \E i \in Inst, k \in {"alloc", "rebase"} : Read(i, k)
        \/ \E i \in Inst, o \in {"ok", "lost", "err"} : Txn(i, o)
        \/ \E i \in Inst : Crash(i)
        \/ \E m \in Mem \cup {None} : LeaderSwitch(m)

Spec == Init /\ [][Next]_vars

Bound == stored + Step <= MaxId

----------------------------------------------------------------------------
(* C04 *)
Unique == ~dup
ReturnObligations == ok          \* returned id <= stored window at return; strictly increasing per instance
WindowInMemoryBelowStored == \A i \in Inst : end[i] <= stored
(* A transaction of a non-leader or of a race loser never changes the stored window. *)
OnlyOwnerExtends == [][ \A i \in Inst : (pc[i] # "idle" /\ pc'[i] = "idle" /\ crashes' = crashes /\ ~CmpHolds(i)) => stored' = stored ]_vars
StoredMonotone == [][stored' >= stored]_vars
=============================================================================
