---------------------------------- MODULE Fit ----------------------------------
(* server/schedule/placement/fit.go + label_constraint.go as a definition: the set of valid     *)
(* assignments of a region's peers to an ordered rule list (or to the orphan list), their score   *)
(* under the documented order, and the best one.  Used as an executable oracle: every recorded     *)
(* case (stores with labels, peers with roles and a leader, rules) and the result of the real      *)
(* FitRegion are checked by TLC against these definitions.                                        *)
EXTENDS Integers, Sequences, FiniteSets, TLC, Json
Trace == ndJsonDeserialize("trace.ndjson")

ToSet(q) == {q[i] : i \in 1..Len(q)}
(* store labels: sequence of <<key, value>> *)
Label(st, k) == IF \E i \in 1..Len(st.labels) : st.labels[i][1] = k
                THEN st.labels[CHOOSE i \in 1..Len(st.labels) : st.labels[i][1] = k][2] ELSE ""
Exclusive(k) == k \in {"engine", "exclusive"}     \* ("$"-prefixed keys are exclusive too; the recorded cases use only these two)
MatchOne(st, c) ==
  LET v == Label(st, c.key) IN
  CASE c.op = "in" -> v # "" /\ v \in ToSet(c.values)
    [] c.op = "notIn" -> v = "" \/ v \notin ToSet(c.values)
    [] c.op = "exists" -> v # ""
    [] c.op = "notExists" -> v = ""
    [] OTHER -> FALSE
MatchConstraints(st, cs) ==
  /\ \A i \in 1..Len(st.labels) : Exclusive(st.labels[i][1]) => \E j \in 1..Len(cs) : cs[j].key = st.labels[i][1]
  /\ \A j \in 1..Len(cs) : MatchOne(st, cs[j])
StoreOf(case, p) == CHOOSE st \in ToSet(case.stores) : st.id = p.store
Loose(p, role) == role # "learner" \/ p.learner
Strict(p, role) == CASE role = "voter" -> ~p.learner [] role = "leader" -> p.leader
                     [] role = "follower" -> ~p.learner /\ ~p.leader [] role = "learner" -> p.learner [] OTHER -> FALSE
(* a rule none of the cluster's stores can satisfy takes no peer *)
RuleUsable(case, r) == \E st \in ToSet(case.stores) : MatchConstraints(st, r.constraints)
CanTake(case, r, p) == RuleUsable(case, r) /\ MatchConstraints(StoreOf(case, p), r.constraints) /\ Loose(p, r.role)

NP(case) == Len(case.peers)
NR(case) == Len(case.rules)
Assignments(case) == [1..NP(case) -> 0..NR(case)]                        \* 0 = orphan
Of(a, case, r) == {i \in 1..NP(case) : a[i] = r}
Valid(case, a) == \A r \in 1..NR(case) : /\ Cardinality(Of(a, case, r)) <= case.rules[r].count
                                         /\ \A i \in Of(a, case, r) : CanTake(case, case.rules[r], case.peers[i])
Mism(a, case, r) == {i \in Of(a, case, r) : ~Strict(case.peers[i], case.rules[r].role)}
(* isolation: for every pair, 100^(levels below the first location label on which the two stores differ) *)
RECURSIVE Pow100(_)
Pow100(k) == IF k <= 0 THEN 1 ELSE 100 * Pow100(k - 1)
DiffIndex(s1, s2, labels) ==
  LET D == {i \in 1..Len(labels) : Label(s1, labels[i]) # "" /\ Label(s2, labels[i]) # "" /\ Label(s1, labels[i]) # Label(s2, labels[i])} IN
    IF D = {} THEN 0 ELSE CHOOSE i \in D : \A j \in D : i <= j
RECURSIVE SumPairs(_, _, _)
SumPairs(S, case, labels) ==
  IF S = {} THEN 0
  ELSE LET x == CHOOSE y \in S : TRUE
           d == DiffIndex(StoreOf(case, case.peers[x[1]]), StoreOf(case, case.peers[x[2]]), labels) IN
       (IF d = 0 THEN 0 ELSE Pow100(Len(labels) - d)) + SumPairs(S \ {x}, case, labels)
Iso(a, case, r) ==
  LET S == Of(a, case, r)  labels == case.rules[r].location IN
    IF Len(labels) = 0 \/ Cardinality(S) <= 1 THEN 0
    ELSE SumPairs({<<i, j>> \in S \X S : i < j}, case, labels)
SetMax(S) == CHOOSE x \in S : \A y \in S : y <= x
SetMin(S) == CHOOSE x \in S : \A y \in S : x <= y
(* the best assignments under the documented order, computed rule by rule *)
RECURSIVE BestFrom(_, _, _)
BestFrom(A, case, r) ==
  IF r > NR(case) THEN LET m == SetMin({Cardinality(Of(a, case, 0)) : a \in A}) IN {a \in A : Cardinality(Of(a, case, 0)) = m}
  ELSE LET n  == SetMax({Cardinality(Of(a, case, r)) : a \in A})
           A1 == {a \in A : Cardinality(Of(a, case, r)) = n}
           mm == SetMin({Cardinality(Mism(a, case, r)) : a \in A1})
           A2 == {a \in A1 : Cardinality(Mism(a, case, r)) = mm}
           is == SetMax({Iso(a, case, r) : a \in A2})
           A3 == {a \in A2 : Iso(a, case, r) = is}
       IN BestFrom(A3, case, r + 1)
Best(case) == BestFrom({a \in Assignments(case) : Valid(case, a)}, case, 1)

(* the real result as an assignment *)
IdxOf(case, pid) == CHOOSE i \in 1..NP(case) : case.peers[i].id = pid
Times(case, res, i) == Cardinality({r \in 1..Len(res.fits) : case.peers[i].id \in ToSet(res.fits[r].peers)})
                       + (IF case.peers[i].id \in ToSet(res.orphans) THEN 1 ELSE 0)
RealAssign(case, res) == [i \in 1..NP(case) |->
    IF \E r \in 1..Len(res.fits) : case.peers[i].id \in ToSet(res.fits[r].peers)
      THEN CHOOSE r \in 1..Len(res.fits) : case.peers[i].id \in ToSet(res.fits[r].peers) ELSE 0]
Verdict(case, res) ==
  LET a == RealAssign(case, res) IN
  {c \in {
    IF Len(res.fits) = NR(case) /\ \A i \in 1..NP(case) : Times(case, res, i) = 1 THEN "" ELSE "EveryPeerInExactlyOnePlace",
    IF Valid(case, a) THEN "" ELSE "OnlyValidAssignments",
    IF \A r \in 1..NR(case) : {case.peers[i].id : i \in Mism(a, case, r)} = ToSet(res.fits[r].mismatch) THEN "" ELSE "MismatchesListedExactly",
    IF Valid(case, a) => a \in Best(case) THEN "" ELSE "NoBetterAssignment",
    IF res.satisfied = (NR(case) > 0 /\ Cardinality(Of(a, case, 0)) = 0
                        /\ \A r \in 1..NR(case) : Cardinality(Of(a, case, r)) = case.rules[r].count /\ Mism(a, case, r) = {}) THEN "" ELSE "SatisfiedIffAllRulesFilled",
    IF \A r \in 1..NR(case) : res.fits[r].iso = Iso(a, case, r) THEN "" ELSE "IsolationScore"} : c # ""}

VARIABLES l, bad
vars == <<l, bad>>
Init == l = 1 /\ bad = {} /\ TLCSet(1, 0) /\ TLCSet(2, {})
Consume == /\ l <= Len(Trace) /\ l' = l + 1
           /\ LET e == Trace[l] IN
                IF e.ev # "case" THEN bad' = bad
                ELSE bad' = bad \cup {<<e.n, c, l>> : c \in Verdict(e.case, e.result)}
Spec == Init /\ [][Consume]_vars
HW == IF l > TLCGet(1) THEN TLCSet(1, l) /\ TLCSet(2, bad) ELSE TRUE
AllConsumed == PrintT(<<"HW", TLCGet(1)>>) /\ PrintT(<<"BAD", TLCGet(2)>>) /\ TLCGet(1) = Len(Trace) + 1
=============================================================================
