---------------------------- MODULE Mon_RuleRestart ----------------------------
(* C13, last clause, on configurations larger than one storage page: a restarted PD (a fresh rule    *)
(* manager on a copy of the storage) must load exactly what is being served - the rules in the same    *)
(* order, the configured groups, and the same answer for every probed key.                            *)
EXTENDS Integers, Sequences, FiniteSets, TLC, Json
Trace == ndJsonDeserialize("trace.ndjson")
VARIABLES l, bad
vars == <<l, bad>>
Init == l = 1 /\ bad = {} /\ TLCSet(1, 0) /\ TLCSet(2, {})
Consume == /\ l <= Len(Trace) /\ l' = l + 1
           /\ LET e == Trace[l] IN
                IF e.ev # "big" THEN bad' = bad
                ELSE bad' = bad \cup {<<e.beh, c, l>> : c \in
                       (IF e.served.rules # e.restart.rules THEN {"RestartLoadsServed"} ELSE {})
                       \cup (IF e.served.groups # e.restart.groups THEN {"RestartLoadsServedGroups"} ELSE {})
                       \cup (IF e.served.bykey # e.restart.bykey THEN {"RestartAnswersLikeServed"} ELSE {})}
Spec == Init /\ [][Consume]_vars
HW == IF l > TLCGet(1) THEN TLCSet(1, l) /\ TLCSet(2, bad) ELSE TRUE
AllConsumed == PrintT(<<"HW", TLCGet(1)>>) /\ PrintT(<<"BAD", TLCGet(2)>>) /\ TLCGet(1) = Len(Trace) + 1
=============================================================================
