SPECIFICATION Spec
CONSTANTS Inf = 2
  Groups = {1, 3}
  RuleIds = {1, 2}
  Roles = {"voter", "leader", "learner"}
  MaxOps = 2
  MaxFail = 1
INVARIANTS EveryKeyValid RestartLoadsServed
PROPERTIES FailureKeepsServed RetryConverges
CHECK_DEADLOCK FALSE
