SPECIFICATION TSpec
CONSTANTS Inf = 6
  Groups = {1, 2, 3}
  RuleIds = {1, 2, 3, 4}
  Roles = {"voter", "leader", "follower", "learner"}
  MaxOps = 0
  MaxFail = 0
CONSTRAINT HW
POSTCONDITION AllConsumed
CHECK_DEADLOCK FALSE
