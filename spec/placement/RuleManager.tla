----------------------------- MODULE RuleManager -----------------------------
(* server/schedule/placement: rule_manager.go, rule_list.go, config.go.                       *)
(* Configuration = rules (key <<group, id>>) + group settings.  Keys 0..Inf-1, Inf = unbounded.*)
(* Group ids and rule ids are integers whose order is the order of the real strings.          *)
(* An update computes a candidate configuration, validates EVERY key of the key space, writes   *)
(* the changed rules/groups to storage one by one (any write may fail: abort, served unchanged)  *)
(* and only then swaps the served configuration.                                               *)
EXTENDS Integers, FiniteSets, Sequences, TLC

CONSTANTS Inf, Groups, RuleIds, Roles, MaxOps, MaxFail
Voter == "voter"  Leader == "leader"  Follower == "follower"  Learner == "learner"

(* ---- pure definitions over a configuration cfg = [rules |-> f, groups |-> g] ---- *)
GroupOf(cfg, g) == IF g \in DOMAIN cfg.groups THEN cfg.groups[g] ELSE [idx |-> 0, ov |-> FALSE]
RKeys(cfg) == DOMAIN cfg.rules
Covers(r, k) == r.s <= k /\ k < r.e
(* documented order: [group index, group id, rule index, rule id] *)
Before(cfg, a, b) ==
  LET ga == GroupOf(cfg, a[1]).idx  gb == GroupOf(cfg, b[1]).idx  ra == cfg.rules[a]  rb == cfg.rules[b] IN
    \/ ga < gb
    \/ ga = gb /\ a[1] < b[1]
    \/ ga = gb /\ a[1] = b[1] /\ ra.idx < rb.idx
    \/ ga = gb /\ a[1] = b[1] /\ ra.idx = rb.idx /\ a[2] < b[2]
RECURSIVE SortKeys(_, _)
SortKeys(cfg, S) == IF S = {} THEN <<>>
                    ELSE LET m == CHOOSE x \in S : \A y \in S \ {x} : Before(cfg, x, y) IN <<m>> \o SortKeys(cfg, S \ {m})
AllRules(cfg) == SortKeys(cfg, RKeys(cfg))
RulesByKey(cfg, k) == SortKeys(cfg, {x \in RKeys(cfg) : Covers(cfg.rules[x], k)})
(* rule / group override: a rule with override drops the earlier rules of its group; a group with override drops all earlier groups *)
RECURSIVE ApplyFrom(_, _, _, _)
ApplyFrom(cfg, seq, i, acc) ==      \* acc: sequence kept so far
  IF i > Len(seq) THEN acc
  ELSE LET x == seq[i]
           sameGroup == SelectSeq(acc, LAMBDA y : y[1] = x[1])
           others    == SelectSeq(acc, LAMBDA y : y[1] # x[1])
           startsGroup == sameGroup = <<>>
           acc1 == IF startsGroup /\ GroupOf(cfg, x[1]).ov THEN <<>> ELSE acc
           acc2 == IF cfg.rules[x].ov THEN SelectSeq(acc1, LAMBDA y : y[1] # x[1]) ELSE acc1
       IN ApplyFrom(cfg, seq, i + 1, Append(acc2, x))
Apply(cfg, seq) == ApplyFrom(cfg, seq, 1, <<>>)
Count(cfg, seq, role) == LET S == {i \in 1..Len(seq) : cfg.rules[seq[i]].role = role} IN
                           IF S = {} THEN 0 ELSE LET RECURSIVE Sum(_) Sum(T) == IF T = {} THEN 0 ELSE LET i == CHOOSE j \in T : TRUE IN cfg.rules[seq[i]].count + Sum(T \ {i}) IN Sum(S)
ValidAt(cfg, k) == LET rs == RulesByKey(cfg, k)  ap == Apply(cfg, rs) IN
                     /\ rs # <<>>
                     /\ Count(cfg, ap, Leader) <= 1
                     /\ Count(cfg, ap, Leader) + Count(cfg, ap, Voter) >= 1
Valid(cfg) == \A k \in 0..(Inf - 1) : ValidAt(cfg, k)
Boundaries(cfg) == {cfg.rules[x].s : x \in RKeys(cfg)} \cup ({cfg.rules[x].e : x \in RKeys(cfg)} \ {Inf})
(* a region [s,e) gets the rules of its segment if it lies inside one segment *)
ApplyRegion(cfg, s, e) == IF \E b \in Boundaries(cfg) : s < b /\ b < e THEN <<>> ELSE Apply(cfg, RulesByKey(cfg, s))
SplitKeys(cfg, s, e) == {b \in Boundaries(cfg) : s < b /\ b < e}

(* ---- effect of the update operations on a configuration ---- *)
PutR(f, k, v) == [x \in DOMAIN f \cup {k} |-> IF x = k THEN v ELSE f[x]]
DropR(f, S) == [x \in DOMAIN f \ S |-> f[x]]
NormG(g) == [x \in {y \in DOMAIN g : g[y] # [idx |-> 0, ov |-> FALSE]} |-> g[x]]
SetRuleE(cfg, k, r)   == [cfg EXCEPT !.rules = PutR(@, k, r)]
DelRuleE(cfg, k)      == [cfg EXCEPT !.rules = DropR(@, {k})]
SetGroupE(cfg, g, v)  == [cfg EXCEPT !.groups = NormG(PutR(@, g, v))]
DelGroupE(cfg, g)     == [cfg EXCEPT !.groups = DropR(@, {g})]

----------------------------------------------------------------------------
(* ---- a small exhaustive model: served / stored configurations, write-by-write updates ---- *)
VARIABLES served, stored, pend, target, nOps, nFail
vars == <<served, stored, pend, target, nOps, nFail>>
Default == [rules |-> (<<3, 1>> :> [s |-> 0, e |-> Inf, idx |-> 0, role |-> Voter, count |-> 1, ov |-> FALSE]), groups |-> <<>>]
Init == served = Default /\ stored = Default /\ pend = <<>> /\ target = Default /\ nOps = 0 /\ nFail = 0

RuleVals == [s : 0..(Inf - 1), e : 1..Inf, idx : {0, 1}, role : Roles, count : {1}, ov : BOOLEAN]
Candidates == {SetRuleE(served, k, r) : k \in Groups \X RuleIds, r \in {v \in RuleVals : v.s < v.e}}
         \cup {DelRuleE(served, k) : k \in RKeys(served)}
         \cup {SetGroupE(served, g, v) : g \in Groups, v \in [idx : {0, 1}, ov : BOOLEAN]}
(* the writes an update needs: one per changed rule / group *)
Writes(old, new) ==
  LET rk == {k \in RKeys(old) \cup RKeys(new) : (k \in RKeys(old)) # (k \in RKeys(new)) \/ (k \in RKeys(old) /\ k \in RKeys(new) /\ old.rules[k] # new.rules[k])}
      gk == {g \in DOMAIN old.groups \cup DOMAIN new.groups : GroupOf(old, g) # GroupOf(new, g)}
  IN [r |-> rk, g |-> gk]

Begin(c) == /\ pend = <<>> /\ nOps < MaxOps /\ c \in Candidates /\ c # served
            /\ nOps' = nOps + 1
            /\ IF Valid(c) THEN pend' = <<"writing">> /\ target' = c ELSE UNCHANGED <<pend, target>>   \* rejected: nothing changes
            /\ UNCHANGED <<served, stored, nFail>>
(* write one changed rule or group of the pending update; it may fail, which aborts the update *)
WriteRule(k, fails) ==
  /\ pend # <<>> /\ k \in Writes(stored, target).r
  /\ IF fails THEN nFail < MaxFail /\ nFail' = nFail + 1 /\ pend' = <<>> /\ UNCHANGED stored
     ELSE stored' = [stored EXCEPT !.rules = IF k \in RKeys(target) THEN PutR(@, k, target.rules[k]) ELSE DropR(@, {k})] /\ UNCHANGED <<pend, nFail>>
  /\ UNCHANGED <<served, target, nOps>>
WriteGroup(g, fails) ==
  /\ pend # <<>> /\ Writes(stored, target).r = {} /\ g \in Writes(stored, target).g
  /\ IF fails THEN nFail < MaxFail /\ nFail' = nFail + 1 /\ pend' = <<>> /\ UNCHANGED stored
     ELSE stored' = [stored EXCEPT !.groups = NormG(PutR(@, g, GroupOf(target, g)))] /\ UNCHANGED <<pend, nFail>>
  /\ UNCHANGED <<served, target, nOps>>
Commit == /\ pend # <<>> /\ Writes(stored, target).r = {} /\ Writes(stored, target).g = {}
          /\ served' = target /\ pend' = <<>> /\ UNCHANGED <<stored, target, nOps, nFail>>
(* retry of the update that failed: same target *)
Retry == /\ pend = <<>> /\ stored # served /\ pend' = <<"writing">> /\ UNCHANGED <<served, stored, target, nOps, nFail>>

Next == (\E c \in Candidates : Begin(c)) \/ (\E k \in Groups \X RuleIds, f \in BOOLEAN : WriteRule(k, f))
        \/ (\E g \in Groups, f \in BOOLEAN : WriteGroup(g, f)) \/ Commit \/ Retry
Spec == Init /\ [][Next]_vars /\ WF_vars(Retry) /\ WF_vars(Commit) /\ WF_vars(\E k \in Groups \X RuleIds : WriteRule(k, FALSE)) /\ WF_vars(\E g \in Groups : WriteGroup(g, FALSE))

EveryKeyValid == Valid(served)
RestartLoadsServed == pend = <<>> /\ nFail = 0 => stored = served          \* after every accepted update
FailureKeepsServed == [][(nFail' > nFail) => served' = served]_vars
RetryConverges == [](stored # served /\ pend = <<>> => <>(stored = served))
=============================================================================
