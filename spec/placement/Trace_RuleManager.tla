-------------------------- MODULE Trace_RuleManager --------------------------
(* Validates recordings of the real placement.RuleManager against RuleManager.tla (C13).       *)
(* Every update is logged as a list of primitive effects (its meaning according to the API),    *)
(* its answer, the observable state afterwards (GetAllRules in order, groups, rules by key for  *)
(* every key, rules applied to probe regions, split keys) and what a restarted manager loads.   *)
EXTENDS RuleManager, Json
Trace == ndJsonDeserialize("trace.ndjson")
VARIABLES l, tr, cfg, prevObs, dirty, bad
tvars == <<l, tr, cfg, prevObs, dirty, bad>>

ToSet(q) == {q[i] : i \in 1..Len(q)}
RKey(r) == <<r[1], r[2]>>
RVal(r) == [s |-> r[3], e |-> r[4], idx |-> r[5], role |-> r[6], count |-> r[7], ov |-> r[8]]
CfgOf(obs) == [rules |-> [k \in {RKey(obs.all[i]) : i \in 1..Len(obs.all)} |-> RVal(CHOOSE r \in ToSet(obs.all) : RKey(r) = k)],
               groups |-> [g \in {obs.groups[i][1] : i \in 1..Len(obs.groups)} |->
                             LET x == CHOOSE y \in ToSet(obs.groups) : y[1] = g IN [idx |-> x[2], ov |-> x[3]]]]

(* one primitive effect; c0 is the served configuration the update started from *)
Eff(c, c0, p) ==
  CASE p[1] = "setrule"  -> SetRuleE(c, RKey(p[2]), RVal(p[2]))
    [] p[1] = "delrule"  -> DelRuleE(c, <<p[2], p[3]>>)
    [] p[1] = "delmatch" -> [c EXCEPT !.rules = DropR(@, {k \in RKeys(c0) : k[1] = p[2] /\ k[2] \in ToSet(p[3])})]
    [] p[1] = "delgroup" -> [c EXCEPT !.rules = DropR(@, {k \in RKeys(c0) : k[1] = p[2]})]
    [] p[1] = "delall"   -> [rules |-> DropR(c.rules, RKeys(c0)), groups |-> <<>>]
    [] p[1] = "setgroup" -> SetGroupE(c, p[2], [idx |-> p[3], ov |-> p[4]])
    [] OTHER -> c
RECURSIVE Fold(_, _, _, _)
Fold(c, c0, ps, i) == IF i > Len(ps) THEN c ELSE Fold(Eff(c, c0, ps[i]), c0, ps, i + 1)

KeysSeq(c, seq) == [i \in 1..Len(seq) |-> <<seq[i][1], seq[i][2]>>]
ObsOK(c, obs) ==
  LET want == AllRules(c) IN
  {x \in {
     IF KeysSeq(c, obs.all) = want /\ \A i \in 1..Len(obs.all) : RVal(obs.all[i]) = c.rules[RKey(obs.all[i])] THEN "" ELSE "AllRulesInOrder",
     IF {<<g, c.groups[g].idx, c.groups[g].ov>> : g \in DOMAIN c.groups} = ToSet(obs.groups) THEN "" ELSE "Groups",
     IF \A k \in 0..(Inf - 1) : KeysSeq(c, obs.bykey[k + 1]) = RulesByKey(c, k) THEN "" ELSE "RulesByKeyExact",
     IF \A i \in 1..Len(obs.apply) : KeysSeq(c, obs.apply[i][3]) = ApplyRegion(c, obs.apply[i][1], obs.apply[i][2]) THEN "" ELSE "RegionGetsSegmentRules",
     IF \A i \in 1..Len(obs.split) : ToSet(obs.split[i][3]) = SplitKeys(c, obs.split[i][1], obs.split[i][2])
                                      /\ Len(obs.split[i][3]) = Cardinality(ToSet(obs.split[i][3])) THEN "" ELSE "SplitKeysExact",
     IF \A k \in 0..(Inf - 1) : ValidAt(c, k) THEN "" ELSE "EveryKeyValid"} : x # ""}

TInit == l = 1 /\ tr = 0 /\ cfg = Default /\ prevObs = <<>> /\ dirty = "no" /\ bad = {} /\ TLCSet(1, 0) /\ TLCSet(2, {})
       /\ served = Default /\ stored = Default /\ pend = <<>> /\ target = Default /\ nOps = 0 /\ nFail = 0
Consume ==
  /\ l <= Len(Trace) /\ l' = l + 1
  /\ UNCHANGED vars
  /\ LET e == Trace[l] IN
     IF e.ev = "reset"
       THEN tr' = e.beh /\ cfg' = CfgOf(e.obs) /\ prevObs' = e.obs /\ dirty' = "no" /\ bad' = bad \cup {<<e.beh, c, l>> : c \in ObsOK(CfgOf(e.obs), e.obs)}
       ELSE
         LET cand == Fold(cfg, cfg, e.prims, 1)
             acc == e.res = "ok"
             new == IF acc THEN cand ELSE cfg
             b1 == IF acc /\ ~Valid(cand) THEN {"InvalidUpdateAccepted"} ELSE {}
             b2 == IF ~acc /\ e.obs # prevObs THEN {"RejectedChangesNothing"} ELSE {}
             b3 == ObsOK(new, e.obs)
             \* A storage failure in the middle of an update leaves storage partially written; the documented remedy is
             \* to retry that update.  Until the retry has succeeded the restart clause is not evaluated.
             \* dirty: "no" | "pending" (a failed update awaits its retry) | "forever" (a failed update was not retried at once)
             d2 == IF dirty = "forever" THEN "forever"
                   ELSE IF dirty = "pending" THEN (IF e.kind = "retry" THEN (IF acc THEN "no" ELSE "pending") ELSE "forever")
                   ELSE IF ~acc /\ e.failed_write > 0 THEN "pending" ELSE "no"
             b4 == IF acc /\ d2 = "no" /\ (e.restart.all # e.obs.all \/ e.restart.groups # e.obs.groups \/ e.restart.bykey # e.obs.bykey
                              \/ e.restart.apply # e.obs.apply) THEN {"RestartLoadsServed"} ELSE {}
             b5 == IF ~acc /\ e.failed_write = 0 /\ Valid(cand) THEN {"INFO-ValidUpdateRejected"} ELSE {}
         IN tr' = tr /\ cfg' = new /\ prevObs' = e.obs /\ dirty' = d2
            /\ bad' = bad \cup {<<tr, c, l>> : c \in b1 \cup b2 \cup b3 \cup b4 \cup b5}
TSpec == TInit /\ [][Consume]_<<vars, tvars>>
HW == IF l > TLCGet(1) THEN TLCSet(1, l) /\ TLCSet(2, bad) ELSE TRUE
AllConsumed == PrintT(<<"HW", TLCGet(1)>>) /\ PrintT(<<"BAD", TLCGet(2)>>) /\ TLCGet(1) = Len(Trace) + 1
=============================================================================
