---------------------------- MODULE ClusterVersion ----------------------------
(* Beyond the listed properties: the cluster version that gates features (joint consensus, ...). *)
(* server/cluster: PutStore checks the store's version against the cluster version            *)
(* (versioninfo.IsCompatible), then OnStoreVersionChange raises the cluster version to the     *)
(* minimum version of the stores that are not tombstone and persists it; an administrator may  *)
(* set any version.  What users rely on: a feature is reported as supported only when every    *)
(* store that is not tombstone supports it (unless an administrator forced the version), and   *)
(* the cluster version never moves backwards by itself.                                        *)
EXTENDS Integers, Sequences, FiniteSets, TLC
CONSTANTS Stores, Versions, Features     \* versions and feature thresholds are <<major, minor, patch>>
VARIABLES cv, persisted, st, forced
vars == <<cv, persisted, st, forced>>

Less(a, b) == a[1] < b[1] \/ (a[1] = b[1] /\ (a[2] < b[2] \/ (a[2] = b[2] /\ a[3] < b[3])))
Leq(a, b) == a = b \/ Less(a, b)
(* versioninfo.IsCompatible(cluster, store) *)
Compatible(c, v) == Less(c, v) \/ (c[1] = v[1] /\ c[2] = v[2])
Live == {s \in Stores : st[s].state \in {"Up", "Offline"}}
MinLive == CHOOSE v \in {st[s].ver : s \in Live} : \A s \in Live : Leq(v, st[s].ver)
Supported(f) == Leq(f, cv)

Init == /\ cv = CHOOSE v \in Versions : \A w \in Versions : Leq(v, w)
        /\ persisted = cv /\ st = [s \in Stores |-> [state |-> "None", ver |-> cv]] /\ forced = FALSE

(* PutStore: version check, put, OnStoreVersionChange *)
PutStore(s, v) ==
  /\ st[s].state # "Tombstone"
  /\ IF Compatible(cv, v)
     THEN /\ st' = [st EXCEPT ![s] = [state |-> IF @.state = "None" THEN "Up" ELSE @.state, ver |-> v]]
          /\ LET live == {x \in Stores : st'[x].state \in {"Up", "Offline"}}
                 m == CHOOSE w \in {st'[x].ver : x \in live} : \A x \in live : Leq(w, st'[x].ver)
             IN cv' = IF Less(cv, m) THEN m ELSE cv
          /\ persisted' = cv'
     ELSE UNCHANGED <<st, cv, persisted>>
  /\ UNCHANGED forced
Remove(s) == st[s].state = "Up" /\ st' = [st EXCEPT ![s].state = "Offline"] /\ UNCHANGED <<cv, persisted, forced>>
(* buryStore: tombstone, then onStoreVersionChangeLocked *)
Bury(s) == /\ st[s].state = "Offline" /\ st' = [st EXCEPT ![s].state = "Tombstone"]
           /\ LET live == {x \in Stores : st'[x].state \in {"Up", "Offline"}} IN
                IF live = {} THEN cv' = cv
                ELSE LET m == CHOOSE w \in {st'[x].ver : x \in live} : \A x \in live : Leq(w, st'[x].ver) IN cv' = IF Less(cv, m) THEN m ELSE cv
           /\ persisted' = cv' /\ UNCHANGED forced
AdminSet(v) == /\ cv' = v /\ persisted' = v /\ UNCHANGED st
               /\ forced' = (forced \/ (Live # {} /\ Less(MinLive, v)))      \* above what the stores can do
Next == \/ \E s \in Stores, v \in Versions : PutStore(s, v)
        \/ \E s \in Stores : Remove(s) \/ Bury(s)
        \/ \E v \in Versions : AdminSet(v)
Spec == Init /\ [][Next]_vars

FeatureOnlyWhenEveryStoreSupportsIt == ~forced => \A f \in Features : Supported(f) => \A s \in Live : Leq(f, st[s].ver)
Persisted == persisted = cv
NeverBackwardsByItself == [][(\E v \in Versions : cv' = v /\ persisted' = v /\ st' = st) \/ Leq(cv, cv')]_vars
=============================================================================
