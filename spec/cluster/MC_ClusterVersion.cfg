SPECIFICATION Spec
CONSTANTS
  Stores = {s1, s2, s3}
  Versions <- V
  Features <- F
INVARIANTS FeatureOnlyWhenEveryStoreSupportsIt Persisted
PROPERTIES NeverBackwardsByItself
CHECK_DEADLOCK FALSE
