SPECIFICATION Spec
CONSTANTS Stores = {1, 2, 3}
  Addrs = {"a1", "a2"}
  Weights = {1, 2}
  MaxOps = 6
  MaxFail = 1
INVARIANTS AddressUnique StoredEqualsServed
PROPERTIES OneWay BuryOnlyEmpty FailureKeepsServed
CHECK_DEADLOCK FALSE
