---------------------------- MODULE StoreLifecycle ----------------------------
(* server/cluster/cluster.go (PutStore, RemoveStore, UpStore, buryStore, checkStores,          *)
(* SetStoreWeight, RemoveTombStoneRecords) + the tombstone refusal in the gRPC handlers          *)
(* PutStore / StoreHeartbeat.  Every update writes storage first (each write may fail) and only    *)
(* then publishes the new store; Reload = a new leader loads the cluster from storage.            *)
EXTENDS Integers, FiniteSets, TLC

CONSTANTS Stores, Addrs, Weights, MaxOps, MaxFail
Up == "Up"  Offline == "Offline"  Tombstone == "Tombstone"

VARIABLES served,    \* id -> [st, destroyed, addr, lw, rw]
          stored,    \* id -> [st, destroyed, addr]     (the store record)
          storedW,   \* id -> [lw, rw]                  (the weight keys)
          peers,     \* id -> number of region peers on the store
          retired,   \* ids of removed tombstones: store ids are allocated by PD and never used again
          nOps, nFail, ok
vars == <<served, stored, storedW, peers, retired, nOps, nFail, ok>>

Put(f, k, v) == [x \in DOMAIN f \cup {k} |-> IF x = k THEN v ELSE f[x]]
Drop(f, S) == [x \in DOMAIN f \ S |-> f[x]]
Rec(s) == [st |-> s.st, destroyed |-> s.destroyed, addr |-> s.addr]

Init == served = <<>> /\ stored = <<>> /\ storedW = <<>> /\ peers = [s \in Stores |-> 0] /\ retired = {} /\ nOps = 0 /\ nFail = 0 /\ ok = TRUE

Step == nOps < MaxOps /\ nOps' = nOps + 1
Fail == nFail < MaxFail /\ nFail' = nFail + 1
(* publish a new store record: storage write, then memory *)
Publish(id, s, fails) ==
  IF fails THEN Fail /\ UNCHANGED <<served, stored>>
  ELSE served' = Put(served, id, s) /\ stored' = Put(stored, id, Rec(s)) /\ UNCHANGED nFail

(* gRPC PutStore: refused for a tombstone; duplicate address among stores that are neither tombstone nor destroyed *)
PutStore(id, a, fails) ==
  /\ Step /\ id \notin retired
  /\ IF id \in DOMAIN served /\ served[id].st = Tombstone THEN UNCHANGED <<served, stored, nFail>>
     ELSE IF \E o \in DOMAIN served : o # id /\ served[o].st # Tombstone /\ ~served[o].destroyed /\ served[o].addr = a
            THEN UNCHANGED <<served, stored, nFail>>
     ELSE Publish(id, IF id \in DOMAIN served THEN [served[id] EXCEPT !.addr = a]
                      ELSE [st |-> Up, destroyed |-> FALSE, addr |-> a, lw |-> 1, rw |-> 1], fails)
  /\ UNCHANGED <<storedW, peers, retired, ok>>

RemoveStore(id, d, fails) ==
  /\ Step /\ id \in DOMAIN served
  /\ LET s == served[id] IN
     IF (s.st = Offline /\ s.destroyed = d) \/ s.st = Tombstone \/ s.destroyed THEN UNCHANGED <<served, stored, nFail>>
     ELSE Publish(id, [s EXCEPT !.st = Offline, !.destroyed = d], fails)
  /\ UNCHANGED <<storedW, peers, retired, ok>>

UpStore(id, fails) ==
  /\ Step /\ id \in DOMAIN served
  /\ LET s == served[id] IN
     IF s.st = Tombstone \/ s.destroyed \/ s.st = Up THEN UNCHANGED <<served, stored, nFail>>
     ELSE Publish(id, [s EXCEPT !.st = Up], fails)
  /\ UNCHANGED <<storedW, peers, retired, ok>>

(* checkStores: every offline store that holds no region peer is buried *)
CheckStores ==
  /\ Step
  /\ LET B == {id \in DOMAIN served : served[id].st = Offline /\ peers[id] = 0} IN
       /\ served' = [id \in DOMAIN served |-> IF id \in B THEN [served[id] EXCEPT !.st = Tombstone] ELSE served[id]]
       /\ stored' = [id \in DOMAIN stored |-> IF id \in B THEN [stored[id] EXCEPT !.st = Tombstone] ELSE stored[id]]
  /\ UNCHANGED <<storedW, peers, retired, nFail, ok>>

(* SetStoreWeight: two weight keys, then the store record *)
SetWeight(id, lw, rw, failAt) ==       \* failAt: 0 = no failure, 1..3 = the write that fails
  /\ Step /\ id \in DOMAIN served
  /\ IF failAt = 0 THEN /\ storedW' = Put(storedW, id, [lw |-> lw, rw |-> rw])
                        /\ served' = Put(served, id, [served[id] EXCEPT !.lw = lw, !.rw = rw])
                        /\ stored' = Put(stored, id, Rec(served[id])) /\ UNCHANGED nFail
     ELSE /\ Fail /\ UNCHANGED <<served, stored>>
          /\ storedW' = IF failAt = 1 THEN storedW
                        ELSE IF failAt = 2 THEN Put(storedW, id, [lw |-> lw, rw |-> IF id \in DOMAIN storedW THEN storedW[id].rw ELSE 1])
                        ELSE Put(storedW, id, [lw |-> lw, rw |-> rw])
  /\ UNCHANGED <<peers, retired, ok>>

RemoveTombstones ==
  /\ Step
  /\ LET T == {id \in DOMAIN served : served[id].st = Tombstone /\ peers[id] = 0} IN
       served' = Drop(served, T) /\ stored' = Drop(stored, T) /\ storedW' = Drop(storedW, T) /\ retired' = retired \cup T
  /\ UNCHANGED <<peers, nFail, ok>>

PlacePeer(id) == Step /\ id \in DOMAIN served /\ peers[id] < 2 /\ peers' = [peers EXCEPT ![id] = @ + 1] /\ UNCHANGED <<served, stored, storedW, retired, nFail, ok>>
DropPeer(id)  == Step /\ peers[id] > 0 /\ peers' = [peers EXCEPT ![id] = @ - 1] /\ UNCHANGED <<served, stored, storedW, retired, nFail, ok>>

(* a new leader loads the stores (with weights) from storage *)
Reload ==
  /\ Step
  /\ served' = [id \in DOMAIN stored |-> [st |-> stored[id].st, destroyed |-> stored[id].destroyed, addr |-> stored[id].addr,
                                         lw |-> IF id \in DOMAIN storedW THEN storedW[id].lw ELSE 1,
                                         rw |-> IF id \in DOMAIN storedW THEN storedW[id].rw ELSE 1]]
  /\ UNCHANGED <<stored, storedW, peers, retired, nFail, ok>>

Next == \/ \E id \in Stores, a \in Addrs, f \in BOOLEAN : PutStore(id, a, f)
        \/ \E id \in Stores, d \in BOOLEAN, f \in BOOLEAN : RemoveStore(id, d, f)
        \/ \E id \in Stores, f \in BOOLEAN : UpStore(id, f)
        \/ CheckStores
        \/ \E id \in Stores, lw \in Weights, rw \in Weights, k \in 0..3 : SetWeight(id, lw, rw, k)
        \/ RemoveTombstones
        \/ \E id \in Stores : PlacePeer(id)
        \/ \E id \in Stores : DropPeer(id)
        \/ Reload
Spec == Init /\ [][Next]_vars

----------------------------------------------------------------------------
Allowed(a, b) == \/ a.st = b.st /\ (a.destroyed => b.destroyed)
                 \/ a.st = Up /\ b.st = Offline
                 \/ a.st = Offline /\ b.st = Up /\ ~a.destroyed /\ ~b.destroyed
                 \/ a.st = Offline /\ b.st = Tombstone
OneWay == [][\A id \in DOMAIN served \cap DOMAIN served' : Allowed(served[id], served'[id])]_vars
BuryOnlyEmpty == [][\A id \in DOMAIN served \cap DOMAIN served' : (served[id].st # Tombstone /\ served'[id].st = Tombstone) => peers[id] = 0]_vars
AddressUnique == \A a, b \in DOMAIN served : (a # b /\ served[a].st # Tombstone /\ served[b].st # Tombstone /\ ~served[a].destroyed /\ ~served[b].destroyed)
                                              => served[a].addr # served[b].addr
StoredEqualsServed == nFail = 0 => (DOMAIN stored = DOMAIN served /\ \A id \in DOMAIN served : stored[id] = Rec(served[id])
                                     /\ (id \in DOMAIN storedW => (storedW[id].lw = served[id].lw /\ storedW[id].rw = served[id].rw)))
FailureKeepsServed == [][nFail' > nFail => served' = served]_vars
=============================================================================
