-------------------------- MODULE Mon_StoreLifecycle --------------------------
(* Property monitor for C14 over recordings of a real in-process server.  A store record is      *)
(* <<i, state, destroyed, addr, leaderWeight, regionWeight>>; `served` is what GetStore answers,  *)
(* `stored` is what a fresh load from storage yields, `peers[i]` the region count on store i.     *)
EXTENDS Integers, Sequences, FiniteSets, TLC, Json
Trace == ndJsonDeserialize("trace.ndjson")
VARIABLES l, tr, P, prevPeers, dirtyW, bad
vars == <<l, tr, P, prevPeers, dirtyW, bad>>
Init == l = 1 /\ tr = 0 /\ P = {} /\ prevPeers = <<>> /\ dirtyW = {} /\ bad = {} /\ TLCSet(1, 0) /\ TLCSet(2, {})
ToSet(q) == {q[i] : i \in 1..Len(q)}
ById(S, i) == {x \in S : x[1] = i}
Allowed(a, b) == \/ a[2] = b[2] /\ (a[3] => b[3])
                 \/ a[2] = "Up" /\ b[2] = "Offline"
                 \/ a[2] = "Offline" /\ b[2] = "Up" /\ ~a[3] /\ ~b[3]
                 \/ a[2] = "Offline" /\ b[2] = "Tombstone"
Consume ==
  /\ l <= Len(Trace) /\ l' = l + 1
  /\ LET e == Trace[l] IN
     IF e.ev = "reset" THEN tr' = e.beh /\ P' = ToSet(e.served) /\ prevPeers' = e.peers /\ dirtyW' = {} /\ bad' = bad
     ELSE
       LET S == ToSet(e.served)  D == ToSet(e.stored)
           failed == e.res = "err" \/ (e.fail > 0 /\ e.writes >= e.fail)
           b1 == IF \E a \in P : \E b \in ById(S, a[1]) : ~Allowed(a, b) THEN {"OneWay"} ELSE {}
           b2 == IF \E a \in P : ById(S, a[1]) = {} /\ a[2] # "Tombstone" THEN {"OnlyTombstonesDisappear"} ELSE {}
           b3 == IF \E a \in P : \E b \in ById(S, a[1]) : a[2] # "Tombstone" /\ b[2] = "Tombstone" /\ prevPeers[a[1]] > 0 THEN {"BuryOnlyEmpty"} ELSE {}
           live == {x \in S : x[2] # "Tombstone" /\ ~x[3]}
           b4 == IF \E a, b \in live : a[1] # b[1] /\ a[4] = b[4] THEN {"AddressUnique"} ELSE {}
           b5 == IF \E i \in 1..Len(e.tombstone_probes) : ~(e.tombstone_probes[i][2] /\ e.tombstone_probes[i][3]) THEN {"TombstoneRefused"} ELSE {}
           b6 == IF e.ev = "PutStore" /\ (\E a \in ById(P, e.id) : a[2] = "Tombstone") /\ (e.res = "ok" \/ ById(S, e.id) # ById(P, e.id)) THEN {"TombstoneRefused"} ELSE {}
           rec(x) == <<x[1], x[2], x[3], x[4]>>
           d2 == IF e.ev = "SetWeight" THEN (IF failed THEN dirtyW \cup {e.id} ELSE dirtyW \ {e.id}) ELSE dirtyW
           b7 == IF ~failed /\ {rec(x) : x \in S} # {rec(x) : x \in D} THEN {"StoredEqualsServed"} ELSE {}
           b8 == IF ~failed /\ \E x \in S : x[1] \notin d2 /\ \E y \in ById(D, x[1]) : <<y[5], y[6]>> # <<x[5], x[6]>> THEN {"StoredWeightsEqualServed"} ELSE {}
           \* only the store the failed command is about: the server's own background job may bury other empty offline stores at any time
           b9 == IF failed /\ e.ev # "CheckStores" /\ ById(S, e.id) # ById(P, e.id)
                      /\ ~(\E a \in ById(P, e.id) : \E b \in ById(S, e.id) : a[2] = "Offline" /\ b[2] = "Tombstone" /\ <<a[3], a[4], a[5], a[6]>> = <<b[3], b[4], b[5], b[6]>>)
                   THEN {"FailureKeepsServed"} ELSE {}
       IN tr' = tr /\ P' = S /\ prevPeers' = e.peers /\ dirtyW' = d2
          /\ bad' = bad \cup {<<tr, c, l>> : c \in b1 \cup b2 \cup b3 \cup b4 \cup b5 \cup b6 \cup b7 \cup b8 \cup b9}
Spec == Init /\ [][Consume]_vars
HW == IF l > TLCGet(1) THEN TLCSet(1, l) /\ TLCSet(2, bad) ELSE TRUE
AllConsumed == PrintT(<<"HW", TLCGet(1)>>) /\ PrintT(<<"BAD", TLCGet(2)>>) /\ TLCGet(1) = Len(Trace) + 1
=============================================================================
