---------------------------- MODULE ClusterVersionInd ----------------------------
(* Typed copy of ClusterVersion.tla for Apalache: the invariant IndInv is inductive, hence       *)
(* FeatureOnlyWhenEveryStoreSupportsIt holds for ANY number of steps (for the constants below).   *)
EXTENDS Integers, Sequences, FiniteSets

Stores == {"s1", "s2", "s3"}
\* @type: Set(<<Int, Int, Int>>);
Versions == {<<a, b, c>> : a \in 3..6, b \in 0..2, c \in 0..4}      \* 60 versions
\* @type: Set(<<Int, Int, Int>>);
Features == {<<a, b, 0>> : a \in 3..6, b \in 0..2}                 \* every release line may introduce a feature
States == {"None", "Up", "Offline", "Tombstone"}

VARIABLES
  \* @type: <<Int, Int, Int>>;
  cv,
  \* @type: <<Int, Int, Int>>;
  persisted,
  \* @type: Str -> { state: Str, ver: <<Int, Int, Int>> };
  st,
  \* @type: Bool;
  forced

\* @type: (<<Int, Int, Int>>, <<Int, Int, Int>>) => Bool;
Less(a, b) == a[1] < b[1] \/ (a[1] = b[1] /\ (a[2] < b[2] \/ (a[2] = b[2] /\ a[3] < b[3])))
\* @type: (<<Int, Int, Int>>, <<Int, Int, Int>>) => Bool;
Leq(a, b) == a = b \/ Less(a, b)
\* @type: (<<Int, Int, Int>>, <<Int, Int, Int>>) => Bool;
Compatible(c, v) == Less(c, v) \/ (c[1] = v[1] /\ c[2] = v[2])
Live == {s \in Stores : st[s].state \in {"Up", "Offline"}}
\* @type: (Str -> { state: Str, ver: <<Int, Int, Int>> }) => Set(Str);
LiveOf(f) == {s \in Stores : f[s].state \in {"Up", "Offline"}}
\* the smallest version among the live stores of f is m
\* @type: (Str -> { state: Str, ver: <<Int, Int, Int>> }, <<Int, Int, Int>>) => Bool;
IsMin(f, m) == (\E s \in LiveOf(f) : f[s].ver = m) /\ (\A s \in LiveOf(f) : Leq(m, f[s].ver))

Init == /\ cv = <<3, 0, 0>> /\ persisted = cv /\ forced = FALSE
        /\ st = [s \in Stores |-> [state |-> "None", ver |-> <<3, 0, 0>>]]

Raise(f) == IF LiveOf(f) = {} THEN cv' = cv
            ELSE \E m \in Versions : IsMin(f, m) /\ cv' = IF Less(cv, m) THEN m ELSE cv
PutStore(s, v) ==
  /\ st[s].state # "Tombstone"
  /\ IF Compatible(cv, v)
     THEN /\ st' = [st EXCEPT ![s] = [state |-> IF st[s].state = "None" THEN "Up" ELSE st[s].state, ver |-> v]]
          /\ Raise(st') /\ persisted' = cv'
     ELSE UNCHANGED <<st, cv, persisted>>
  /\ UNCHANGED forced
Remove(s) == st[s].state = "Up" /\ st' = [st EXCEPT ![s] = [state |-> "Offline", ver |-> st[s].ver]] /\ UNCHANGED <<cv, persisted, forced>>
Bury(s) == /\ st[s].state = "Offline" /\ st' = [st EXCEPT ![s] = [state |-> "Tombstone", ver |-> st[s].ver]]
           /\ Raise(st') /\ persisted' = cv' /\ UNCHANGED forced
AdminSet(v) == /\ cv' = v /\ persisted' = v /\ UNCHANGED st
               /\ forced' = (forced \/ (\E s \in Live : Less(st[s].ver, v)))
Next == \/ \E s \in Stores, v \in Versions : PutStore(s, v)
        \/ \E s \in Stores : Remove(s) \/ Bury(s)
        \/ \E v \in Versions : AdminSet(v)

TypeOK == /\ cv \in Versions /\ persisted \in Versions /\ forced \in BOOLEAN
          /\ st \in [Stores -> [state : States, ver : Versions]]
FeatureOnlyWhenEveryStoreSupportsIt == ~forced => \A f \in Features : Leq(f, cv) => \A s \in Live : Leq(f, st[s].ver)
(* the inductive strengthening: without an administrator override every live store is at or above the   *)
(* cluster version or in its release line (same major.minor)                                           *)
IndInv == /\ TypeOK /\ persisted = cv
          /\ (~forced => \A s \in Live : Leq(cv, st[s].ver) \/ (cv[1] = st[s].ver[1] /\ cv[2] = st[s].ver[2]))
Implied == IndInv => FeatureOnlyWhenEveryStoreSupportsIt
=============================================================================
