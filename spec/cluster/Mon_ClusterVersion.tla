---------------------------- MODULE Mon_ClusterVersion ----------------------------
(* Trace monitor for ClusterVersion.tla: every step of a recorded history of the real server      *)
(* (PutStore with a version, RemoveStore, the burial job, SetClusterVersion) is compared with what  *)
(* the specification's action yields from the previous recorded state, and the invariants are       *)
(* evaluated on every recorded state.                                                              *)
EXTENDS Integers, Sequences, FiniteSets, TLC, Json
Trace == ndJsonDeserialize("trace.ndjson")
ToSet(q) == {q[i] : i \in 1..Len(q)}
Less(a, b) == a[1] < b[1] \/ (a[1] = b[1] /\ (a[2] < b[2] \/ (a[2] = b[2] /\ a[3] < b[3])))
Leq(a, b) == a = b \/ Less(a, b)
Compatible(c, v) == Less(c, v) \/ (c[1] = v[1] /\ c[2] = v[2])

VARIABLES l, bad, tr, prev, forced
vars == <<l, bad, tr, prev, forced>>
Init == l = 1 /\ bad = {} /\ tr = 0 /\ prev = <<>> /\ forced = FALSE /\ TLCSet(1, 0) /\ TLCSet(2, {})

Live(e) == {s \in ToSet(e.stores) : s.state \in {"Up", "Offline"}}
StoreOf(e, i) == IF \E s \in ToSet(e.stores) : s.id = i THEN (CHOOSE s \in ToSet(e.stores) : s.id = i) ELSE [id |-> i, state |-> "None", ver |-> <<0, 0, 0>>]
MinLive(e) == CHOOSE v \in {s.ver : s \in Live(e)} : \A s \in Live(e) : Leq(v, s.ver)

Clauses(p, e, f) ==
  (IF e.persisted # e.cv THEN {"Persisted"} ELSE {})
  \cup (IF \E x \in ToSet(e.features) : x.supported # Leq(x.f, e.cv) THEN {"FeatureAnswerFollowsClusterVersion"} ELSE {})
  \cup (IF ~f /\ (\E x \in ToSet(e.features) : x.supported /\ \E s \in Live(e) : Less(s.ver, x.f)) THEN {"FeatureOnlyWhenEveryStoreSupportsIt"} ELSE {})
  \cup (IF e.ev # "AdminSet" /\ Less(e.cv, p.cv) THEN {"NeverBackwardsByItself"} ELSE {})
  \cup (IF e.ev = "PutStore" THEN
          LET old == StoreOf(p, e.s)
              want == IF old.state = "Tombstone" THEN "refused" ELSE IF Compatible(p.cv, e.v) THEN "ok" ELSE "refused"
          IN (IF e.res # want THEN {"StoreAdmittedIffVersionCompatible"} ELSE {})
             \cup (IF e.res = "ok" /\ StoreOf(e, e.s).ver # e.v THEN {"StoreVersionRecorded"} ELSE {})
             \cup (IF e.res = "ok" /\ e.cv # (IF Less(p.cv, MinLive(e)) THEN MinLive(e) ELSE p.cv) THEN {"RaisedToMinimumOfLiveStores"} ELSE {})
             \cup (IF e.res = "refused" /\ (e.cv # p.cv \/ StoreOf(e, e.s) # old) THEN {"RefusedChangesNothing"} ELSE {})
        ELSE IF e.ev = "Remove" THEN (IF e.cv # p.cv THEN {"RemovalKeepsTheVersion"} ELSE {})
        ELSE IF e.ev = "Bury" THEN
             (IF ToSet(e.stores) = ToSet(p.stores) THEN (IF e.cv # p.cv THEN {"NothingBuriedKeepsTheVersion"} ELSE {})
              ELSE IF Live(e) # {} /\ e.cv # (IF Less(p.cv, MinLive(e)) THEN MinLive(e) ELSE p.cv) THEN {"RaisedToMinimumOfLiveStores"} ELSE {})
        ELSE IF e.ev = "AdminSet" THEN (IF e.res = "ok" /\ e.cv # e.v THEN {"AdminSetTakesEffect"} ELSE {})
        ELSE {})

Consume ==
  /\ l <= Len(Trace) /\ l' = l + 1
  /\ LET e == Trace[l] IN
     IF e.ev = "reset" THEN tr' = e.beh /\ prev' = <<>> /\ forced' = FALSE /\ bad' = bad
     ELSE IF e.ev = "Init" THEN prev' = e /\ UNCHANGED <<tr, forced, bad>>
     ELSE LET f2 == forced \/ (e.ev = "AdminSet" /\ e.res = "ok" /\ Live(e) # {} /\ Less(MinLive(e), e.v)) IN
          /\ forced' = f2 /\ prev' = e /\ tr' = tr
          /\ bad' = bad \cup {<<tr, c, l>> : c \in Clauses(prev, e, f2)}
Spec == Init /\ [][Consume]_vars
HW == IF l > TLCGet(1) THEN TLCSet(1, l) /\ TLCSet(2, bad) ELSE TRUE
AllConsumed == PrintT(<<"HW", TLCGet(1)>>) /\ PrintT(<<"BAD", TLCGet(2)>>) /\ TLCGet(1) = Len(Trace) + 1
=============================================================================
