---- MODULE MC_ClusterVersion ----
EXTENDS ClusterVersion
V == {<<4, 0, 0>>, <<4, 0, 9>>, <<5, 0, 0>>, <<5, 0, 2>>, <<5, 1, 0>>}
F == {<<4, 0, 0>>, <<5, 0, 0>>}
====
