SPECIFICATION Spec
CONSTANTS Stores = {1, 2, 3, 4}
  Addrs = {"a1", "a2", "a3"}
  Weights = {1, 2, 3}
  MaxOps = 40
  MaxFail = 40
CHECK_DEADLOCK FALSE
