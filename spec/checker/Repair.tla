---------------------------------- MODULE Repair ----------------------------------
(* C10: what a repair operator of the replica checker / the placement-rule checker may do,       *)
(* stated over the recorded input (stores as the filters see them, the region's peers with their  *)
(* down/pending lists, the replication settings or the rules with the region's fit) and the       *)
(* operator that the real checker proposed.  TLC evaluates every recorded case.                   *)
(* Store labels, label constraints and rule records are those of Fit.tla (C12).                   *)
EXTENDS Fit

St(e, s) == CHOOSE st \in ToSet(e.case.stores) : st.id = s
PeerStores(e) == {e.case.peers[i].store : i \in 1..Len(e.case.peers)}
PeerAt(e, s) == e.case.peers[CHOOSE i \in 1..Len(e.case.peers) : e.case.peers[i].store = s]
Adds(e) == {i \in 1..Len(e.steps) : e.steps[i].k \in {"AddPeer", "AddLightPeer", "AddLearner", "AddLightLearner"}}
Removes(e) == {i \in 1..Len(e.steps) : e.steps[i].k = "RemovePeer"}
AddedStores(e) == {e.steps[i].store : i \in Adds(e)}
RemovedStores(e) == {e.steps[i].store : i \in Removes(e)}

(* "up, connected, not low on space, not already holding a peer of the region" *)
GoodTarget(e, s) == LET st == St(e, s) IN st.state = "Up" /\ ~st.down /\ ~st.disc /\ ~st.low /\ s \notin PeerStores(e)
(* isolation level: no co-located store may share the label values down to that level *)
LevelIdx(loc, level) == IF \E i \in 1..Len(loc) : loc[i] = level THEN CHOOSE i \in 1..Len(loc) : loc[i] = level ELSE 1
Isolated(e, s, C, loc, level) ==
  Len(loc) = 0 \/ level = "" \/
  ~\E c \in C : \A i \in 1..LevelIdx(loc, level) : Label(St(e, s), loc[i]) = Label(St(e, c), loc[i])

(* no candidate can be better isolated from the stores in C than s: against every c, s differs on the first location label c carries *)
BestIsolated(e, s, C, loc) ==
  \A c \in C : LET L == {i \in 1..Len(loc) : Label(St(e, c), loc[i]) # ""} IN
     L = {} \/ LET i == CHOOSE x \in L : \A y \in L : x <= y IN Label(St(e, s), loc[i]) \notin {"", Label(St(e, c), loc[i])}

(* a peer is healthy unless its store is gone/offline/down or the region reports it down for long *)
Healthy(e, p) == LET st == St(e, p.store) IN st.state = "Up" /\ ~st.down /\ p.id \notin ToSet(e.down_long)
HealthyBefore(e) == Cardinality({i \in 1..Len(e.case.peers) : Healthy(e, e.case.peers[i])})
HealthyAfter(e) == Cardinality({i \in 1..Len(e.case.peers) : Healthy(e, e.case.peers[i]) /\ e.case.peers[i].store \notin RemovedStores(e)})
                   + Cardinality(AddedStores(e))
Voters(e) == Cardinality({i \in 1..Len(e.case.peers) : ~e.case.peers[i].learner})

(* a fresh, empty, unconstrained up store *)
Fresh(e, s) == LET st == St(e, s) IN GoodTarget(e, s) /\ st.regions = 0 /\ ~st.busy /\ ~st.snap /\ ~st.pend /\ ~st.nolimit
                                      /\ Label(st, "specialUse") = ""

(* ---- rules mode ---- *)
RuleOf(e, f) == e.case.rules[f.rule]
FitStores(e, f) == {PeerAt(e, s).store : s \in {x \in PeerStores(e) : PeerAt(e, x).id \in ToSet(f.peers)}}
RoleFits(rule, learnerStep) == (rule.role = "learner") = learnerStep
RuleTargetOK(e, i) ==
  LET s == e.steps[i].store
      learnerStep == e.steps[i].k \in {"AddLearner", "AddLightLearner"}
  IN \E j \in 1..Len(e.fit.fits) :
       LET f == e.fit.fits[j] r == RuleOf(e, f) IN
         /\ MatchConstraints(St(e, s), r.constraints)
         /\ Isolated(e, s, FitStores(e, f) \ RemovedStores(e), r.location, r.isolation)
AllRulesSatisfied(e) == \A j \in 1..Len(e.fit.fits) : e.fit.fits[j].satisfied
OrphanStores(e) == {s \in PeerStores(e) : PeerAt(e, s).id \in ToSet(e.fit.orphans)}

(* a rule that covers part of the key space: a region spanning one of its boundaries matches no rule set as a whole *)
BoundsInside(e) == {b \in ToSet(e.rule_bounds) : e.region_keys[1] < b /\ b < e.region_keys[2]}
Verdict10(e) ==
  LET netLoss == HealthyAfter(e) < HealthyBefore(e) IN
  (IF e.rules_mode /\ BoundsInside(e) # {} /\ ~(e.has_op /\ Len(e.steps) = 1 /\ e.steps[1].k = "Split" /\ ToSet(e.split_at) = BoundsInside(e))
     THEN {"RegionSpanningRuleBoundaryIsSplitThere"} ELSE {})
  \cup (IF (\E i \in 1..Len(e.steps) : e.steps[i].k = "Split") /\ ~(e.rules_mode /\ BoundsInside(e) # {}) THEN {"SplitOnlyAtRuleBoundaries"} ELSE {})
  \cup
  (IF \E i \in Adds(e) : ~GoodTarget(e, e.steps[i].store) THEN {"AddsOnlyOnGoodStores"} ELSE {})
  \cup (IF Adds(e) # {} /\ Removes(e) # {} /\ ~(\A i \in Adds(e), j \in Removes(e) : i < j)
        THEN (IF \A j \in Removes(e) : PeerAt(e, e.steps[j].store).learner /\ \A i \in Adds(e) : \E k \in 1..Len(e.steps) : e.steps[k].k = "PromoteLearner" /\ e.steps[k].store = e.steps[i].store
              THEN {"ReplacementAddedBeforeRemoval_LearnerReplacedByVoter"} ELSE {"ReplacementAddedBeforeRemoval"})
        ELSE {})
  \cup (IF ~e.rules_mode THEN
          (IF \E i \in Adds(e) : ~Isolated(e, e.steps[i].store, PeerStores(e) \ RemovedStores(e), e.cfg.location, e.cfg.isolation)
             THEN {"AddsRespectIsolationLevel"} ELSE {})
          \cup (IF netLoss /\ ~(Voters(e) > e.cfg.max) THEN {"HealthyPeersNotLowered"} ELSE {})
          \cup (IF Len(e.case.peers) < e.cfg.max /\ ~e.has_op /\
                   (\E s \in {st.id : st \in ToSet(e.case.stores)} : Fresh(e, s) /\ MatchConstraints(St(e, s), <<>>)
                         /\ Isolated(e, s, PeerStores(e), e.cfg.location, e.cfg.isolation) /\ BestIsolated(e, s, PeerStores(e), e.cfg.location))
                THEN {"RepairProposedWhenFreshStoreExists"} ELSE {})
        ELSE
          (IF \E i \in Adds(e) : ~RuleTargetOK(e, i) THEN {"AddsRespectRuleConstraintsAndIsolation"} ELSE {})
          \cup (IF netLoss /\ ~(AllRulesSatisfied(e) /\ RemovedStores(e) \subseteq OrphanStores(e)) THEN {"HealthyPeersNotLowered"} ELSE {})
          \cup (IF ~e.has_op /\ (\E j \in 1..Len(e.fit.fits) : LET f == e.fit.fits[j] r == RuleOf(e, f) IN
                      Len(f.peers) < r.count /\
                      \E s \in {st.id : st \in ToSet(e.case.stores)} : Fresh(e, s) /\ MatchConstraints(St(e, s), r.constraints)
                            /\ Isolated(e, s, FitStores(e, f), r.location, r.isolation) /\ BestIsolated(e, s, FitStores(e, f), r.location))
                THEN {"RepairProposedWhenFreshStoreExists"} ELSE {}))

(* how often each clause had something to judge (vacuity check) *)
Applicable(e) ==
  (IF Adds(e) # {} THEN {"adds"} ELSE {}) \cup (IF Adds(e) # {} /\ Removes(e) # {} THEN {"replacements"} ELSE {})
  \cup (IF HealthyAfter(e) < HealthyBefore(e) THEN {"net_loss_of_healthy_peers"} ELSE {})
  \cup (IF ~e.rules_mode /\ Len(e.case.peers) < e.cfg.max /\
            (\E s \in {st.id : st \in ToSet(e.case.stores)} : Fresh(e, s) /\ Isolated(e, s, PeerStores(e), e.cfg.location, e.cfg.isolation) /\ BestIsolated(e, s, PeerStores(e), e.cfg.location))
        THEN {"under_replicated_with_fresh_store"} ELSE {})
  \cup (IF e.rules_mode /\ (\E j \in 1..Len(e.fit.fits) : LET f == e.fit.fits[j] r == RuleOf(e, f) IN
                      Len(f.peers) < r.count /\
                      \E s \in {st.id : st \in ToSet(e.case.stores)} : Fresh(e, s) /\ MatchConstraints(St(e, s), r.constraints)
                            /\ Isolated(e, s, FitStores(e, f), r.location, r.isolation) /\ BestIsolated(e, s, FitStores(e, f), r.location))
        THEN {"rule_under_replicated_with_fresh_store"} ELSE {})
VARIABLE cov
Names == {"adds", "replacements", "net_loss_of_healthy_peers", "under_replicated_with_fresh_store", "rule_under_replicated_with_fresh_store"}
RInit == Init /\ cov = [n \in Names |-> 0] /\ TLCSet(3, <<>>)
RConsume == /\ l <= Len(Trace) /\ l' = l + 1
            /\ LET e == Trace[l] IN
                 IF e.ev # "case" THEN bad' = bad /\ cov' = cov
                 ELSE /\ bad' = bad \cup {<<e.n, c, l>> : c \in Verdict10(e)}
                      /\ cov' = [n \in Names |-> cov[n] + (IF n \in Applicable(e) THEN 1 ELSE 0)]
RSpec == RInit /\ [][RConsume]_<<vars, cov>>
RHW == IF l > TLCGet(1) THEN TLCSet(1, l) /\ TLCSet(2, bad) /\ TLCSet(3, cov) ELSE TRUE
RAllConsumed == PrintT(<<"COV", TLCGet(3)>>) /\ AllConsumed
=============================================================================
