SPECIFICATION MSpec
CONSTRAINT HW
POSTCONDITION AllConsumed
CHECK_DEADLOCK FALSE
