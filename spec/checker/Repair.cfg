SPECIFICATION RSpec
CONSTRAINT RHW
POSTCONDITION RAllConsumed
CHECK_DEADLOCK FALSE
