---------------------------------- MODULE Merge ----------------------------------
(* Beyond the listed properties (same family as C10): what the merge checker may propose.        *)
(* Every recorded call (the key space with sizes, peers, health, hot/split marks, settings, the  *)
(* proposed pair of operators) is judged; the source operator's peer-matching steps are executed  *)
(* on the region model of Steps.tla.                                                             *)
EXTENDS Steps

Reg(e, id) == CHOOSE r \in ToSet(e.regions) : r.id = id
Idx(e, id) == CHOOSE i \in 1..Len(e.regions) : e.regions[i].id = id
Adjacent(e, a, b) == Idx(e, a) + 1 = Idx(e, b) \/ Idx(e, b) + 1 = Idx(e, a)
RuleBoundaryBetween(e, a, b) == LET i == IF Idx(e, a) < Idx(e, b) THEN Idx(e, a) ELSE Idx(e, b) IN e.cfg.rules /\ e.regions[i].rule_keys_to_next > 0
Healthy(e, r) == r.down = 0 /\ r.pending = 0 /\ (e.cfg.rules \/ r.learners = 0)
Small(e, r) == r.size > 0 /\ r.size <= e.cfg.max_size /\ r.keys <= e.cfg.max_keys
SameTable(e, a, b) == e.cfg.key_type \in {"raw", "txn"} \/ e.cfg.cross_table \/ Reg(e, a).table = Reg(e, b).table
GoodTarget(e, s, t) == /\ Adjacent(e, s, t) /\ ~Reg(e, t).split /\ ~Reg(e, t).hot /\ Healthy(e, Reg(e, t)) /\ Reg(e, t).replicated
                       /\ ~RuleBoundaryBetween(e, s, t) /\ SameTable(e, s, t)
Placement(ps) == {<<s, ps[s].role>> : s \in DOMAIN ps}

VerdictM(e) ==
  LET s == e.checked
      S == Reg(e, s)
      ok == Small(e, S) /\ Healthy(e, S) /\ S.replicated /\ ~S.hot /\ ~S.split
      next == IF Idx(e, s) < Len(e.regions) THEN e.regions[Idx(e, s) + 1].id ELSE 0
      prev == IF Idx(e, s) > 1 THEN e.regions[Idx(e, s) - 1].id ELSE 0
      nextOK == next # 0 /\ GoodTarget(e, s, next)
      prevOK == prev # 0 /\ ~e.cfg.one_way /\ GoodTarget(e, s, prev)
      want == IF prevOK /\ (~nextOK \/ Reg(e, prev).size < Reg(e, next).size) THEN prev ELSE IF nextOK THEN next ELSE 0
  IN IF e.has_op THEN
       LET t == e.target T == Reg(e, t)
           n == Len(e.steps)
           out == Run(RegionOf(S.peers, S.leader), SubSeq(e.steps, 1, n - 1), 1, 0, {})
       IN (IF e.nops # 2 \/ e.source # s THEN {"MergeComesAsAPairForTheCheckedRegion"} ELSE {})
          \cup (IF ~ok THEN {"SourceSmallHealthyReplicatedColdNotJustSplit"} ELSE {})
          \cup (IF ~GoodTarget(e, s, t) THEN {"TargetAdjacentHealthyReplicatedColdSameTableNoRuleBoundary"} ELSE {})
          \cup (IF e.cfg.one_way /\ t # next THEN {"OneWayMergesOnlyIntoTheNextRegion"} ELSE {})
          \cup (IF T.size > 500 THEN {"TargetNotTooLarge"} ELSE {})
          \cup (IF want # 0 /\ t # want THEN {"SmallerNeighbourPreferred"} ELSE {})
          \cup (IF n = 0 \/ e.steps[n].k # "Merge" \/ e.steps[n].passive \/ Len(e.passive) # 1 \/ e.passive[1].k # "Merge" \/ ~e.passive[1].passive
                THEN {"ActiveMergeOnSourcePassiveOnTarget"} ELSE {})
          \cup (IF n > 0 /\ Placement(out[1].peers) # Placement(RegionOf(T.peers, T.leader).peers) THEN {"SourcePeersMatchTargetBeforeMerging"} ELSE {})
          \cup (out[2] \cap {"OnePeerPerStore", "LeaderNeverRemovedOrDemoted", "TransferTargetLegal", "StepPreconditionHolds"})
     ELSE (IF ok /\ want # 0 /\ Reg(e, want).size <= 500 THEN {"MergeProposedWhenPossible"} ELSE {})

MConsume == /\ l <= Len(Trace) /\ l' = l + 1
            /\ LET e == Trace[l] IN
                 IF e.ev # "merge" THEN bad' = bad
                 ELSE bad' = bad \cup {<<e.n, c, l>> : c \in VerdictM(e)}
MSpec == Init /\ [][MConsume]_vars
=============================================================================
