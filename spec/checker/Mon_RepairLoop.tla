------------------------------ MODULE Mon_RepairLoop ------------------------------
(* Closed loop (beyond the listed properties, composing C08-C10): the real CheckerController      *)
(* proposes an operator for a region, the real OperatorController runs it, the store simulator     *)
(* executes every command that the heartbeat streams deliver, the region is heartbeated back, and  *)
(* the checker is asked again - until it has nothing left to do.  The monitor judges the history:   *)
(*   OperatorEndsInSuccess      an admitted operator executed faithfully, with no foreign change,   *)
(*                              ends in success (it is neither judged stale nor stuck)              *)
(*   NoTransientDipOfHealthyVoters  while an operator runs the number of healthy voters never       *)
(*                              drops below the smaller of its values before and after the operator  *)
(*   HealthyVotersShrinkOnlyWhenAllowed  (replica mode) an operator lowers it only when the region   *)
(*                              had more voters than max-replicas                                    *)
(*   Converges                  the checker reaches a fixpoint within the operator budget (no       *)
(*                              ping-pong between placements)                                        *)
(*   FixpointOutsideJointState  nothing is left in the joint state                                   *)
EXTENDS Integers, Sequences, FiniteSets, TLC, Json
Trace == ndJsonDeserialize("trace.ndjson")
ToSet(q) == {q[i] : i \in 1..Len(q)}
MinN(a, b) == IF a < b THEN a ELSE b

VARIABLES l, bad, tr, hdr, hvProp, votersProp, minHV, inOp
vars == <<l, bad, tr, hdr, hvProp, votersProp, minHV, inOp>>
Init == l = 1 /\ bad = {} /\ tr = 0 /\ hdr = <<>> /\ hvProp = 0 /\ votersProp = 0 /\ minHV = 0 /\ inOp = FALSE /\ TLCSet(1, 0) /\ TLCSet(2, {})

Store(h, s) == CHOOSE st \in ToSet(h.stores) : st.id = s
Voterish(p) == p[3] \in {"Voter", "IncomingVoter"}      \* a demoting voter is on its way out: leaving the joint state is not a loss
HV(h, e) == Cardinality({i \in 1..Len(e.region.peers) :
               LET p == e.region.peers[i] st == Store(h, p[1]) IN Voterish(p) /\ st.state = "Up" /\ ~st.down /\ p[2] \notin ToSet(e.down_long)})
Voters(e) == Cardinality({i \in 1..Len(e.region.peers) : Voterish(e.region.peers[i])})
InJoint(e) == \E i \in 1..Len(e.region.peers) : e.region.peers[i][3] \in {"IncomingVoter", "DemotingVoter"}

Consume ==
  /\ l <= Len(Trace) /\ l' = l + 1
  /\ LET e == Trace[l] IN
     CASE e.ev = "reset" -> tr' = e.beh /\ hdr' = e /\ inOp' = FALSE /\ UNCHANGED <<bad, hvProp, votersProp, minHV>>
       [] e.ev = "disturb" -> hdr' = [hdr EXCEPT !.stores = e.stores] /\ UNCHANGED <<bad, tr, hvProp, votersProp, minHV, inOp>>   \* a store failed between two operators
       [] e.ev = "propose" -> /\ hvProp' = HV(hdr, e) /\ votersProp' = Voters(e) /\ minHV' = HV(hdr, e) /\ inOp' = e.admitted
                              /\ UNCHANGED <<bad, tr, hdr>>
       [] e.ev = "hb" -> /\ minHV' = (IF inOp THEN MinN(minHV, HV(hdr, e)) ELSE minHV) /\ UNCHANGED <<bad, tr, hdr, hvProp, votersProp, inOp>>
       [] e.ev = "ended" ->
            LET hvEnd == HV(hdr, e)
                c == (IF e.status # "Success" THEN {"OperatorEndsInSuccess"} ELSE {})
                     \cup (IF MinN(minHV, hvEnd) < MinN(hvProp, hvEnd) THEN {"NoTransientDipOfHealthyVoters"} ELSE {})
                     \cup (IF ~hdr.rules_mode /\ hvEnd < hvProp /\ ~(votersProp > hdr.cfg.max) THEN {"HealthyVotersShrinkOnlyWhenAllowed"} ELSE {})
            IN bad' = bad \cup {<<tr, x, l>> : x \in c} /\ inOp' = FALSE /\ UNCHANGED <<tr, hdr, hvProp, votersProp, minHV>>
       [] e.ev = "end" ->
            LET c == (IF e.how = "exhausted" THEN {"Converges"} ELSE {})
                     \cup (IF e.how = "fixpoint" /\ InJoint(e) THEN {"FixpointOutsideJointState"} ELSE {})
            IN bad' = bad \cup {<<tr, x, l>> : x \in c} /\ UNCHANGED <<tr, hdr, hvProp, votersProp, minHV, inOp>>
       [] OTHER -> UNCHANGED <<bad, tr, hdr, hvProp, votersProp, minHV, inOp>>
Spec == Init /\ [][Consume]_vars
HW == IF l > TLCGet(1) THEN TLCSet(1, l) /\ TLCSet(2, bad) ELSE TRUE
AllConsumed == PrintT(<<"HW", TLCGet(1)>>) /\ PrintT(<<"BAD", TLCGet(2)>>) /\ TLCGet(1) = Len(Trace) + 1
=============================================================================
