#!/usr/bin/env python3
"""Assemble DESIGN.md = as-built part (tools/asbuilt_manual.md with generated tables) + the round-0 design (tools/design_round0.md)."""
import glob, json, os, re
V = '/verif'
claims = json.load(open(V + '/tools/claims.json'))
props = {}
for l in open(V + '/properties.jsonl'):
    p = json.loads(l)
    props[p['id']] = p
finds = json.load(open(V + '/known_findings.json'))['findings']
ids = sorted(claims)


def specs_of(pid):
    src = open('%s/checks/%s.py' % (V, pid.lower())).read()
    if 'tso_common' in src or 'import tso_common' in src:
        src += open(V + '/checks/tso_common.py').read()
    mods = sorted(set(re.findall(r"'((?:MC_|Mon_|Trace_|Sim_)?[A-Z][A-Za-z]+)(?:\.cfg|\.tla)?'", src)))
    cfgs = sorted(set(re.findall(r"'([A-Za-z_0-9]+\.cfg)'", src)))
    return cfgs


def table():
    out = ['| id | title | specifications / configurations used by the check | deciding method |', '|---|---|---|---|']
    for pid in ids:
        out.append('| %s | %s | %s | %s |' % (pid, props[pid]['title'], ', '.join('`%s`' % c for c in specs_of(pid)), claims[pid]['technique']))
    out.append('')
    for pid in ids:
        out.append('**%s.** %s' % (pid, claims[pid]['text']))
        out.append('')
        out.append('*Limits:* %s' % claims[pid]['note'])
        ev = V + '/evidence/%s.json' % pid
        if os.path.exists(ev):
            e = json.load(open(ev))
            c = e['coverage']
            mc = '; '.join('%s: %s distinct states%s' % (r['cfg'], r['distinct_states'], (' (violates %s, as expected)' % r['violated']) if r.get('violated') else '')
                           for r in c.get('model_checking_runs', []))
            out.append('')
            out.append('*Last %s run (seed %s, %ss):* %s traces / %s events of the real code validated; %s%s' % (
                e['tier'], e['seed'], e['wall_s'], c.get('traces_validated_against_impl'), c.get('events_validated'),
                ('model checking: ' + mc) if mc else 'no exhaustive model (oracle over recorded cases)',
                ('; spec drift entries: %d' % len(c['spec_drift'])) if c.get('spec_drift') else ''))
        out.append('')
    return '\n'.join(out)


def assumptions():
    out = []
    for pid in ids:
        ev = V + '/evidence/%s.json' % pid
        if not os.path.exists(ev):
            continue
        a = json.load(open(ev)).get('assumptions') or []
        if a:
            out.append('* **%s**' % pid)
            for x in a:
                out.append('  * %s' % x)
    return '\n'.join(out)


def findings():
    out = ['**Repaired (one `fix:` commit each in /repo):**', '']
    for f in finds:
        if f['status'] == 'fixed':
            out.append('* `%s` (%s) – %s. *Failing case:* %s' % (f['commit'], f['property'], f['what'], f.get('line', '').split(' ', 3)[-1]))
    out += ['', '**Open (recorded, printed as `KNOWN-FINDING`, exit 0):**', '']
    for f in finds:
        if f['status'] == 'open':
            out.append('* `%s` (%s) – %s. *History:* %s' % (f['id'], f['property'], f['what'], f.get('history', f.get('mc_cfg', ''))))
    return '\n'.join(out)


def seeds():
    out = ['| change | files touched | reported by (quick tier) | clauses |', '|---|---|---|---|']
    for d in sorted(glob.glob(V + '/seeded/*/')):
        name = os.path.basename(d.rstrip('/'))
        meta = json.load(open(d + 'meta.json'))
        files = sorted(set(re.findall(r'^diff --git a/(\S+)', open(d + 'patch.diff').read(), re.M)))
        det = meta.get('detected_by')
        if meta.get('applies_to_current_tree') is False:
            rep, cl = 'superseded: no longer applies after a `fix:` commit (%s)' % (meta.get('note', 'see meta.json')), ''
        elif isinstance(det, dict) and det:
            parts = []
            cl = ''
            for tier in ('quick', 'thorough'):
                if tier in det:
                    x = det[tier]
                    parts.append('%s: %s' % (tier, ('%d VIOLATION line(s), exit %d' % (x['violations'], x['exit'])) if x['violations'] else 'NOT reported (exit %d)' % x['exit']))
                    cl = cl or ', '.join(x.get('clauses', []))
            rep = '; '.join(parts)
        else:
            rep, cl = 'not run yet', ''
        out.append('| %s | %s | %s | %s |' % (name, ', '.join('`%s`' % f for f in files), rep, cl))
    return '\n'.join(out)


man = open(V + '/tools/asbuilt_manual.md').read()
man = man.replace('{{TABLE}}', table()).replace('{{ASSUMPTIONS}}', assumptions()).replace('{{FINDINGS}}', findings()).replace('{{SEEDS}}', seeds())
r0 = open(V + '/tools/design_round0.md').read()
r0 = r0.replace('# Model-based verification of pingcap/pd with explicit TLA+ specifications', '# Part II – the design as written before the build (round 0)', 1)
open(V + '/DESIGN.md', 'w').write(man + '\n' + r0)
print('DESIGN.md written: %d lines' % (man + r0).count('\n'))
