#!/bin/bash
# confirm_seed.sh <src dir with patch.diff demo_test.go README.md> <Cxx> <name> <pkgdir> <go test args for the demo...>
# Confirms in a scratch worktree: patch applies, builds, demo passes clean / fails patched, touched packages' tests pass.
# On success stores /verif/seeded/<Cxx>-<name>/{patch.diff,demo_test.go,README.md,meta.json}.
set -u
SRC=$1; ID=$2; NAME=$3; PKG=$4; shift 4
export GOFLAGS=-mod=mod GOPROXY=off GOSUMDB=off GOTOOLCHAIN=local
WT=/tmp/seedchk_${ID}_${NAME}
git -C /repo worktree remove --force $WT 2>/dev/null
git -C /repo worktree add -q --detach $WT HEAD || exit 2
cleanup() { git -C /repo worktree remove --force $WT; }
trap cleanup EXIT
cp $SRC/demo_test.go $WT/$PKG/zz_seed_demo_test.go
cd $WT
echo "== demo on clean tree"
go test -vet=off -count=1 ./$PKG/ "$@" > /tmp/seedchk_clean.log 2>&1; RC_CLEAN=$?
tail -3 /tmp/seedchk_clean.log
git apply $SRC/patch.diff || { echo "PATCH DOES NOT APPLY"; exit 1; }
go build ./server/... ./pkg/... ./client/... 2>&1 | grep -v "dashboard\|^#" | head -5
echo "== demo on patched tree"
go test -vet=off -count=1 ./$PKG/ "$@" > /tmp/seedchk_patched.log 2>&1; RC_PATCHED=$?
tail -5 /tmp/seedchk_patched.log
rm $WT/$PKG/zz_seed_demo_test.go
# existing tests of touched packages (baseline packages only)
PKGS=$(git diff --name-only | xargs -n1 dirname | sort -u | grep -v "^server/api$\|^server/cluster$\|^server/schedule$\|^tests" )
RC_TESTS=0; TESTED=""
for p in $PKGS; do
  if ls $p/*_test.go >/dev/null 2>&1; then
    go test -vet=off -count=1 -timeout 20m ./$p/ > /tmp/seedchk_pkg.log 2>&1 || { RC_TESTS=1; tail -20 /tmp/seedchk_pkg.log; }
    TESTED="$TESTED $p"
  fi
done
echo "clean=$RC_CLEAN patched=$RC_PATCHED tests=$RC_TESTS tested:$TESTED"
if [ $RC_CLEAN -eq 0 ] && [ $RC_PATCHED -ne 0 ] && [ $RC_TESTS -eq 0 ]; then
  D=/verif/seeded/$ID-$NAME
  mkdir -p $D
  cp $SRC/patch.diff $SRC/demo_test.go $D/
  [ -f $SRC/README.md ] && cp $SRC/README.md $D/
  python3 - "$D" "$ID" "$PKG" "$TESTED" "$*" <<'PY'
import json, sys, re
d, pid, pkg, tested, args = sys.argv[1:6]
readme = open(d + '/README.md').read() if __import__('os').path.exists(d + '/README.md') else ''
json.dump({'property': pid, 'demo_package_dir': pkg, 'demo_cmd': 'go test -vet=off -count=1 %s ./%s/' % (args, pkg),
           'confirmed': {'demo_passes_on_clean_tree': True, 'demo_fails_with_patch': True, 'builds': True,
                         'existing_tests_of_touched_packages_pass': tested.split()},
           'needs_to_manifest': 'see README.md', 'detected_by': None}, open(d + '/meta.json', 'w'), indent=1)
PY
  echo "CONFIRMED $ID-$NAME"
else
  echo "NOT CONFIRMED $ID-$NAME"
fi
