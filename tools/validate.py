#!/opt/veriftools/pyvenv/bin/python
import glob, json, jsonschema, sys
jsonschema.validate(json.load(open('/verif/MANIFEST.json')), json.load(open('/root/.vp/MANIFEST.schema.json')))
s = json.load(open('/root/.vp/EVIDENCE.schema.json'))
for f in sorted(glob.glob('/verif/evidence/*.json')):
    jsonschema.validate(json.load(open(f)), s)
    print('valid', f)
print('manifest valid')
