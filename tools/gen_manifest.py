#!/usr/bin/env python3
"""Regenerates MANIFEST.json from the table below (claimed checks) + properties.jsonl."""
import json
import os

V = os.path.dirname(os.path.dirname(os.path.abspath(__file__)))
CLAIMED = json.load(open(os.path.join(V, 'tools', 'claims.json')))
props = [json.loads(l) for l in open(os.path.join(V, 'properties.jsonl'))]
checks, na = [], []
for p in props:
    c = CLAIMED.get(p['id'])
    if not c or c.get('not_applicable'):
        na.append({'property_id': p['id'], 'reason': (c or {}).get('reason', 'check not built yet in this round; planned in DESIGN.md section 3')})
        continue
    checks.append({
        'property_id': p['id'],
        'quick_cmd': 'bin/check %s --tier quick' % p['id'],
        'thorough_cmd': 'bin/check %s --tier thorough' % p['id'],
        'evidence_file': 'evidence/%s.json' % p['id'],
        'replay_cmd_template': 'bin/check %s --replay {path}' % p['id'],
        'engine': 'tlc+pdverif',
        'level_claimed': {'category': c.get('level', 'model_checking'), 'text': c['text'], 'design_ref': c.get('design_ref', 'DESIGN.md I.3 (as built, ' + p['id'] + ') and Part II section 3 (analysis)')},
        'level_note': c['note'],
        'technique': c['technique'],
    })
hooks_commits = json.load(open(os.path.join(V, 'tools', 'hooks.json')))
m = {
    'version': 1,
    'setup_cmd': 'bin/setup',
    'hooks': {
        'guard': 'verif',
        'enable': 'go build -tags verif (the harness module /verif/harness replaces github.com/tikv/pd => /repo and is always built with -tags verif)',
        'baseline_off_cmd': 'cd /repo && go test -mod=mod -vet=off -count=1 -timeout 25m ./...',
        'source_commits': hooks_commits,
        'add_only': True,
    },
    'engines': [{'name': 'tlc+pdverif', 'path': 'bin/check',
                 'serves_properties': [c['property_id'] for c in checks],
                 'kind_free_text': 'TLA+ specifications under spec/ model-checked by TLC; TLC behaviours replayed into real pingcap/pd code by the Go harness (harness/, built from /repo with -tags verif) under storage-transaction gates; recorded real executions validated by TLC against monitor / trace / oracle specifications; inductive invariants of four models discharged with Apalache (C03, C04, C14, C15)'}],
    'checks': checks,
    'not_applicable': na,
    'notes': 'exit 2 = inconclusive (tool failure / timeout), never a violation. known_findings.json lists genuine defects that are reported as KNOWN-FINDING (open) or were repaired by a fix: commit in /repo (fixed; suppresses nothing). DESIGN.md Part I describes what exists; bin/selftest shows that the monitors reject corrupted recordings; tools/seed_matrix.py runs the checks against the seeded changes under seeded/.',
}
json.dump(m, open(os.path.join(V, 'MANIFEST.json'), 'w'), indent=1)
print('claimed', len(checks), 'not_applicable', len(na))
