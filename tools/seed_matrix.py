#!/usr/bin/env python3
"""Apply every seeded change to /repo in turn, run the check of its property, record what reported it in seeded/<id>/meta.json,
undo the change. Usage: tools/seed_matrix.py [--tier quick|thorough] [ids...]"""
import glob, json, os, re, subprocess, sys, time
V = '/verif'
tier = 'quick'
args = [a for a in sys.argv[1:] if a not in ('--resume', '--alt')]
ALT = '/tmp/verif_alt' if '--alt' in sys.argv else None      # run against a scratch worktree instead of /repo
REPO = '/repo'
if ALT:
    REPO = ALT + '/repo'
    subprocess.run(['git', '-C', '/repo', 'worktree', 'remove', '--force', REPO], capture_output=True)
    os.makedirs(ALT, exist_ok=True)
    subprocess.check_call(['git', '-C', '/repo', 'worktree', 'add', '-q', '--detach', REPO, 'HEAD'])
if args and args[0] == '--tier':
    tier = args[1]; args = args[2:]
dirs = sorted(glob.glob(V + '/seeded/*/'))
if args:
    dirs = [d for d in dirs if os.path.basename(d.rstrip('/')) in args]
assert subprocess.run(['git', '-C', REPO, 'status', '--porcelain'], capture_output=True, text=True).stdout.strip() == '', '/repo not clean'
for d in dirs:
    name = os.path.basename(d.rstrip('/'))
    prop = name.split('-')[0]
    mp = os.path.join(d, 'meta.json')
    meta = json.load(open(mp))
    if '--resume' in sys.argv and isinstance(meta.get('detected_by'), dict) and tier in meta['detected_by']:
        continue
    patch = os.path.join(d, 'patch.diff')
    if subprocess.run(['git', '-C', REPO, 'apply', '--check', patch], capture_output=True).returncode != 0:
        meta['applies_to_current_tree'] = False
        json.dump(meta, open(mp, 'w'), indent=1)
        print(name, 'does not apply (superseded by a fix)')
        continue
    subprocess.check_call(['git', '-C', REPO, 'apply', patch])
    t0 = time.time()
    try:
        p = subprocess.run([V + '/bin/check', prop, '--tier', tier], capture_output=True, text=True, timeout=3600,
                           env=dict(os.environ, VERIF_EVIDENCE_DIR='/tmp/matrix_evidence', **({'VERIF_ALT': ALT, 'VERIF_REPO': REPO} if ALT else {})))
        out = p.stdout + p.stderr
        rc = p.returncode
    except subprocess.TimeoutExpired:
        out, rc = '', 2
    finally:
        subprocess.check_call(['git', '-C', REPO, 'checkout', '--', '.'])
    viol = re.findall(r'VIOLATION property=\S+ replay=(\S+)', out)
    what = sorted(set(re.findall(r'violated: (\S+)', out)))
    meta['applies_to_current_tree'] = True
    det = meta.get('detected_by') if isinstance(meta.get('detected_by'), dict) else {}
    det[tier] = {'check': 'bin/check %s --tier %s' % (prop, tier), 'exit': rc, 'violations': len(viol), 'clauses': what[:8], 'wall_s': round(time.time() - t0)}
    meta['detected_by'] = det
    json.dump(meta, open(mp, 'w'), indent=1)
    print(name, 'rc=%d' % rc, len(viol), 'violation(s)', what[:4], '%ds' % (time.time() - t0), flush=True)
subprocess.run('rm -rf %s/replays/C*' % (ALT or V), shell=True)
if ALT:
    subprocess.run(['git', '-C', '/repo', 'worktree', 'remove', '--force', REPO])
