// pdverif drives real pingcap/pd code (built from /repo with -tags verif) along schedules taken from
// TLA+ behaviours or seeded random drivers and records what the code did as ndjson.
package main

import (
	"os"

	"pdverif/internal/cli"
	_ "pdverif/internal/gc"
	_ "pdverif/internal/bootstraph"
	_ "pdverif/internal/clusterh"
	_ "pdverif/internal/configh"
	_ "pdverif/internal/electionh"
	_ "pdverif/internal/idalloc"
	_ "pdverif/internal/operatorh"
	_ "pdverif/internal/checkerh"
	_ "pdverif/internal/placementh"
	_ "pdverif/internal/regionh"
	_ "pdverif/internal/schedh"
	_ "pdverif/internal/replh"
	_ "pdverif/internal/storageh"
	_ "pdverif/internal/syncerh"
	_ "pdverif/internal/tsoh"
)

func main() {
	cli.QuietLogs()
	os.Exit(cli.Run(os.Args[1:]))
}
