// Package etcdgate provides an embedded etcd and clients whose transactions pass through a gate.
package etcdgate

import (
	"context"
	"io/ioutil"
	"os"
	"time"

	"github.com/tikv/pd/pkg/etcdutil"
	"go.etcd.io/etcd/clientv3"
	"go.etcd.io/etcd/embed"
	"go.uber.org/zap"

	"pdverif/internal/gate"
)

// Etcd is an embedded single-node etcd.
type Etcd struct {
	E   *embed.Etcd
	Cfg *embed.Config
	EP  string
}

// Start starts an embedded etcd.
func Start() (*Etcd, error) {
	cfg := etcdutil.NewTestSingleConfig()
	cfg.Logger = "zap"
	cfg.LogOutputs = []string{"/dev/null"}
	cfg.LogLevel = "error"
	e, err := embed.StartEtcd(cfg)
	if err != nil {
		return nil, err
	}
	select {
	case <-e.Server.ReadyNotify():
	case <-time.After(30 * time.Second):
		return nil, context.DeadlineExceeded
	}
	return &Etcd{E: e, Cfg: cfg, EP: cfg.LCUrls[0].String()}, nil
}

// Stop stops etcd and removes its data dir.
func (e *Etcd) Stop() {
	e.E.Close()
	os.RemoveAll(e.Cfg.Dir)
}

// Client returns a plain client.
func (e *Etcd) Client() (*clientv3.Client, error) {
	lc := zap.NewProductionConfig()
	lc.Level = zap.NewAtomicLevelAt(zap.FatalLevel)
	lc.OutputPaths = []string{"/dev/null"}
	lc.ErrorOutputPaths = []string{"/dev/null"}
	return clientv3.New(clientv3.Config{Endpoints: []string{e.EP}, DialTimeout: 5 * time.Second, LogConfig: &lc})
}

// GatedClient returns a client whose KV field goes through s. Note that pingcap/pd reads through
// clientv3.NewKV(client), which bypasses the field: only Put/Delete/Txn issued via the client are gated.
func (e *Etcd) GatedClient(s *gate.Sched) (*clientv3.Client, *KV, error) {
	c, err := e.Client()
	if err != nil {
		return nil, nil, err
	}
	k := &KV{KV: c.KV, S: s}
	c.KV = k
	return c, k, nil
}

// TxnInfo describes a committed (or attempted) transaction for logging.
type TxnInfo struct {
	Key       string
	Val       string
	Decision  gate.Decision
	Succeeded bool
	Err       error
}

// KV wraps clientv3.KV.
type KV struct {
	clientv3.KV
	S *gate.Sched
	// OnTxn, if set, is called after every transaction (under no lock).
	OnTxn func(TxnInfo)
	// Fallback, if set, names the process that transactions of unregistered goroutines belong to.
	Fallback func() *gate.Proc
}

// Put gates a put.
func (k *KV) Put(ctx context.Context, key, val string, opts ...clientv3.OpOption) (*clientv3.PutResponse, error) {
	d := k.S.At("put", key, val)
	if d == gate.FailBefore {
		return nil, gate.ErrInjected
	}
	r, err := k.KV.Put(ctx, key, val, opts...)
	if d == gate.FailAfter {
		return nil, gate.ErrInjected
	}
	return r, err
}

// Txn creates a gated transaction. The inner transaction uses a background context so that a txn
// parked for long is not cancelled by pingcap/pd's 10s request timeout.
func (k *KV) Txn(ctx context.Context) clientv3.Txn {
	return &txn{Txn: k.KV.Txn(context.Background()), k: k}
}

type txn struct {
	clientv3.Txn
	k   *KV
	key string
	val string
}

func (t *txn) If(cs ...clientv3.Cmp) clientv3.Txn   { t.Txn = t.Txn.If(cs...); return t }
func (t *txn) Else(ops ...clientv3.Op) clientv3.Txn { t.Txn = t.Txn.Else(ops...); return t }
func (t *txn) Then(ops ...clientv3.Op) clientv3.Txn {
	for _, op := range ops {
		if (op.IsPut() || op.IsDelete()) && t.key == "" {
			t.key = string(op.KeyBytes())
			t.val = string(op.ValueBytes())
		}
	}
	t.Txn = t.Txn.Then(ops...)
	return t
}

func (t *txn) Commit() (*clientv3.TxnResponse, error) {
	d := t.k.S.AtFor(t.k.Fallback, "txn", t.key, t.val)
	info := TxnInfo{Key: t.key, Val: t.val, Decision: d}
	if d == gate.FailBefore {
		info.Err = gate.ErrInjected
		if t.k.OnTxn != nil {
			t.k.OnTxn(info)
		}
		return nil, gate.ErrInjected
	}
	r, err := t.Txn.Commit()
	if r != nil {
		info.Succeeded = r.Succeeded
	}
	info.Err = err
	if d == gate.FailAfter {
		info.Err = gate.ErrInjected
		if t.k.OnTxn != nil {
			t.k.OnTxn(info)
		}
		return nil, gate.ErrInjected
	}
	if t.k.OnTxn != nil {
		t.k.OnTxn(info)
	}
	return r, err
}

// TempDir makes a temp dir (caller removes).
func TempDir(prefix string) string {
	d, err := ioutil.TempDir("", prefix)
	if err != nil {
		panic(err)
	}
	return d
}
