// Package faultkv wraps kv.Base: gates (parks) storage operations of registered goroutines, and injects
// failures at chosen writes.
package faultkv

import (
	"sync"

	"github.com/tikv/pd/server/kv"

	"pdverif/internal/gate"
)

// Op is one logged storage operation.
type Op struct {
	Op, Key, Val string
	Failed       bool
}

// KV wraps a kv.Base.
type KV struct {
	kv.Base
	S *gate.Sched

	mu       sync.Mutex
	writes   int  // writes seen since Arm
	failAt   int  // the failAt-th write since Arm fails (0 = none)
	failLoad int  // the failLoad-th Load/LoadRange since Arm fails (0 = none)
	loads    int
	after    bool // injected write failure is applied-but-error instead of not-applied
	Log      []Op
	Record   bool
}

// New wraps base.
func New(base kv.Base, s *gate.Sched) *KV { return &KV{Base: base, S: s} }

// Arm resets the counters; the k-th write (Save/Remove) from now fails (k=0: none).
func (k *KV) Arm(failWrite int, applied bool) {
	k.mu.Lock()
	defer k.mu.Unlock()
	k.writes, k.loads, k.failAt, k.failLoad, k.after = 0, 0, failWrite, 0, applied
}

// ArmLoad makes the k-th read from now fail.
func (k *KV) ArmLoad(n int) {
	k.mu.Lock()
	defer k.mu.Unlock()
	k.writes, k.loads, k.failAt, k.failLoad = 0, 0, 0, n
}

// Writes returns the number of writes since the last Arm.
func (k *KV) Writes() int {
	k.mu.Lock()
	defer k.mu.Unlock()
	return k.writes
}

// TakeLog returns and clears the op log.
func (k *KV) TakeLog() []Op {
	k.mu.Lock()
	defer k.mu.Unlock()
	l := k.Log
	k.Log = nil
	return l
}

func (k *KV) rec(op, key, val string, failed bool) {
	if !k.Record {
		return
	}
	k.mu.Lock()
	k.Log = append(k.Log, Op{op, key, val, failed})
	k.mu.Unlock()
}

func (k *KV) write() gate.Decision {
	k.mu.Lock()
	defer k.mu.Unlock()
	k.writes++
	if k.failAt != 0 && k.writes == k.failAt {
		if k.after {
			return gate.FailAfter
		}
		return gate.FailBefore
	}
	return gate.Proceed
}

func (k *KV) read() bool {
	k.mu.Lock()
	defer k.mu.Unlock()
	k.loads++
	return k.failLoad != 0 && k.loads == k.failLoad
}

// Load gates a read.
func (k *KV) Load(key string) (string, error) {
	d := k.S.At("load", key, "")
	if d == gate.FailBefore || k.read() {
		k.rec("load", key, "", true)
		return "", gate.ErrInjected
	}
	v, err := k.Base.Load(key)
	k.rec("load", key, v, err != nil)
	return v, err
}

// LoadRange gates a range read.
func (k *KV) LoadRange(key, endKey string, limit int) ([]string, []string, error) {
	d := k.S.At("loadrange", key, "")
	if d == gate.FailBefore || k.read() {
		return nil, nil, gate.ErrInjected
	}
	return k.Base.LoadRange(key, endKey, limit)
}

// Save gates a write.
func (k *KV) Save(key, value string) error {
	d := k.S.At("save", key, value)
	if d == gate.Proceed {
		d = k.write()
	}
	if d == gate.FailBefore {
		k.rec("save", key, value, true)
		return gate.ErrInjected
	}
	err := k.Base.Save(key, value)
	if d == gate.FailAfter {
		k.rec("save", key, value, true)
		return gate.ErrInjected
	}
	k.rec("save", key, value, err != nil)
	return err
}

// Remove gates a delete.
func (k *KV) Remove(key string) error {
	d := k.S.At("remove", key, "")
	if d == gate.Proceed {
		d = k.write()
	}
	if d == gate.FailBefore {
		k.rec("remove", key, "", true)
		return gate.ErrInjected
	}
	err := k.Base.Remove(key)
	if d == gate.FailAfter {
		k.rec("remove", key, "", true)
		return gate.ErrInjected
	}
	k.rec("remove", key, "", err != nil)
	return err
}
