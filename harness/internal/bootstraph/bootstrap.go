// Package bootstraph binds spec/bootstrap/Bootstrap.tla to a real in-process server.
package bootstraph

import (
	"context"
	"fmt"
	"sort"
	"strings"
	"time"

	"github.com/pingcap/kvproto/pkg/metapb"
	"github.com/pingcap/kvproto/pkg/pdpb"
	"github.com/tikv/pd/pkg/typeutil"
	"github.com/tikv/pd/server"
	"go.etcd.io/etcd/clientv3"

	"pdverif/internal/cli"
	"pdverif/internal/etcdgate"
	"pdverif/internal/gate"
	"pdverif/internal/pdserver"
	"pdverif/internal/trace"
)

func init() {
	cli.Register("bootstrap replay", replay)
	cli.Register("bootstrap clusterid", clusterID)
}

const wait = 30 * time.Second

var ids = map[string][3]uint64{"r1": {11, 21, 31}, "r2": {12, 22, 32}, "r3": {13, 23, 33}, "bad": {14, 24, 34}}

func request(pd *pdserver.PD, r string, variant int) *pdpb.BootstrapRequest {
	x := ids[r]
	req := pd.BootstrapReq(x[0], x[1], x[2], "mock://"+r)
	if r == "bad" {
		switch variant % 5 {
		case 0:
			req.Store = nil
		case 1:
			req.Region.StartKey = []byte("a")
		case 2:
			req.Region.Id = 0
		case 3:
			req.Region.Peers[0].StoreId = 99
		case 4:
			req.Region.Peers = append(req.Region.Peers, &metapb.Peer{Id: 77, StoreId: x[0]})
		}
	}
	return req
}

func replay(args map[string]string) error {
	var behs [][]cli.Step
	if err := cli.ReadJSON(args["in"], &behs); err != nil {
		return err
	}
	w, err := trace.Create(args["out"])
	if err != nil {
		return err
	}
	defer w.Close()
	ctx := context.Background()
	for bi, beh := range behs {
		if err := func() error {
			pd, err := pdserver.Start(nil, false)
			if err != nil {
				return err
			}
			defer pd.Close()
			sched := gate.New()
			cl := pd.S.GetClient()
			cl.KV = &etcdgate.KV{KV: cl.KV, S: sched}
			plain, err := clientv3.New(clientv3.Config{Endpoints: []string{pd.Cfg.ClientUrls}, DialTimeout: 5 * time.Second})
			if err != nil {
				return err
			}
			defer plain.Close()
			root := pd.S.GetClusterRootPath()
			observe := func(ev trace.Ev) {
				stores, regions := []int{}, []int{}
				r, err := plain.Get(ctx, root+"/", clientv3.WithPrefix(), clientv3.WithKeysOnly())
				if err == nil {
					for _, kv := range r.Kvs {
						k := strings.TrimPrefix(string(kv.Key), root+"/")
						var n int
						if strings.HasPrefix(k, "s/") {
							fmt.Sscanf(k[2:], "%d", &n)
							stores = append(stores, n)
						} else if strings.HasPrefix(k, "r/") {
							fmt.Sscanf(k[2:], "%d", &n)
							regions = append(regions, n)
						}
					}
				}
				rm, err := plain.Get(ctx, root)
				ev["meta"] = err == nil && len(rm.Kvs) == 1
				sort.Ints(stores)
				sort.Ints(regions)
				ev["stores"], ev["regions"] = stores, regions
				// the region storage (leveldb) is a second place where the first region is written
				rsRegions := []int{}
				if rs := pd.S.GetStorage().GetRegionStorage(); rs != nil {
					ks, _, lerr := rs.LoadRange("raft/r/", "raft/r/\xff", 0)
					if lerr == nil {
						for _, k := range ks {
							var n int
							fmt.Sscanf(strings.TrimPrefix(k, "raft/r/"), "%d", &n)
							rsRegions = append(rsRegions, n)
						}
					}
				}
				sort.Ints(rsRegions)
				ev["rs_regions"] = rsRegions
				ib, err := pd.S.IsBootstrapped(ctx, &pdpb.IsBootstrappedRequest{Header: pd.Header()})
				ev["bootstrapped"] = err == nil && ib.GetBootstrapped()
				// a request that carries a different cluster id must be refused
				_, ferr := pd.S.IsBootstrapped(ctx, &pdpb.IsBootstrappedRequest{Header: &pdpb.RequestHeader{ClusterId: pd.S.ClusterID() + 1}})
				ev["foreign_refused"] = ferr != nil
				// ... and so must a bootstrap request that names another cluster, no cluster (id 0) or carries no header at all:
				// refused before it has any effect, whether or not the cluster exists already
				for _, h := range []*pdpb.RequestHeader{{ClusterId: pd.S.ClusterID() + 1}, {ClusterId: 0}, nil} {
					breq := pd.BootstrapReq(91, 92, 93, "mock://uninvited")
					breq.Header = h
					if _, berr := pd.S.Bootstrap(ctx, breq); berr == nil {
						ev["foreign_refused"] = false
					}
				}
				ev["cluster_id_same"] = true
				// once the cluster exists: a configuration update that names another cluster (id + 1, or no id at all) is refused,
				// one that names this cluster is accepted, and the identity served and stored afterwards is still the same
				metaSame, cfgRefused := true, true
				if rc := pd.S.GetRaftCluster(); rc != nil && err == nil && ib.GetBootstrapped() {
					me := pd.S.ClusterID()
					for _, other := range []uint64{0, me + 1} {
						if _, perr := pd.S.PutClusterConfig(ctx, &pdpb.PutClusterConfigRequest{Header: pd.Header(), Cluster: &metapb.Cluster{Id: other, MaxPeerCount: 7}}); perr == nil {
							cfgRefused = false
						}
					}
					_, _ = pd.S.PutClusterConfig(ctx, &pdpb.PutClusterConfigRequest{Header: pd.Header(), Cluster: &metapb.Cluster{Id: me, MaxPeerCount: 5}})
					if gc, gerr := pd.S.GetClusterConfig(ctx, &pdpb.GetClusterConfigRequest{Header: pd.Header()}); gerr != nil || gc.GetCluster().GetId() != me {
						metaSame = false
					}
					stored := &metapb.Cluster{}
					if ok, lerr := pd.S.GetStorage().LoadMeta(stored); lerr != nil || !ok || stored.GetId() != me {
						metaSame = false
					}
				}
				ev["meta_id_same"], ev["foreign_config_refused"] = metaSame, cfgRefused
			}
			ev0 := trace.Ev{"beh": bi, "mode": "bootstrap"}
			observe(ev0)
			w.Reset(ev0)
			procs := map[string]*gate.Proc{}
			result := func(p *gate.Proc) string {
				if p.Err != nil {
					return "error"
				}
				r := p.Res.(*pdpb.BootstrapResponse)
				if r.GetHeader().GetError() != nil {
					return "refused"
				}
				return "won"
			}
			cid := pd.S.ClusterID()
			for si, st := range beh {
				if si == 0 {
					continue
				}
				r := st.Str(0)
				ev := trace.Ev{"ev": st.Action, "beh": bi, "step": si, "r": r, "res": "", "store": 0, "region": 0}
				if x, ok := ids[r]; ok {
					ev["store"], ev["region"] = int(x[0]), int(x[1])
				}
				switch st.Action {
				case "Begin":
					if procs[r] != nil {
						ev["res"] = "busy"
						break
					}
					req := request(pd, r, si)
					p := sched.Go(r, func() (interface{}, error) { return pd.S.Bootstrap(ctx, req) })
					_, done, err := p.Next(wait)
					if err != nil {
						return err
					}
					if done {
						ev["res"] = result(p)
					} else {
						ev["res"] = "parked"
						procs[r] = p
					}
				case "Txn":
					p := procs[r]
					if p == nil {
						ev["res"] = "nothing-parked"
						break
					}
					if err := p.Finish2(gate.Proceed, wait); err != nil {
						return err
					}
					delete(procs, r)
					ev["res"] = result(p)
				case "StartCluster":
					ev["res"] = "noop" // folded into Txn by the binding
				case "LeaderChange":
					pd.S.GetMember().ResetLeader()
					time.Sleep(300 * time.Millisecond)
					if err := pd.WaitLeader(30 * time.Second); err != nil {
						return err
					}
					time.Sleep(100 * time.Millisecond)
				default:
					continue
				}
				observe(ev)
				ev["cluster_id_same"] = pd.S.ClusterID() == cid
				w.Emit(ev)
			}
			for r, p := range procs {
				if err := p.Finish2(gate.Proceed, wait); err != nil {
					return err
				}
				x := ids[r]
				ev := trace.Ev{"ev": "Txn", "beh": bi, "step": len(beh), "r": r, "res": result(p), "store": int(x[0]), "region": int(x[1])}
				observe(ev)
				w.Emit(ev)
			}
			return nil
		}(); err != nil {
			return err
		}
	}
	return nil
}

// clusterID: several members run the real initOrGetClusterID concurrently on one etcd; every order of their
// transactions is tried; then each member "restarts" (runs it again).
func clusterID(args map[string]string) error {
	w, err := trace.Create(args["out"])
	if err != nil {
		return err
	}
	defer w.Close()
	e, err := etcdgate.Start()
	if err != nil {
		return err
	}
	defer e.Stop()
	plain, err := e.Client()
	if err != nil {
		return err
	}
	defer plain.Close()
	sched := gate.New()
	members := []string{"m1", "m2", "m3"}
	clients := map[string]*clientv3.Client{}
	for _, m := range members {
		c, _, err := e.GatedClient(sched)
		if err != nil {
			return err
		}
		clients[m] = c
	}
	perms := [][]int{{0, 1, 2}, {0, 2, 1}, {1, 0, 2}, {1, 2, 0}, {2, 0, 1}, {2, 1, 0}}
	stored := func(key string) int {
		r, err := plain.Get(context.Background(), key)
		if err != nil || len(r.Kvs) == 0 {
			return 0
		}
		v, _ := typeutil.BytesToUint64(r.Kvs[0].Value)
		return int(v % 1000000007)
	}
	for pi, perm := range perms {
		key := fmt.Sprintf("/vf/cid/%d", pi)
		w.Reset(trace.Ev{"beh": pi, "mode": "clusterid", "stored": 0})
		procs := map[string]*gate.Proc{}
		for _, m := range members {
			c := clients[m]
			procs[m] = sched.Go(m, func() (interface{}, error) { return server.VerifInitOrGetClusterID(c, key) })
			if _, _, err := procs[m].Next(wait); err != nil {
				return err
			}
		}
		for round := 0; round < 2; round++ {
			for _, i := range perm {
				m := members[i]
				p := procs[m]
				if p == nil {
					c := clients[m]
					p = sched.Go(m, func() (interface{}, error) { return server.VerifInitOrGetClusterID(c, key) })
				}
				if err := p.Finish(wait); err != nil {
					return err
				}
				delete(procs, m)
				ev := trace.Ev{"ev": "InitId", "beh": pi, "m": m, "err": p.Err != nil, "id": 0, "stored": stored(key)}
				if p.Err == nil {
					ev["id"] = int(p.Res.(uint64) % 1000000007)
				}
				w.Emit(ev)
			}
		}
	}
	return nil
}
