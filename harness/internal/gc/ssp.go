package gc

import "github.com/tikv/pd/server/core"

type coreSSP struct {
	ServiceID string
	ExpiredAt int64
	SafePoint uint64
}

func (c coreSSP) conv() *core.ServiceSafePoint {
	return &core.ServiceSafePoint{ServiceID: c.ServiceID, ExpiredAt: c.ExpiredAt, SafePoint: c.SafePoint}
}
