// Package gc binds spec/gc/SafePoint.tla and ServiceSafePoint.tla to the real gRPC handlers
// UpdateGCSafePoint / GetGCSafePoint / UpdateServiceGCSafePoint of an in-process server.Server.
package gc

import (
	"net/http"
	"context"
	"fmt"
	"math"
	"math/rand"
	"os"
	"runtime"
	"sort"
	"strings"
	"sync"
	"time"

	"github.com/pingcap/kvproto/pkg/pdpb"
	"github.com/tikv/pd/pkg/tsoutil"
	"github.com/tikv/pd/server/tso"

	"pdverif/internal/cli"
	"pdverif/internal/gate"
	"pdverif/internal/pdserver"
	"pdverif/internal/trace"
)

func init() {
	cli.Register("gc replay", replay)
	cli.Register("gc stress", stress)
	cli.Register("gc svcreplay", svcReplay)
}

const short = 40 * time.Millisecond
const long = 20 * time.Second

type call struct {
	p    *gate.Proc
	s    int64
	req  int
	kind string
}

type res struct {
	resp int
	e    int64
}

func start() (*pdserver.PD, *gate.Sched, error) {
	sched := gate.New()
	pdserver.WithAPI = true // the administrator's HTTP API is one of the ways a registration is removed
	pd, err := pdserver.Start(sched, true)
	if err != nil {
		return nil, nil, err
	}
	if err := pd.Bootstrap(); err != nil {
		pd.Close()
		return nil, nil, err
	}
	return pd, sched, nil
}

// Safe points are 64-bit values; the recordings use small integers v = band*bandSize + offset, order-preserving:
// band 0..7 stands for band<<61 + offset, band 8 for the top of the range (offset bandSize-1 = the largest value).
const bandSize = 10000

func toReal(v int) uint64 {
	band, off := v/bandSize, uint64(v%bandSize)
	if band >= 8 {
		return math.MaxUint64 - (bandSize - 1 - off)
	}
	return uint64(band)<<61 + off
}

func fromReal(x uint64) int {
	if x > math.MaxUint64-bandSize {
		return 8*bandSize + int(bandSize-1-(math.MaxUint64-x))
	}
	return int(x>>61)*bandSize + int(x&(1<<61-1))
}

func update(pd *pdserver.PD, v int) (int, error) {
	r, err := pd.S.UpdateGCSafePoint(context.Background(), &pdpb.UpdateGCSafePointRequest{Header: pd.Header(), SafePoint: toReal(v)})
	if err != nil {
		return 0, err
	}
	if r.GetHeader().GetError() != nil {
		return 0, fmt.Errorf("%v", r.GetHeader().GetError())
	}
	return fromReal(r.NewSafePoint), nil
}

func get(pd *pdserver.PD) (int, error) {
	r, err := pd.S.GetGCSafePoint(context.Background(), &pdpb.GetGCSafePointRequest{Header: pd.Header()})
	if err != nil {
		return 0, err
	}
	if r.GetHeader().GetError() != nil {
		return 0, fmt.Errorf("%v", r.GetHeader().GetError())
	}
	return fromReal(r.SafePoint), nil
}

// replay drives concurrent handler calls through gate-level interleavings taken from TLC behaviours of
// SafePoint.tla (unlocked variant = every interleaving the harness can attempt). A goroutine that does not
// reach its next storage access (because the real code serialises it) is simply observed as blocked.
func replay(args map[string]string) error {
	var behs [][]cli.Step
	if err := cli.ReadJSON(args["in"], &behs); err != nil {
		return err
	}
	w, err := trace.Create(args["out"])
	if err != nil {
		return err
	}
	defer w.Close()
	pd, sched, err := start()
	if err != nil {
		return err
	}
	defer pd.Close()
	st := pd.S.GetStorage()
	stored := func() int {
		// read below the gate
		v, err := pd.KV.Base.Load("gc/safe_point")
		if err != nil || v == "" {
			return 0
		}
		var n int
		fmt.Sscanf(v, "%x", &n)
		return n
	}
	_ = st
	for bi, beh := range behs {
		pd.KV.Base.Save("gc/safe_point", "0")
		w.Reset(trace.Ev{"beh": bi, "mode": "replay", "stored": 0})
		calls := map[string]*call{}
		collect := func(c string) {
			cl := calls[c]
			if cl == nil || !cl.p.Done() {
				return
			}
			ev := trace.Ev{"ev": "done", "c": c, "kind": cl.kind, "s": cl.s, "req": cl.req, "stored": stored()}
			if cl.p.Err != nil {
				ev["err"] = true
				ev["e"] = w.Seq()
				ev["resp"] = 0
			} else {
				r := cl.p.Res.(res)
				ev["err"], ev["resp"], ev["e"] = false, r.resp, r.e
			}
			w.Emit(ev)
			delete(calls, c)
		}
		advance := func(c string, d gate.Decision, wantOp string) string {
			cl := calls[c]
			if cl == nil {
				return "nocall"
			}
			if cl.p.Cur() == nil {
				if _, _, err := cl.p.Next(short); err != nil {
					return "blocked"
				}
			}
			if cl.p.Done() {
				return "finished"
			}
			if cur := cl.p.Cur(); cur != nil && wantOp != "" && cur.Op != wantOp {
				return "at-" + cur.Op
			}
			if _, _, err := cl.p.Step(d, short); err != nil {
				// released but neither parked again nor finished within the short wait: keep going, collect later
				return "running"
			}
			return "ok"
		}
		for si, stp := range beh {
			if si == 0 {
				continue
			}
			c := stp.Str(0)
			ev := trace.Ev{"ev": "step", "beh": bi, "step": si, "action": stp.Action, "c": c}
			switch stp.Action {
			case "Start":
				v := stp.Num(1)
				if calls[c] != nil {
					ev["how"] = "busy"
					break
				}
				cl := &call{s: w.Seq(), req: v, kind: "U"}
				if v < 0 {
					cl.kind = "G"
				}
				cl.p = sched.Go(c, func() (interface{}, error) {
					var r int
					var err error
					if v < 0 {
						r, err = get(pd)
					} else {
						r, err = update(pd, v)
					}
					return res{r, w.Seq()}, err
				})
				calls[c] = cl
				cl.p.Next(short)
				ev["how"], ev["req"] = "ok", v
			case "Load":
				d := gate.Proceed
				if len(stp.Args) > 1 && stp.Args[1] == true {
					d = gate.FailBefore
				}
				ev["how"] = advance(c, d, "load")
			case "Save":
				d := gate.Proceed
				if len(stp.Args) > 1 && stp.Args[1] == true {
					d = gate.FailBefore
				}
				ev["how"] = advance(c, d, "save")
			case "Reply":
				ev["how"] = "noop"
			}
			// a goroutine released earlier may have finished by now
			var cs []string
			for k := range calls {
				cs = append(cs, k)
			}
			sort.Strings(cs)
			ev["stored"] = stored()
			w.Emit(ev)
			for _, k := range cs {
				collect(k)
			}
		}
		// drain: let everything finish, one process at a time in name order
		for len(calls) > 0 {
			var cs []string
			for k := range calls {
				cs = append(cs, k)
			}
			sort.Strings(cs)
			progressed := false
			for _, k := range cs {
				cl := calls[k]
				if cl.p.Cur() == nil && !cl.p.Done() {
					if _, _, err := cl.p.Next(short); err != nil {
						continue
					}
				}
				if !cl.p.Done() {
					if err := cl.p.Finish(long); err != nil {
						buf := make([]byte, 1<<20)
						n := runtime.Stack(buf, true)
						os.Stderr.Write(buf[:n])
						return err
					}
				}
				collect(k)
				progressed = true
			}
			if !progressed {
				return fmt.Errorf("beh %d: calls neither parked nor finished (deadlock in the harness?)", bi)
			}
		}
		// a final read through the real handler
		gs := w.Seq()
		gv, gerr := get(pd)
		w.Emit(trace.Ev{"ev": "done", "c": "end", "kind": "G", "s": gs, "e": w.Seq(), "req": -1, "resp": gv, "err": gerr != nil, "stored": stored()})
	}
	return nil
}

// stress: free-running concurrent updates and reads, recorded with start/end sequence numbers.
func stress(args map[string]string) error {
	seed := int64(cli.Int(args, "seed", 1))
	rounds := cli.Int(args, "rounds", 3)
	per := cli.Int(args, "calls", 60)
	gor := cli.Int(args, "goroutines", 8)
	w, err := trace.Create(args["out"])
	if err != nil {
		return err
	}
	defer w.Close()
	pd, _, err := start()
	if err != nil {
		return err
	}
	defer pd.Close()
	rng := rand.New(rand.NewSource(seed))
	for r := 0; r < rounds; r++ {
		pd.KV.Base.Save("gc/safe_point", "0")
		w.Reset(trace.Ev{"beh": r, "mode": "stress", "stored": 0})
		var wg sync.WaitGroup
		for g := 0; g < gor; g++ {
			wg.Add(1)
			go func(g int, sd int64) {
				defer wg.Done()
				lr := rand.New(rand.NewSource(sd))
				for k := 0; k < per; k++ {
					// values drift upwards with a lot of overlap between goroutines; the last round covers the whole
					// 64-bit range (smaller values must be answered with what is stored)
					v := k*3 + lr.Intn(40)
					if r == rounds-1 {
						// climb through the whole 64-bit range band by band; every fifth value comes from a lower band
						band := k * 9 / per
						if lr.Intn(5) == 0 {
							band = lr.Intn(band + 1)
						}
						v = band*bandSize + k*3 + lr.Intn(40)
					}
					kind := "U"
					if lr.Intn(4) == 0 {
						kind = "G"
					}
					s := w.Seq()
					var resp int
					var err error
					if kind == "G" {
						resp, err = get(pd)
					} else {
						resp, err = update(pd, v)
					}
					e := w.Seq()
					w.Emit(trace.Ev{"ev": "done", "c": fmt.Sprint(g), "kind": kind, "s": s, "e": e, "req": v, "resp": resp, "err": err != nil, "stored": -1})
				}
			}(g, rng.Int63())
		}
		wg.Wait()
	}
	return nil
}

// ---------------------------------------------------------------- service safe points

const tickSec = 1000
const ttlBase = 300

func svcReplay(args map[string]string) error {
	var behs [][]cli.Step
	if err := cli.ReadJSON(args["in"], &behs); err != nil {
		return err
	}
	fillers := cli.Int(args, "fillers", 0)
	maxTTL := cli.Int(args, "maxttl", 2)
	w, err := trace.Create(args["out"])
	if err != nil {
		return err
	}
	defer w.Close()
	pd, _, err := start()
	if err != nil {
		return err
	}
	defer pd.Close()
	am := pd.S.GetTSOAllocatorManager()
	nowSec := func() (int64, error) {
		ts, err := am.HandleTSORequest(tso.GlobalDCLocation, 1)
		if err != nil {
			return 0, err
		}
		return ts.Physical / 1000, nil
	}
	base, err := nowSec()
	if err != nil {
		return err
	}
	st := pd.S.GetStorage()
	type entry struct {
		ID  string `json:"id"`
		Sp  int    `json:"sp"`
		Exp int64  `json:"exp"` // ExpiredAt - base; -1 = unlimited
	}
	observe := func(ev trace.Ev) error {
		all, err := st.GetAllServiceGCSafePoints()
		if err != nil {
			return err
		}
		var es []entry
		fn, fmin := 0, -1
		for _, s := range all {
			if strings.HasPrefix(s.ServiceID, "br-") {
				fn++
				if fmin < 0 || int(s.SafePoint) < fmin {
					fmin = int(s.SafePoint)
				}
				continue
			}
			e := entry{ID: s.ServiceID, Sp: int(s.SafePoint), Exp: s.ExpiredAt - base}
			if s.ExpiredAt == math.MaxInt64 {
				e.Exp = -1
			}
			es = append(es, e)
		}
		if es == nil {
			es = []entry{}
		}
		ev["all"], ev["fill_n"], ev["fill_min"] = es, fn, fmin
		return nil
	}
	call := func(svc string, sp int, ttl int64) (*pdpb.UpdateServiceGCSafePointResponse, error) {
		r, err := pd.S.UpdateServiceGCSafePoint(context.Background(), &pdpb.UpdateServiceGCSafePointRequest{
			Header: pd.Header(), ServiceId: []byte(svc), TTL: ttl, SafePoint: uint64(sp)})
		if err != nil {
			return nil, err
		}
		if r.GetHeader().GetError() != nil {
			return nil, fmt.Errorf("%v", r.GetHeader().GetError())
		}
		return r, nil
	}
	for bi, beh := range behs {
		// wipe all service safe points (below the handler)
		all, _ := st.GetAllServiceGCSafePoints()
		for _, s := range all {
			pd.KV.Base.Remove("gc/safe_point/service/" + s.ServiceID)
		}
		if fillers > 0 {
			// make sure gc_worker exists before the background registrations are added (a removal of an unknown service)
			if _, err := call("vf-init", 0, 0); err != nil {
				return err
			}
		}
		for f := 0; f < fillers; f++ {
			// long-lived background registrations with a high safe point; they sort before gc_worker
			now, _ := nowSec()
			st.SaveServiceGCSafePoint(coreSSP{ServiceID: fmt.Sprintf("br-%03d", f), ExpiredAt: now + 100000000, SafePoint: 1000}.conv())
		}
		lo, _ := nowSec()
		ev0 := trace.Ev{"beh": bi, "mode": "svc", "now": lo - base, "fillers": fillers}
		if err := observe(ev0); err != nil {
			return err
		}
		w.Reset(ev0)
		for si, stp := range beh {
			if si == 0 {
				continue
			}
			ev := trace.Ev{"ev": stp.Action, "beh": bi, "step": si}
			switch stp.Action {
			case "Tick":
				a, err := am.GetAllocator(tso.GlobalDCLocation)
				if err != nil {
					return err
				}
				cur, err := am.HandleTSORequest(tso.GlobalDCLocation, 1)
				if err != nil {
					return err
				}
				next := tsoutil.ComposeTS(cur.Physical+tickSec*1000, 0)
				var serr error
				for try := 0; try < 20; try++ {
					if serr = a.SetTSO(next); serr == nil {
						break
					}
					time.Sleep(50 * time.Millisecond)
				}
				if serr != nil {
					return fmt.Errorf("cannot advance the TSO clock: %v", serr)
				}
			case "Delete":
				// the administrator's removal through the HTTP API
				svc := stp.Str(0)
				req, rerr := http.NewRequest("DELETE", pd.Cfg.ClientUrls+"/pd/api/v1/gc/safepoint/"+svc, nil)
				if rerr != nil {
					return rerr
				}
				resp, herr := http.DefaultClient.Do(req)
				ev["svc"] = svc
				ev["err"] = herr != nil || resp.StatusCode != 200
				if resp != nil {
					resp.Body.Close()
				}
			case "Update":
				svc, sp, j := stp.Str(0), stp.Num(1), stp.Num(2)
				ttl := int64(ttlBase + tickSec*j)
				if j < 0 {
					ttl = int64(-5 * (sp % 2)) // 0 or -5: both mean removal
				}
				if j == maxTTL+1 && svc == "gc_worker" {
					ttl = math.MaxInt64
				}
				lo, err := nowSec()
				if err != nil {
					return err
				}
				r, cerr := call(svc, sp, ttl)
				hi, err := nowSec()
				if err != nil {
					return err
				}
				ev["svc"], ev["sp"], ev["j"], ev["ttl_pos"] = svc, sp, j, ttl > 0
				ev["now_lo"], ev["now_hi"] = lo-base, hi-base
				if cerr != nil {
					ev["err"] = true
					ev["min_svc"], ev["min_sp"], ev["min_ttl"] = "", 0, 0
				} else {
					ev["err"] = false
					ev["min_svc"], ev["min_sp"] = string(r.ServiceId), int(r.MinSafePoint)
					t := r.TTL
					if t > 1<<40 {
						t = -1
					}
					ev["min_ttl"] = t
				}
			}
			if err := observe(ev); err != nil {
				return err
			}
			w.Emit(ev)
		}
	}
	return nil
}
