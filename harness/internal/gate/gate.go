// Package gate parks goroutines of the real code at chosen points (storage transactions, hooks)
// so that a schedule taken from a TLA+ behaviour can be reproduced deterministically.
package gate

import (
	"errors"
	"bytes"
	"fmt"
	"runtime"
	"strconv"
	"sync"
	"time"

)

// Decision tells a parked operation how to continue.
type Decision int

const (
	// Proceed performs the operation normally.
	Proceed Decision = iota
	// FailBefore returns an injected error without performing the operation.
	FailBefore
	// FailAfter performs the operation and then returns an injected error (lost reply).
	FailAfter
)

// ErrInjected is returned by wrappers for injected failures.
var ErrInjected = errors.New("verif: injected storage failure")

// Point is one parked operation.
type Point struct {
	Proc string
	Op   string
	Key  string
	Val  string
	rel  chan Decision
}

// Release lets the parked operation continue.
func (p *Point) Release(d Decision) { p.rel <- d }

// Proc is one logical process (goroutine of the real code started by the harness).
type Proc struct {
	Name   string
	parked chan *Point
	done   chan struct{}
	Res    interface{}
	Err    error
	cur    *Point
}

// Sched maps goroutines to processes.
type Sched struct {
	mu    sync.Mutex
	procs map[int64]*Proc
	// Free: if non-nil it is consulted for goroutines that are not registered (never parks).
	Free func(op, key string) Decision
}

// New creates a scheduler.
func New() *Sched { return &Sched{procs: map[int64]*Proc{}} }

// Go starts fn as a gated process.
func (s *Sched) Go(name string, fn func() (interface{}, error)) *Proc {
	p := NewProc(name)
	s.Start(p, fn)
	return p
}

// Start runs fn as process p (created with NewProc, so that the caller can publish p before it runs).
func (s *Sched) Start(p *Proc, fn func() (interface{}, error)) {
	started := make(chan struct{})
	go func() {
		id := curGoid()
		s.mu.Lock()
		s.procs[id] = p
		s.mu.Unlock()
		close(started)
		defer func() {
			s.mu.Lock()
			delete(s.procs, id)
			s.mu.Unlock()
			close(p.done)
		}()
		p.Res, p.Err = fn()
	}()
	<-started
}

// Adopt registers the calling goroutine as (part of) process p until the returned func is called.
func (s *Sched) Adopt(p *Proc) func() {
	id := curGoid()
	s.mu.Lock()
	s.procs[id] = p
	s.mu.Unlock()
	return func() {
		s.mu.Lock()
		delete(s.procs, id)
		s.mu.Unlock()
	}
}

// NewProc creates a process record without a goroutine (for Adopt).
func NewProc(name string) *Proc {
	return &Proc{Name: name, parked: make(chan *Point), done: make(chan struct{})}
}

// At is called by the wrappers at each gated point.
func (s *Sched) At(op, key, val string) Decision { return s.AtFor(nil, op, key, val) }

// AtFor is At with a fallback process for goroutines that are not registered (goroutines spawned by the
// real code on behalf of a harness-started operation).
func (s *Sched) AtFor(fallback func() *Proc, op, key, val string) Decision {
	if s == nil {
		return Proceed
	}
	id := curGoid()
	s.mu.Lock()
	p := s.procs[id]
	free := s.Free
	s.mu.Unlock()
	if p == nil && fallback != nil {
		p = fallback()
	}
	if p == nil {
		if free != nil {
			return free(op, key)
		}
		return Proceed
	}
	pt := &Point{Proc: p.Name, Op: op, Key: key, Val: val, rel: make(chan Decision, 1)}
	p.parked <- pt
	return <-pt.rel
}

// Next waits until the process parks at its next point (returns it) or finishes (nil, true).
func (p *Proc) Next(timeout time.Duration) (*Point, bool, error) {
	select {
	case pt := <-p.parked:
		p.cur = pt
		return pt, false, nil
	case <-p.done:
		return nil, true, nil
	case <-time.After(timeout):
		return nil, false, fmt.Errorf("process %s neither parked nor finished within %v", p.Name, timeout)
	}
}

// Done reports whether the process has finished.
func (p *Proc) Done() bool {
	select {
	case <-p.done:
		return true
	default:
		return false
	}
}

// Cur is the point the process is parked at (nil if none).
func (p *Proc) Cur() *Point { return p.cur }

// Step releases the current point with d and waits for the next park / finish.
func (p *Proc) Step(d Decision, timeout time.Duration) (*Point, bool, error) {
	if p.cur != nil {
		c := p.cur
		p.cur = nil
		c.Release(d)
	}
	return p.Next(timeout)
}

// Finish releases every further point with Proceed until the process ends.
func (p *Proc) Finish(timeout time.Duration) error {
	for {
		_, done, err := p.Step(Proceed, timeout)
		if err != nil {
			return err
		}
		if done {
			return nil
		}
	}
}

// Finish2 releases the current point with d and every later point with Proceed until the process ends.
func (p *Proc) Finish2(d Decision, timeout time.Duration) error {
	_, done, err := p.Step(d, timeout)
	if err != nil || done {
		return err
	}
	return p.Finish(timeout)
}

// curGoid parses the goroutine id from the stack header ("goroutine 123 [running]:").
func curGoid() int64 {
	var buf [64]byte
	n := runtime.Stack(buf[:], false)
	b := buf[:n]
	b = b[len("goroutine "):]
	i := bytes.IndexByte(b, ' ')
	id, _ := strconv.ParseInt(string(b[:i]), 10, 64)
	return id
}
