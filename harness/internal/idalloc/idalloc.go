// Package idalloc binds spec/id/IdAlloc.tla to server/id.
package idalloc

import (
	"context"
	"fmt"
	"math/rand"
	"path"
	"sync"
	"time"

	"github.com/tikv/pd/pkg/typeutil"
	"github.com/tikv/pd/server/id"
	"go.etcd.io/etcd/clientv3"

	"pdverif/internal/cli"
	"pdverif/internal/etcdgate"
	"pdverif/internal/gate"
	"pdverif/internal/trace"
)

func init() {
	cli.Register("id replay", replay)
	cli.Register("id stress", stress)
}

func key(i string, g, t int) string { return fmt.Sprintf("%s#%d#%d", i, g, t) }

var member = map[string]string{"i1": "m1", "i2": "m2", "i3": "m1"}

const wait = 20 * time.Second

type env struct {
	etcd  *etcdgate.Etcd
	plain *clientv3.Client
	sched *gate.Sched
	cli   map[string]*clientv3.Client
}

func newEnv() (*env, error) {
	e, err := etcdgate.Start()
	if err != nil {
		return nil, err
	}
	pc, err := e.Client()
	if err != nil {
		return nil, err
	}
	ev := &env{etcd: e, plain: pc, sched: gate.New(), cli: map[string]*clientv3.Client{}}
	for i := range member {
		c, _, err := e.GatedClient(ev.sched)
		if err != nil {
			return nil, err
		}
		ev.cli[i] = c
	}
	return ev, nil
}

func (e *env) close() {
	for _, c := range e.cli {
		c.Close()
	}
	e.plain.Close()
	e.etcd.Stop()
}

func (e *env) stored(root string) int {
	r, err := e.plain.Get(context.Background(), path.Join(root, "alloc_id"))
	if err != nil || len(r.Kvs) == 0 {
		return 0
	}
	v, _ := typeutil.BytesToUint64(r.Kvs[0].Value)
	return int(v)
}

func (e *env) leader(root string) string {
	r, err := e.plain.Get(context.Background(), path.Join(root, "leader"))
	if err != nil || len(r.Kvs) == 0 {
		return "none"
	}
	return string(r.Kvs[0].Value)
}

func (e *env) setLeader(root, m string) {
	k := path.Join(root, "leader")
	if m == "none" {
		e.plain.Delete(context.Background(), k)
	} else {
		e.plain.Put(context.Background(), k, m)
	}
}

// replay drives real allocators through TLC behaviours of IdAlloc.tla.
func replay(args map[string]string) error {
	var behs [][]cli.Step
	if err := cli.ReadJSON(args["in"], &behs); err != nil {
		return err
	}
	w, err := trace.Create(args["out"])
	if err != nil {
		return err
	}
	defer w.Close()
	e, err := newEnv()
	if err != nil {
		return err
	}
	defer e.close()
	for bi, beh := range behs {
		root := fmt.Sprintf("/vf/id/%d", bi)
		alloc := map[string]id.Allocator{}
		gen := map[string]int{}
		procs := map[string]*gate.Proc{}
		kinds := map[string]string{}
		rd := map[string]int{}
		mk := func(i string) {
			alloc[i] = id.NewAllocator(e.cli[i], root, member[i])
			gen[i]++
		}
		for i := range member {
			mk(i)
		}
		drifted := false
		drift := func(si int, why string) {
			w.Emit(trace.Ev{"ev": "drift", "beh": bi, "step": si, "k": "", "why": why, "stored": e.stored(root), "leader": e.leader(root)})
			drifted = true
		}
		for si, st := range beh {
			if drifted {
				break
			}
			ev := trace.Ev{"ev": st.Action, "beh": bi, "step": si, "k": ""}
			switch st.Action {
			case "Init":
				e.setLeader(root, st.State["leader"].(string))
				w.Reset(trace.Ev{"beh": bi, "stored": e.stored(root), "leader": e.leader(root), "mode": "replay"})
				continue
			case "AllocFast":
				i, n := st.Str(0), st.Num(1)
				ev["i"], ev["g"], ev["k"] = i, gen[i], key(i, gen[i], 0)
				var lo, hi int
				for k := 0; k < n; k++ {
					v, err := alloc[i].Alloc()
					if err != nil {
						drift(si, fmt.Sprintf("AllocFast(%s) failed: %v (the model says the window is not exhausted)", i, err))
						break
					}
					if k > 0 && int(v) != hi+1 {
						// not consecutive: close the run, the monitor sees two ranges
						w.Emit(trace.Ev{"ev": "AllocFast", "beh": bi, "step": si, "i": i, "g": gen[i], "k": key(i, gen[i], 0),
							"lo": lo, "hi": hi, "stored": e.stored(root), "leader": e.leader(root)})
						lo = int(v)
					}
					if k == 0 {
						lo = int(v)
					}
					hi = int(v)
				}
				if drifted {
					continue
				}
				ev["lo"], ev["hi"] = lo, hi
			case "Read":
				i, kind := st.Str(0), st.Str(1)
				ev["i"], ev["g"], ev["kind"], ev["k"] = i, gen[i], kind, key(i, gen[i], 0)
				a := alloc[i]
				rd[i] = e.stored(root)
				ev["rd"] = rd[i]
				kinds[i] = kind
				procs[i] = e.sched.Go(i, func() (interface{}, error) {
					if kind == "alloc" {
						v, err := a.Alloc()
						return int(v), err
					}
					return 0, a.Rebase()
				})
				_, done, err := procs[i].Next(wait)
				if err != nil {
					return err
				}
				if done {
					// the real call finished without reaching its transaction
					ev["finished_early"] = true
					if procs[i].Err == nil {
						ev["id"] = procs[i].Res
					} else {
						ev["err"] = true
					}
					delete(procs, i)
				}
			case "Txn":
				i, outcome := st.Str(0), st.Str(1)
				ev["i"], ev["g"], ev["outcome"], ev["kind"], ev["rd"] = i, gen[i], outcome, kinds[i], rd[i]
				ev["k"] = key(i, gen[i], 0)
				ev["member"] = member[i]
				ev["pre"], ev["pre_leader"] = e.stored(root), e.leader(root)
				p := procs[i]
				if p == nil {
					drift(si, fmt.Sprintf("Txn(%s): the real call had already finished without a transaction", i))
					continue
				}
				d := gate.Proceed
				if outcome == "lost" {
					d = gate.FailAfter
				} else if outcome == "err" {
					d = gate.FailBefore
				}
				if err := p.Finish2(d, wait); err != nil {
					return err
				}
				delete(procs, i)
				if p.Err != nil {
					ev["err"] = true
				} else {
					ev["err"] = false
					if kinds[i] == "alloc" {
						ev["id"] = p.Res
					}
				}
			case "Crash":
				i := st.Str(0)
				ev["i"] = i
				if p := procs[i]; p != nil {
					// the call in flight never reaches etcd
					p.Finish2(gate.FailBefore, wait)
					delete(procs, i)
				}
				mk(i)
				ev["g"] = gen[i]
			case "LeaderSwitch":
				e.setLeader(root, st.Str(0))
			default:
				return fmt.Errorf("unknown action %s", st.Action)
			}
			ev["stored"], ev["leader"] = e.stored(root), e.leader(root)
			w.Emit(ev)
		}
		for _, p := range procs {
			p.Finish2(gate.FailBefore, wait)
		}
	}
	return nil
}

// stress: free-running allocators on the real code: several instances x goroutines, leader switches and
// instance drops; every call is recorded with start/end sequence numbers.
func stress(args map[string]string) error {
	seed := int64(cli.Int(args, "seed", 1))
	rounds := cli.Int(args, "rounds", 4)
	per := cli.Int(args, "allocs", 300)
	w, err := trace.Create(args["out"])
	if err != nil {
		return err
	}
	defer w.Close()
	e, err := newEnv()
	if err != nil {
		return err
	}
	defer e.close()
	e.sched = nil
	rng := rand.New(rand.NewSource(seed))
	// leadership bounces back: A allocates a few ids, B takes over and allocates, A is re-elected while its process still
	// holds the unused part of its old window, re-bases (server.campaignLeader) and allocates past its old bound
	bounce := 0
	for _, na := range []int{1, 1 + rng.Intn(998), 999} {
		for _, nb := range []int{1, 1000 + rng.Intn(50)} {
			bounce++
			root := fmt.Sprintf("/vf/idbounce/%d/%d", seed, bounce)
			e.setLeader(root, "m1")
			w.Reset(trace.Ev{"beh": 1000 + bounce, "stored": 0, "leader": "m1", "mode": "stress"})
			var a, b id.Allocator
			var an, bn string
			for i := range member {
				if member[i] == "m1" && a == nil {
					a, an = id.NewAllocator(e.plain, root, member[i]), i
				} else if member[i] == "m2" && b == nil {
					b, bn = id.NewAllocator(e.plain, root, member[i]), i
				}
			}
			run := func(al id.Allocator, name string, n int) {
				for k := 0; k < n; k++ {
					v, err := al.Alloc()
					ev := trace.Ev{"ev": "A", "i": name, "g": 1, "t": 0, "s": w.Seq(), "e": w.Seq(), "stored": e.stored(root), "k": key(name, 1, 0), "err": err != nil}
					if err == nil {
						ev["id"] = int(v)
					}
					w.Emit(ev)
				}
			}
			run(a, an, na)
			e.setLeader(root, "m2")
			_ = b.Rebase()
			run(b, bn, nb)
			e.setLeader(root, "m1")
			_ = a.Rebase()
			run(a, an, 1100)
		}
	}
	for r := 0; r < rounds; r++ {
		root := fmt.Sprintf("/vf/idstress/%d", r)
		e.setLeader(root, "m1")
		w.Reset(trace.Ev{"beh": r, "stored": 0, "leader": "m1", "mode": "stress"})
		var mu sync.Mutex
		alloc := map[string]id.Allocator{}
		gen := map[string]int{}
		for i := range member {
			// plain clients: nothing is parked in this driver
			alloc[i] = id.NewAllocator(e.plain, root, member[i])
			gen[i] = 1
		}
		stop := make(chan struct{})
		var wg sync.WaitGroup
		for i := range member {
			for g := 0; g < 3; g++ {
				wg.Add(1)
				go func(i string, g int, sd int64) {
					defer wg.Done()
					lr := rand.New(rand.NewSource(sd))
					for k := 0; k < per; k++ {
						mu.Lock()
						a, gn := alloc[i], gen[i]
						mu.Unlock()
						s := w.Seq()
						v, err := a.Alloc()
						st := e.stored(root)
						en := w.Seq()
						ev := trace.Ev{"ev": "A", "i": i, "g": gn, "t": g, "s": s, "e": en, "stored": st, "k": key(i, gn, g)}
						if err != nil {
							ev["err"] = true
						} else {
							ev["err"] = false
							ev["id"] = int(v)
						}
						w.Emit(ev)
						if lr.Intn(40) == 0 {
							time.Sleep(time.Millisecond)
						}
					}
				}(i, g, rng.Int63())
			}
		}
		go func() {
			lr := rand.New(rand.NewSource(rng.Int63()))
			ms := []string{"m1", "m2", "m1", "m2", "none"}
			for {
				select {
				case <-stop:
					return
				case <-time.After(time.Duration(1+lr.Intn(4)) * time.Millisecond):
				}
				if lr.Intn(3) == 0 {
					var is []string
					for i := range member {
						is = append(is, i)
					}
					i := is[lr.Intn(len(is))]
					mu.Lock()
					alloc[i] = id.NewAllocator(e.plain, root, member[i])
					gen[i]++
					mu.Unlock()
				} else {
					m := ms[lr.Intn(len(ms))]
					e.setLeader(root, m)
					// what a member does when it wins the election (server.campaignLeader): re-base its allocator, which may
					// still hold an unused part of a window from an earlier term
					mu.Lock()
					for i, a := range alloc {
						if member[i] == m && lr.Intn(2) == 0 {
							go a.Rebase()
						}
					}
					mu.Unlock()
				}
			}
		}()
		wg.Wait()
		close(stop)
	}
	return nil
}
