package idalloc

import (
	"context"
	"fmt"
	"math/rand"
	"path"
	"sync"
	"time"

	"github.com/pingcap/kvproto/pkg/pdpb"
	"github.com/tikv/pd/pkg/typeutil"

	"pdverif/internal/cli"
	"pdverif/internal/pdserver"
	"pdverif/internal/trace"
)

func init() {
	cli.Register("id rpcs", rpcs)
}

// rpcs: every id a running server hands out - AllocID, AskSplit, AskBatchSplit (region and peer ids) - by concurrent
// callers, across resignations of the leader. One event per id, in the format of the allocator recordings.
func rpcs(args map[string]string) error {
	seed := int64(cli.Int(args, "seed", 1))
	rounds := cli.Int(args, "rounds", 2)
	calls := cli.Int(args, "calls", 60)
	w, err := trace.Create(args["out"])
	if err != nil {
		return err
	}
	defer w.Close()
	for r := 0; r < rounds; r++ {
		pd, err := pdserver.Start(nil, false)
		if err != nil {
			return err
		}
		if err := pd.Bootstrap(); err != nil {
			pd.Close()
			return err
		}
		ctx := context.Background()
		root := path.Dir(pd.S.GetClusterRootPath()) // the id window lives next to "raft", not under it
		stored := func() int {
			resp, err := pd.S.GetClient().Get(ctx, root+"/alloc_id")
			if err != nil || len(resp.Kvs) == 0 {
				return 0
			}
			v, _ := typeutil.BytesToUint64(resp.Kvs[0].Value)
			return int(v)
		}
		w.Reset(trace.Ev{"beh": r, "stored": stored(), "leader": "pd", "mode": "stress"})
		var wg sync.WaitGroup
		var mu sync.Mutex
		emit := func(k string, ids []uint64, failed bool) {
			st := stored()
			mu.Lock()
			defer mu.Unlock()
			if failed {
				w.Emit(trace.Ev{"ev": "A", "k": k, "err": true, "stored": st})
				return
			}
			for _, id := range ids {
				w.Emit(trace.Ev{"ev": "A", "k": k, "err": false, "id": int(id), "stored": st})
			}
		}
		for g := 0; g < 8; g++ {
			wg.Add(1)
			go func(g int) {
				defer wg.Done()
				rng := rand.New(rand.NewSource(seed*131 + int64(r*17+g)))
				k := fmt.Sprintf("rpc#%d#%d", r, g)
				for c := 0; c < calls; c++ {
					rc := pd.S.GetRaftCluster()
					var region = (*pdpb.AskSplitRequest)(nil)
					_ = region
					switch rng.Intn(3) {
					case 0:
						resp, err := pd.S.AllocID(ctx, &pdpb.AllocIDRequest{Header: pd.Header()})
						if err != nil || resp.GetHeader().GetError() != nil {
							emit(k, nil, true)
						} else {
							emit(k, []uint64{resp.GetId()}, false)
						}
					case 1:
						if rc == nil || rc.GetRegion(2) == nil {
							emit(k, nil, true)
							break
						}
						resp, err := pd.S.AskSplit(ctx, &pdpb.AskSplitRequest{Header: pd.Header(), Region: rc.GetRegion(2).GetMeta()})
						if err != nil || resp.GetHeader().GetError() != nil {
							emit(k, nil, true)
						} else {
							emit(k, append([]uint64{resp.GetNewRegionId()}, resp.GetNewPeerIds()...), false)
						}
					default:
						if rc == nil || rc.GetRegion(2) == nil {
							emit(k, nil, true)
							break
						}
						resp, err := pd.S.AskBatchSplit(ctx, &pdpb.AskBatchSplitRequest{Header: pd.Header(), Region: rc.GetRegion(2).GetMeta(), SplitCount: uint32(1 + rng.Intn(4))})
						if err != nil || resp.GetHeader().GetError() != nil {
							emit(k, nil, true)
						} else {
							var ids []uint64
							for _, s := range resp.GetIds() {
								ids = append(ids, s.GetNewRegionId())
								ids = append(ids, s.GetNewPeerIds()...)
							}
							emit(k, ids, false)
						}
					}
					if g == 0 && c%20 == 19 {
						// the leader steps down and campaigns again: the id window is re-based from etcd
						pd.S.GetMember().ResetLeader()
						time.Sleep(300 * time.Millisecond)
					}
				}
			}(g)
		}
		wg.Wait()
		pd.Close()
	}
	return nil
}
