// Package electionh binds spec/election/Election.tla to server/election, member, and the leader-guarded writes of
// tso / id / member, with REAL etcd leases (minimum TTL) on one embedded etcd; behaviours run in parallel.
package electionh

import (
	"context"
	"fmt"
	"strconv"
	"sync"
	"sync/atomic"
	"time"

	"github.com/tikv/pd/pkg/encryption"
	"github.com/tikv/pd/pkg/tsoutil"
	"github.com/tikv/pd/pkg/typeutil"
	"github.com/tikv/pd/server/config"
	"github.com/tikv/pd/server/encryptionkm"
	"github.com/tikv/pd/server/id"
	"github.com/tikv/pd/server/member"
	"github.com/tikv/pd/server/tso"
	"go.etcd.io/etcd/clientv3"
	"go.uber.org/zap"
	"google.golang.org/grpc"

	"pdverif/internal/cli"
	"pdverif/internal/etcdgate"
	"pdverif/internal/trace"
)

func init() {
	cli.Register("election replay", replay)
}

const ttl = 2 // seconds: the smallest lease this etcd grants

var keysMu sync.Mutex

type contender struct {
	name   string
	id     uint64
	cli    *clientv3.Client
	mem    *member.Member
	am     *tso.AllocatorManager
	alloc  tso.Allocator
	ida    id.Allocator
	ownEnd uint64 // the end of the id window this member last reserved durably itself
	km     *encryptionkm.KeyManager
	cancel context.CancelFunc // keep-alive
	delay  int64              // ns by which the next lease keep-alive reply is delayed (atomic); later keep-alives are lost
	slowed int64              // number of keep-alive streams opened since the delay was set
	inited bool
	noRevoke int64 // != 0: LeaseRevoke calls of this member fail (etcd cannot be reached while it resigns)
}

type slowStream struct {
	grpc.ClientStream
	c    *contender
	ctx  context.Context
	nth  int64 // 0: normal; 1: the slow one; >1: lost
	wait time.Duration
}

func (s *slowStream) SendMsg(m interface{}) error {
	if s.nth > 1 {
		// this keep-alive never reaches etcd
		<-s.ctx.Done()
		return s.ctx.Err()
	}
	return s.ClientStream.SendMsg(m)
}

func (s *slowStream) RecvMsg(m interface{}) error {
	err := s.ClientStream.RecvMsg(m)
	if s.nth == 1 {
		time.Sleep(s.wait)
	}
	return err
}

func newContender(e *etcdgate.Etcd, root, name string, idn uint64) (*contender, error) {
	c := &contender{name: name, id: idn}
	lc := zap.NewProductionConfig()
	lc.Level = zap.NewAtomicLevelAt(zap.FatalLevel)
	lc.OutputPaths, lc.ErrorOutputPaths = []string{"/dev/null"}, []string{"/dev/null"}
	cl, err := clientv3.New(clientv3.Config{Endpoints: []string{e.EP}, DialTimeout: 5 * time.Second, LogConfig: &lc,
		DialOptions: []grpc.DialOption{grpc.WithUnaryInterceptor(func(ctx context.Context, method string, req, reply interface{}, cc *grpc.ClientConn,
			invoker grpc.UnaryInvoker, opts ...grpc.CallOption) error {
			if method == "/etcdserverpb.Lease/LeaseRevoke" && atomic.LoadInt64(&c.noRevoke) != 0 {
				return fmt.Errorf("etcd unreachable (injected): the lease cannot be revoked")
			}
			return invoker(ctx, method, req, reply, cc, opts...)
		}), grpc.WithStreamInterceptor(func(ctx context.Context, desc *grpc.StreamDesc, cc *grpc.ClientConn, method string,
			streamer grpc.Streamer, opts ...grpc.CallOption) (grpc.ClientStream, error) {
			s, err := streamer(ctx, desc, cc, method, opts...)
			if err != nil || method != "/etcdserverpb.Lease/LeaseKeepAlive" {
				return s, err
			}
			ss := &slowStream{ClientStream: s, c: c, ctx: ctx}
			if d := atomic.LoadInt64(&c.delay); d > 0 {
				ss.nth, ss.wait = atomic.AddInt64(&c.slowed, 1), time.Duration(d)
			}
			return ss, nil
		})}})
	if err != nil {
		return nil, err
	}
	c.cli = cl
	cfg := config.NewConfig()
	cfg.TSOSaveInterval = typeutil.NewDuration(3 * time.Second)
	cfg.TSOUpdatePhysicalInterval = typeutil.NewDuration(50 * time.Millisecond)
	cfg.AdvertiseClientUrls, cfg.AdvertisePeerUrls = "http://"+name, "http://"+name+"-peer"
	c.mem = member.NewMember(nil, cl, idn)
	c.mem.MemberInfo(cfg, name, root)
	c.am = tso.NewAllocatorManager(c.mem, root, cfg, func() time.Duration { return 24 * time.Hour })
	c.am.SetUpAllocator(context.Background(), tso.GlobalDCLocation, c.mem.GetLeadership())
	c.alloc, err = c.am.GetAllocator(tso.GlobalDCLocation)
	if err != nil {
		return nil, err
	}
	c.ida = id.NewAllocator(cl, root, c.mem.MemberValue())
	ecfg := &encryption.Config{DataEncryptionMethod: "aes128-ctr", MasterKey: encryption.MasterKeyConfig{Type: "plaintext"}}
	if err := ecfg.Adjust(); err != nil {
		return nil, err
	}
	if c.km, err = encryptionkm.NewKeyManager(cl, ecfg); err != nil {
		return nil, err
	}
	return c, nil
}

func replay(args map[string]string) error {
	var behs [][]cli.Step
	if err := cli.ReadJSON(args["in"], &behs); err != nil {
		return err
	}
	par := cli.Int(args, "parallel", 24)
	w, err := trace.Create(args["out"])
	if err != nil {
		return err
	}
	defer w.Close()
	e, err := etcdgate.Start()
	if err != nil {
		return err
	}
	defer e.Stop()
	plain, err := e.Client()
	if err != nil {
		return err
	}
	defer plain.Close()
	results := make([][]trace.Ev, len(behs))
	errs := make([]error, len(behs))
	sem := make(chan struct{}, par)
	var wg sync.WaitGroup
	for bi := range behs {
		wg.Add(1)
		sem <- struct{}{}
		go func(bi int) {
			defer wg.Done()
			defer func() { <-sem }()
			results[bi], errs[bi] = one(e, plain, bi, behs[bi])
		}(bi)
	}
	wg.Wait()
	for bi := range behs {
		if errs[bi] != nil {
			return errs[bi]
		}
		for _, ev := range results[bi] {
			w.Emit(ev)
		}
	}
	return nil
}

func one(e *etcdgate.Etcd, plain *clientv3.Client, bi int, beh []cli.Step) ([]trace.Ev, error) {
	ctx := context.Background()
	root := fmt.Sprintf("/vf/el/%d", bi)
	names := []string{"a", "b", "c"}
	cs := map[string]*contender{}
	for i, n := range names {
		c, err := newContender(e, root, n, uint64(i+1))
		if err != nil {
			return nil, err
		}
		cs[n] = c
		defer c.cli.Close()
	}
	owner := func() string {
		r, err := plain.Get(ctx, root+"/leader")
		if err != nil || len(r.Kvs) == 0 {
			return "none"
		}
		for _, c := range cs {
			if string(r.Kvs[0].Value) == c.mem.MemberValue() {
				return c.name
			}
		}
		return "other"
	}
	get := func(key string) string {
		r, err := plain.Get(ctx, key)
		if err != nil || len(r.Kvs) == 0 {
			return ""
		}
		return fmt.Sprintf("%x", r.Kvs[0].Value)
	}
	stored := func() map[string]string {
		return map[string]string{
			"window":   get(root + "/timestamp"),
			"priority": get(root + "/member/1/leader_priority"),
			"idwindow": get(root + "/alloc_id"),
			"dcinfo":   get(cs["a"].mem.GetDCLocationPath(1)),
			"keys":     "", // filled in for a key-manager write only (the key is shared by all behaviours on this etcd)
		}
	}
	var out []trace.Ev
	observe := func(ev trace.Ev) {
		check, isl, tsoOK := map[string]bool{}, map[string]bool{}, map[string]string{}
		for _, c := range cs {
			ck := c.mem.GetLeadership().Check()
			check[c.name] = ck
			isl[c.name] = c.mem.IsLeader()
			// a timestamp request: avoided only where the allocator would wait for a sync that is not coming
			tsoOK[c.name] = "skipped"
			if !ck || c.inited {
				if _, err := c.am.HandleTSORequest(tso.GlobalDCLocation, 1); err == nil {
					tsoOK[c.name] = "ok"
				} else {
					tsoOK[c.name] = "err"
				}
			}
		}
		ev["check"], ev["isleader"], ev["tso"], ev["rec"], ev["stored"] = check, isl, tsoOK, owner(), stored()
	}
	ev0 := trace.Ev{"ev": "reset", "beh": bi, "mode": "election"}
	observe(ev0)
	out = append(out, ev0)
	seq := 0
	keysWrite, keysAfter := false, ""
	for si, st := range beh {
		if si == 0 {
			continue
		}
		m := st.Str(0)
		c := cs[m]
		ev := trace.Ev{"ev": st.Action, "beh": bi, "step": si, "m": m, "res": "ok", "rec_before": owner(), "stored_before": stored(), "served_max": 0, "own_end": 0}
		switch st.Action {
		case "Campaign":
			// every other campaign carries a further comparison that holds, the way the per-datacenter allocators campaign
			// ("no next leader designated"): it must not replace the "no leader record yet" condition
			var cerr error
			if si%2 == 1 {
				cerr = c.mem.GetLeadership().Campaign(ttl, c.mem.MemberValue(), clientv3.Compare(clientv3.CreateRevision(root+"/next-leader"), "=", 0))
				ev["extra_cmp"] = true
			} else {
				cerr = c.mem.CampaignLeader(ttl)
			}
			if cerr != nil {
				ev["res"] = "err"
				break
			}
			kctx, cancel := context.WithCancel(ctx)
			c.cancel = cancel
			go c.mem.KeepLeader(kctx)
			// what campaignLeader does next: initialise the allocator (a guarded save), then enable the leader
			if err := c.alloc.Initialize(0); err != nil {
				ev["init"] = "err"
				c.inited = false
			} else {
				c.inited = true
			}
			c.mem.EnableLeader()
		case "Expire":
			// one slow keep-alive reply, then the keep-alive stops and the lease runs out
			slow := si%2 == 0
			ev["slow_keepalive"] = slow
			if slow {
				// the next keep-alive is answered 1.2 s late and all later ones are lost
				atomic.StoreInt64(&c.slowed, 0)
				atomic.StoreInt64(&c.delay, int64(1200*time.Millisecond))
			} else if c.cancel != nil {
				c.cancel()
			}
			was := owner() == m
			dl := time.Now().Add(8 * time.Second)
			ev["check_when_record_gone"] = false
			for time.Now().Before(dl) {
				if was && owner() != m {
					// the record has just expired in etcd: the holder's own view must already have expired
					ev["check_when_record_gone"] = c.mem.GetLeadership().Check()
					break
				}
				if !was && !c.mem.GetLeadership().Check() {
					break
				}
				time.Sleep(5 * time.Millisecond)
			}
			for time.Now().Before(dl) && c.mem.GetLeadership().Check() {
				time.Sleep(5 * time.Millisecond)
			}
			if c.cancel != nil {
				c.cancel()
			}
			atomic.StoreInt64(&c.delay, 0)
			c.am.ResetAllocatorGroup(tso.GlobalDCLocation)
			c.mem.ResetLeader()
			c.inited = false
		case "Resign":
			// every second resignation happens while etcd cannot be reached for the revoke: the member must stop trusting
			// its lease at once all the same; the record then disappears when the lease runs out
			unreachable := si%2 == 1
			ev["revoke_unreachable"] = unreachable
			if unreachable {
				atomic.StoreInt64(&c.noRevoke, 1)
			}
			if c.cancel != nil {
				c.cancel()
			}
			c.am.ResetAllocatorGroup(tso.GlobalDCLocation)
			c.mem.ResetLeader()
			c.inited = false
			ev["check_right_after"] = c.mem.GetLeadership().Check()
			if unreachable {
				dl := time.Now().Add(time.Duration(ttl+3) * time.Second)
				for owner() == c.name && time.Now().Before(dl) {
					time.Sleep(50 * time.Millisecond)
				}
				atomic.StoreInt64(&c.noRevoke, 0)
			}
		case "DeleteKey":
			ev["m"] = ""
			plain.Delete(ctx, root+"/leader")
		case "GuardedWrite":
			kind := st.Str(1)
			ev["kind"] = kind
			seq++
			var err error
			switch kind {
			case "priority":
				err = c.mem.SetMemberLeaderPriority(1, 100*int(c.id)+seq)
			case "dcinfo":
				plain.Put(ctx, c.mem.GetDCLocationPath(1), "dc-"+strconv.Itoa(seq))
				ev["stored_before"] = stored()
				err = c.mem.DeleteMemberDCLocationInfo(1)
			case "idwindow":
				err = c.ida.Rebase()
				if err == nil {
					if v, perr := strconv.ParseUint(get(root+"/alloc_id"), 16, 64); perr == nil {
						c.ownEnd = v
					}
				} else {
					// a member whose window write was refused goes on allocating (callers retry): it may use up what it
					// reserved itself while it was the leader, never an id beyond that
					var maxID uint64
					n := 0
					for ; n < 1200; n++ {
						v, aerr := c.ida.Alloc()
						if aerr != nil {
							break
						}
						if v > maxID {
							maxID = v
						}
					}
					ev["served_after_refusal"], ev["served_max"], ev["own_end"] = n, int(maxID), int(c.ownEnd)
					if owner() == c.name {
						if v, perr := strconv.ParseUint(get(root+"/alloc_id"), 16, 64); perr == nil {
							c.ownEnd = v
						}
					}
				}
			case "keys":
				// the encryption key manager rotates/saves the data keys through a leader-guarded transaction on a key
				// that is not under the cluster root: one such write at a time across the parallel behaviours
				keysMu.Lock()
				before := get(encryptionkm.EncryptionKeysPath)
				err = c.km.SetLeadership(c.mem.GetLeadership())
				keysAfter = get(encryptionkm.EncryptionKeysPath)
				keysMu.Unlock()
				sb := stored()
				sb["keys"] = before
				ev["stored_before"] = sb
				if err == nil && keysAfter == before {
					err = fmt.Errorf("nothing written: the manager found itself not to be the leader")
				}
				keysWrite = true
			case "window":
				cur, _, _ := tso.VerifTSO(c.alloc)
				if cur.IsZero() {
					cur = time.Now()
				}
				err = c.alloc.SetTSO(tsoutil.ComposeTS(cur.Add(10*time.Second).UnixNano()/int64(time.Millisecond), 0))
			}
			if err != nil {
				ev["res"] = "err"
			}
		}
		observe(ev)
		if keysWrite {
			ev["stored"].(map[string]string)["keys"] = keysAfter
			keysWrite = false
		}
		out = append(out, ev)
	}
	for _, c := range cs {
		if c.cancel != nil {
			c.cancel()
		}
		c.am.ResetAllocatorGroup(tso.GlobalDCLocation)
		c.mem.ResetLeader()
	}
	return out, nil
}
