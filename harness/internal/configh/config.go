// Package configh binds spec/config/ConfigPersist.tla to Server.Set*Config / PersistOptions.Reload.
package configh

import (
	"time"
	"bytes"
	"encoding/json"
	"fmt"
	"io/ioutil"
	"net/http"

	"github.com/tikv/pd/server/config"

	"pdverif/internal/cli"
	"pdverif/internal/pdserver"
	"pdverif/internal/trace"
)

func init() {
	cli.Register("config replay", replay)
}

func js(v interface{}) string {
	b, err := json.Marshal(v)
	if err != nil {
		return "marshal-error:" + err.Error()
	}
	return string(b)
}

func replay(args map[string]string) error {
	var behs [][]cli.Step
	if err := cli.ReadJSON(args["in"], &behs); err != nil {
		return err
	}
	w, err := trace.Create(args["out"])
	if err != nil {
		return err
	}
	defer w.Close()
	pdserver.WithAPI = true
	pd, err := pdserver.Start(nil, true)
	if err != nil {
		return err
	}
	defer pd.Close()
	if err := pd.Bootstrap(); err != nil {
		return err
	}
	s := pd.S
	served := func() trace.Ev {
		o := trace.Ev{
			"schedule":    js(s.GetScheduleConfig()),
			"replication": js(s.GetReplicationConfig()),
			"pdserver":    js(s.GetPDServerConfig()),
			"version":     s.GetClusterVersion().String(),
			"replmode":    js(s.GetReplicationModeConfig()),
			"labelprop":   js(s.GetLabelProperty()),
		}
		return o
	}
	// what the documented reload normalisation turns the served configuration into (deprecated flags migrated)
	servedNorm := func() trace.Ev {
		sc := s.GetScheduleConfig().Clone()
		sc.MigrateDeprecatedFlags()
		pc := s.GetPDServerConfig().Clone()
		// what a reload of the persisted form gives: the deprecated trace-region-flow flag is written only when true and read
		// back as true when absent, so it never changes flow-round-by-digit for configurations produced here; it ends up false
		// in memory. (MigrateDeprecatedFlags itself is not idempotent: a server that has reloaded once holds false already.)
		pc.TraceRegionFlow = false
		lp := s.GetLabelProperty()
		if lp == nil {
			lp = config.LabelPropertyConfig{}
		}
		return trace.Ev{
			"schedule":    js(sc),
			"replication": js(s.GetReplicationConfig()),
			"pdserver":    js(pc),
			"version":     s.GetClusterVersion().String(),
			"replmode":    js(s.GetReplicationModeConfig()),
			"labelprop":   js(lp),
		}
	}
	rule := func() string {
		if rc := s.GetRaftCluster(); rc != nil && rc.GetRuleManager().IsInitialized() {
			if r := rc.GetRuleManager().GetRule("pd", "default"); r != nil {
				return fmt.Sprintf("count=%d labels=%v", r.Count, r.LocationLabels)
			}
		}
		return "none"
	}
	reloaded := func() (trace.Ev, error) {
		o := config.NewPersistOptions(config.NewConfig())
		if err := o.Reload(s.GetStorage()); err != nil {
			return nil, err
		}
		return trace.Ev{
			"schedule":    js(o.GetScheduleConfig()),
			"replication": js(o.GetReplicationConfig()),
			"pdserver":    js(o.GetPDServerConfig()),
			"version":     o.GetClusterVersion().String(),
			"replmode":    js(o.GetReplicationModeConfig()),
			"labelprop":   js(nonNil(o.GetLabelPropertyConfig())),
		}, nil
	}
	labelKV := map[string][2]string{"l1": {"zone", "z1"}, "l2": {"zone", "z2"}, "l3": {"host", "h1"}}
	for bi, beh := range behs {
		sv := served()
		sv["rule"] = rule()
		w.Reset(trace.Ev{"beh": bi, "mode": "config", "served": sv})
		for si, st := range beh {
			if si == 0 {
				continue
			}
			ev := trace.Ev{"ev": st.Action, "beh": bi, "step": si, "res": "ok", "invalid": false, "section": "", "val": ""}
			var fails bool
			var call func() error
			switch st.Action {
			case "Set":
				sec, val := st.Str(0), st.Str(1)
				fails = len(st.Args) > 2 && st.Args[2] == true
				ev["section"], ev["val"] = sec, val
				ev["invalid"] = val[0] == 'i'
				switch sec {
				case "schedule":
					c := *s.GetScheduleConfig()
					switch val {
					case "v1":
						c.MaxSnapshotCount = 3 + uint64(si%5)
					case "v2":
						c.LowSpaceRatio, c.HighSpaceRatio = 0.9, 0.5
					case "v3":
						c.TolerantSizeRatio = 2.5 + float64(si%3)
					case "v4":
						c.LowSpaceRatio, c.HighSpaceRatio, c.LeaderScheduleLimit = 0.5, 0, 8
					case "i1":
						c.LowSpaceRatio = 1.5
					case "i2":
						c.HighSpaceRatio = -0.1
					case "i3":
						c.LowSpaceRatio, c.HighSpaceRatio = 0.5, 0.6
					case "i4":
						c.LowSpaceRatio, c.HighSpaceRatio = 0.7, 0.7
					case "i5":
						c.TolerantSizeRatio = -1
					case "v5":
						// a store limit is added to the copy (the map is part of the schedule section)
						c.StoreLimit[uint64(1+si%3)] = config.StoreLimitConfig{AddPeer: float64(40 + si), RemovePeer: float64(40 + si)}
					case "v6":
						// every store limit is dropped again (an empty, non-nil map is the state of a fresh cluster)
						c.StoreLimit = map[uint64]config.StoreLimitConfig{}
					case "i7":
						// ... together with a value that fails validation: nothing of the request may stay
						c.StoreLimit[uint64(4+si%3)] = config.StoreLimitConfig{AddPeer: float64(70 + si), RemovePeer: float64(70 + si)}
						c.LowSpaceRatio = 1.5
					case "i6":
						// same length as the served list, first entry replaced by an unregistered type
						c.Schedulers = append(config.SchedulerConfigs{}, c.Schedulers...)
						if len(c.Schedulers) > 0 {
							c.Schedulers[0] = config.SchedulerConfig{Type: "no-such-scheduler"}
						} else {
							c.Schedulers = config.SchedulerConfigs{{Type: "no-such-scheduler"}}
						}
					case "i8":
						// an unregistered type is out of the domain whether or not the entry is switched off
						c.Schedulers = append(append(config.SchedulerConfigs{}, c.Schedulers...), config.SchedulerConfig{Type: "no-such-scheduler", Disable: true})
					}
					call = func() error { return s.SetScheduleConfig(c) }
					if si%2 == 0 && val != "v2" && val != "v4" && val != "v5" && val != "v6" && val != "i3" && val != "i4" && val != "i7" {
						// the same update through the HTTP API (POST /pd/api/v1/config). The handler applies a request key by
						// key, each key being one change, so only single-key updates are sent this way.
						body := map[string]interface{}{}
						switch val {
						case "v1":
							body["max-snapshot-count"] = c.MaxSnapshotCount
						case "i1":
							body["low-space-ratio"] = c.LowSpaceRatio
						case "i2":
							body["high-space-ratio"] = c.HighSpaceRatio
						case "v3", "i5":
							body["tolerant-size-ratio"] = c.TolerantSizeRatio
						case "i6", "i8":
							body["schedulers-v2"] = c.Schedulers
						}
						ev["via"] = "http"
						call = func() error { return post(pd.Cfg.ClientUrls+"/pd/api/v1/config", body) }
					}
				case "replication":
					c := *s.GetReplicationConfig()
					switch val {
					case "v1":
						c.MaxReplicas = 5
					case "v2":
						c.LocationLabels, c.IsolationLevel = []string{"zone", "rack"}, ""
					case "v3":
						c.LocationLabels, c.IsolationLevel = []string{"zone"}, "zone"
					case "v4":
						c.MaxReplicas, c.LocationLabels, c.IsolationLevel = 3, []string{}, ""
					case "i1":
						c.LocationLabels, c.IsolationLevel = []string{"zone"}, "dc"
					}
					call = func() error { return s.SetReplicationConfig(c) }
				case "pdserver":
					c := *s.GetPDServerConfig()
					switch val {
					case "v1":
						c.FlowRoundByDigit = 2 + si%4
					case "v2":
						c.MetricStorage = fmt.Sprintf("http://127.0.0.1:%d", 9000+si%7)
					case "i1":
						c.FlowRoundByDigit = -1
					}
					call = func() error { return s.SetPDServerConfig(c) }
				case "version":
					v := map[string]string{"v1": "5.1.0", "v2": "5.2.0", "i1": "not-a-version"}[val]
					call = func() error { return s.SetClusterVersion(v) }
				case "replmode":
					c := *s.GetReplicationModeConfig()
					switch val {
					case "v1":
						c.DRAutoSync.WaitStoreTimeout.Duration = 0
						c.DRAutoSync.LabelKey = "zone"
					case "v2":
						c.DRAutoSync.PrimaryReplicas, c.DRAutoSync.DRReplicas = 2, 1
					case "i1":
						c.ReplicationMode = "no-such-mode"
					}
					call = func() error { return s.SetReplicationModeConfig(c) }
				}
			case "LeaderChange":
				// the server resigns and campaigns again: it reloads the configuration from storage (with the migration of
				// deprecated flags) and persists its view with the next accepted change
				ev["section"], ev["val"] = "leader", "change"
				call = func() error {
					pd.S.GetMember().ResetLeader()
					time.Sleep(200 * time.Millisecond)
					return pd.WaitLeader(30 * time.Second)
				}
			case "SetLabel":
				kv := labelKV[st.Str(0)]
				fails = len(st.Args) > 1 && st.Args[1] == true
				ev["section"], ev["val"] = "labelprop", st.Str(0)
				call = func() error { return s.SetLabelProperty("reject-leader", kv[0], kv[1]) }
			case "DelLabel":
				kv := labelKV[st.Str(0)]
				fails = len(st.Args) > 1 && st.Args[1] == true
				ev["section"], ev["val"] = "labelprop", st.Str(0)
				call = func() error { return s.DeleteLabelProperty("reject-leader", kv[0], kv[1]) }
			}
			if call == nil {
				continue
			}
			if fails {
				pd.KV.Arm(1, false)
			}
			err := call()
			ev["writes"] = pd.KV.Writes()
			ev["failed_write"] = fails && pd.KV.Writes() >= 1
			pd.KV.Arm(0, false)
			if err != nil {
				ev["res"] = "err"
			}
			sv := served()
			sv["rule"] = rule()
			ev["served"] = sv
			ev["served_norm"] = servedNorm()
			rl, rerr := reloaded()
			if rerr != nil {
				return rerr
			}
			ev["reloaded"] = rl
			w.Emit(ev)
		}
	}
	return nil
}

func post(url string, body interface{}) error {
	bs, err := json.Marshal(body)
	if err != nil {
		return err
	}
	resp, err := http.Post(url, "application/json", bytes.NewReader(bs))
	if err != nil {
		return err
	}
	defer resp.Body.Close()
	msg, _ := ioutil.ReadAll(resp.Body)
	if resp.StatusCode != http.StatusOK {
		return fmt.Errorf("http %d: %s", resp.StatusCode, string(msg))
	}
	return nil
}

func nonNil(c config.LabelPropertyConfig) config.LabelPropertyConfig {
	if c == nil {
		return config.LabelPropertyConfig{}
	}
	return c
}
