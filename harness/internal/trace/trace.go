// Package trace writes ndjson recordings of real executions.
package trace

import (
	"bufio"
	"encoding/json"
	"os"
	"sync"
	"sync/atomic"
)

// Ev is one event.
type Ev map[string]interface{}

// W is an ndjson writer.
type W struct {
	mu  sync.Mutex
	f   *os.File
	b   *bufio.Writer
	N   int
	seq int64
}

// Create opens path for writing.
func Create(path string) (*W, error) {
	f, err := os.Create(path)
	if err != nil {
		return nil, err
	}
	return &W{f: f, b: bufio.NewWriterSize(f, 1<<20)}, nil
}

// Seq returns the next value of a process-wide sequence counter (real-time order of call starts/ends).
func (w *W) Seq() int64 { return atomic.AddInt64(&w.seq, 1) }

// Emit writes one event.
func (w *W) Emit(e Ev) {
	w.mu.Lock()
	defer w.mu.Unlock()
	bs, err := json.Marshal(e)
	if err != nil {
		panic(err)
	}
	w.b.Write(bs)
	w.b.WriteByte('\n')
	w.N++
}

// Reset writes the separator between independent traces.
func (w *W) Reset(fields Ev) {
	e := Ev{"ev": "reset"}
	for k, v := range fields {
		e[k] = v
	}
	w.Emit(e)
}

// Close flushes.
func (w *W) Close() error {
	w.mu.Lock()
	defer w.mu.Unlock()
	w.b.Flush()
	return w.f.Close()
}
