// Package placementh binds spec/placement/*.tla to server/schedule/placement.
package placementh

import (
	"fmt"
	"math/rand"

	"github.com/pingcap/kvproto/pkg/metapb"
	"github.com/tikv/pd/server/core"
	"github.com/tikv/pd/server/kv"
	"github.com/tikv/pd/server/schedule/placement"

	"pdverif/internal/cli"
	"pdverif/internal/faultkv"
	"pdverif/internal/trace"
)

func init() {
	cli.Register("placement rules", rules)
}

const inf = 6 // keys 0..5, 6 = unbounded

var groupName = map[int]string{1: "a", 2: "b", 3: "pd"}
var ruleName = map[int]string{1: "default", 2: "r1", 3: "r2", 4: "r3"}
var groupNum = map[string]int{"a": 1, "b": 2, "pd": 3}
var ruleNum = map[string]int{"default": 1, "r1": 2, "r2": 3, "r3": 4}

func keyHex(k int) string {
	if k == 0 || k >= inf {
		return ""
	}
	return fmt.Sprintf("%02x", k)
}

func keyBytes(k int) []byte {
	if k == 0 || k >= inf {
		return nil
	}
	return []byte{byte(k)}
}

func unkey(b []byte, end bool) int {
	if len(b) == 0 {
		if end {
			return inf
		}
		return 0
	}
	return int(b[0])
}

type mrule struct {
	G, ID, S, E, Idx int
	Role             string
	Count            int
	Ov               bool
}

func (r mrule) real() *placement.Rule {
	return &placement.Rule{GroupID: groupName[r.G], ID: ruleName[r.ID], Index: r.Idx, Override: r.Ov, StartKeyHex: keyHex(r.S), EndKeyHex: keyHex(r.E),
		Role: placement.PeerRoleType(r.Role), Count: r.Count}
}

// [g, id, s, e, idx, role, count, ov]
func (r mrule) rec() []interface{} {
	return []interface{}{r.G, r.ID, r.S, r.E, r.Idx, r.Role, r.Count, r.Ov}
}

func recOf(r *placement.Rule) []interface{} {
	return []interface{}{groupNum[r.GroupID], ruleNum[r.ID], unkey(r.StartKey, false), unkey(r.EndKey, true), r.Index, string(r.Role), r.Count, r.Override}
}

func keysOf(rs []*placement.Rule) [][]int {
	out := [][]int{}
	for _, r := range rs {
		out = append(out, []int{groupNum[r.GroupID], ruleNum[r.ID]})
	}
	return out
}

func observe(m *placement.RuleManager, probes [][2]int) trace.Ev {
	o := trace.Ev{}
	all := [][]interface{}{}
	for _, r := range m.GetAllRules() {
		all = append(all, recOf(r))
	}
	o["all"] = all
	gs := [][]interface{}{}
	for _, g := range m.GetRuleGroups() {
		if g.Index == 0 && !g.Override {
			continue // default settings are not configuration
		}
		gs = append(gs, []interface{}{groupNum[g.ID], g.Index, g.Override})
	}
	o["groups"] = gs
	bk := [][][]int{}
	for k := 0; k < inf; k++ {
		key := keyBytes(k)
		if key == nil {
			key = []byte{}
		}
		bk = append(bk, keysOf(m.GetRulesByKey(key)))
	}
	o["bykey"] = bk
	ap := []interface{}{}
	sp := []interface{}{}
	for _, p := range probes {
		region := core.NewRegionInfo(&metapb.Region{Id: 1, StartKey: keyBytes(p[0]), EndKey: keyBytes(p[1])}, nil)
		ap = append(ap, []interface{}{p[0], p[1], keysOf(m.GetRulesForApplyRegion(region))})
		ks := []int{}
		for _, b := range m.GetSplitKeys(keyBytes(p[0]), keyBytes(p[1])) {
			ks = append(ks, unkey(b, false))
		}
		sp = append(sp, []interface{}{p[0], p[1], ks})
	}
	o["apply"], o["split"] = ap, sp
	return o
}

func copyKV(src kv.Base) kv.Base {
	dst := kv.NewMemoryKV()
	ks, vs, _ := src.LoadRange("", "\xff\xff\xff\xff", 0)
	for i := range ks {
		dst.Save(ks[i], vs[i])
	}
	return dst
}

type prim []interface{}

type callFn func(m *placement.RuleManager) error

// genOp draws one update of the RuleManager API. only >= 0 restricts the draw to multi-write kinds (bundles / batch).
func genOp(rng *rand.Rand, randRule func(int) mrule, only int) (kind string, prims []prim, call func(m *placement.RuleManager) error) {
	c0 := rng.Intn(100)
	if only >= 0 {
		c0 = []int{50, 60, 85, 92, 92, 92}[rng.Intn(6)]
	}
	switch c := c0; {
	case c < 30:
		r := randRule(1 + rng.Intn(3))
		kind, prims = "SetRule", []prim{{"setrule", r.rec()}}
		call = func(m *placement.RuleManager) error { return m.SetRule(r.real()) }
	case c < 45:
		g, id := 1+rng.Intn(3), 1+rng.Intn(4)
		kind, prims = "DeleteRule", []prim{{"delrule", g, id}}
		call = func(m *placement.RuleManager) error { return m.DeleteRule(groupName[g], ruleName[id]) }
	case c < 52:
		var rs []*placement.Rule
		for i := 0; i < 1+rng.Intn(3); i++ {
			r := randRule(1 + rng.Intn(3))
			rs = append(rs, r.real())
			prims = append(prims, prim{"setrule", r.rec()})
		}
		kind = "SetRules"
		call = func(m *placement.RuleManager) error { return m.SetRules(rs) }
	case c < 64:
		var ops []placement.RuleOp
		for i := 0; i < 1+rng.Intn(3); i++ {
			switch rng.Intn(3) {
			case 0:
				r := randRule(1 + rng.Intn(3))
				ops = append(ops, placement.RuleOp{Rule: r.real(), Action: placement.RuleOpAdd})
				prims = append(prims, prim{"setrule", r.rec()})
			case 1:
				g, id := 1+rng.Intn(3), 1+rng.Intn(4)
				ops = append(ops, placement.RuleOp{Rule: &placement.Rule{GroupID: groupName[g], ID: ruleName[id]}, Action: placement.RuleOpDel})
				prims = append(prims, prim{"delrule", g, id})
			default:
				g := 1 + rng.Intn(3)
				// id prefix "r" matches r1, r2, r3
				ops = append(ops, placement.RuleOp{Rule: &placement.Rule{GroupID: groupName[g], ID: "r"}, Action: placement.RuleOpDel, DeleteByIDPrefix: true})
				prims = append(prims, prim{"delmatch", g, []int{2, 3, 4}})
			}
		}
		kind = "Batch"
		call = func(m *placement.RuleManager) error { return m.Batch(ops) }
	case c < 76:
		g, idx, ov := 1+rng.Intn(3), rng.Intn(3), rng.Intn(3) == 0
		kind, prims = "SetRuleGroup", []prim{{"setgroup", g, idx, ov}}
		call = func(m *placement.RuleManager) error {
			return m.SetRuleGroup(&placement.RuleGroup{ID: groupName[g], Index: idx, Override: ov})
		}
	case c < 82:
		g := 1 + rng.Intn(3)
		kind, prims = "DeleteRuleGroup", []prim{{"setgroup", g, 0, false}}
		call = func(m *placement.RuleManager) error { return m.DeleteRuleGroup(groupName[g]) }
	case c < 90:
		g, idx, ov := 1+rng.Intn(3), rng.Intn(3), rng.Intn(3) == 0
		b := placement.GroupBundle{ID: groupName[g], Index: idx, Override: ov}
		prims = []prim{{"delgroup", g}, {"setgroup", g, idx, ov}}
		for i := 0; i < rng.Intn(3); i++ {
			r := randRule(g)
			b.Rules = append(b.Rules, r.real())
			prims = append(prims, prim{"setrule", r.rec()})
		}
		kind = "SetGroupBundle"
		call = func(m *placement.RuleManager) error { return m.SetGroupBundle(b) }
	case c < 96:
		override := rng.Intn(2) == 0
		var bs []placement.GroupBundle
		var after []prim
		used := map[int]bool{}
		for i := 0; i < 1+rng.Intn(2); i++ {
			g := 1 + rng.Intn(3)
			if used[g] {
				continue
			}
			used[g] = true
			idx, ov := rng.Intn(3), rng.Intn(3) == 0
			b := placement.GroupBundle{ID: groupName[g], Index: idx, Override: ov}
			if !override {
				prims = append(prims, prim{"delgroup", g}, prim{"setgroup", g, 0, false})
			}
			after = append(after, prim{"setgroup", g, idx, ov})
			for j := 0; j < 1+rng.Intn(2); j++ {
				r := randRule(g)
				b.Rules = append(b.Rules, r.real())
				after = append(after, prim{"setrule", r.rec()})
			}
			bs = append(bs, b)
		}
		if override {
			prims = []prim{{"delall"}}
		}
		prims = append(prims, after...)
		kind = "SetAllGroupBundles"
		call = func(m *placement.RuleManager) error { return m.SetAllGroupBundles(bs, override) }
	default:
		g := 1 + rng.Intn(3)
		kind, prims = "DeleteGroupBundle", []prim{{"delgroup", g}, {"setgroup", g, 0, false}}
		call = func(m *placement.RuleManager) error { return m.DeleteGroupBundle(groupName[g], false) }
	}
	return
}

func rules(args map[string]string) error {
	seed := int64(cli.Int(args, "seed", 1))
	nh := cli.Int(args, "histories", 40)
	nops := cli.Int(args, "ops", 40)
	w, err := trace.Create(args["out"])
	if err != nil {
		return err
	}
	defer w.Close()
	rng := rand.New(rand.NewSource(seed))
	roles := []string{"voter", "voter", "leader", "follower", "learner"}
	randRule := func(g int) mrule {
		r := mrule{G: g, ID: 1 + rng.Intn(4), Idx: rng.Intn(3), Role: roles[rng.Intn(len(roles))], Count: 1 + rng.Intn(2), Ov: rng.Intn(4) == 0}
		if r.Role == "leader" {
			r.Count = 1
		}
		r.S = rng.Intn(inf)
		r.E = r.S + 1 + rng.Intn(inf-r.S)
		if rng.Intn(3) == 0 {
			r.S, r.E = 0, inf
		}
		return r
	}
	var probes [][2]int
	for s := 0; s < inf; s++ {
		for e := s + 1; e <= inf; e++ {
			probes = append(probes, [2]int{s, e})
		}
	}
	for h := 0; h < nh; h++ {
		mem := kv.NewMemoryKV()
		fk := faultkv.New(mem, nil)
		storage := core.NewStorage(fk)
		m := placement.NewRuleManager(storage, nil)
		if err := m.Initialize(3, nil); err != nil {
			return err
		}
		ev0 := trace.Ev{"beh": h, "mode": "rules", "inf": inf, "obs": observe(m, probes)}
		w.Reset(ev0)
		var retry func(m *placement.RuleManager) error
		var retryEv trace.Ev
		for k := 0; k < nops; k++ {
			var prims []prim
			var call func(m *placement.RuleManager) error
			kind := ""
			if retry != nil && rng.Intn(5) != 0 {
				// retry the update that failed at a storage write
				call, kind = retry, "retry"
				prims = retryEv["prims"].([]prim)
			} else {
				kind, prims, call = genOp(rng, randRule, -1)
			}
			fail := 0
			if kind != "retry" && rng.Intn(9) == 0 {
				fail = 1 + rng.Intn(3)
			}
			fk.Arm(fail, false)
			err := call(m)
			injected := fail != 0 && fk.Writes() >= fail
			fk.Arm(0, false)
			ev := trace.Ev{"ev": "op", "beh": h, "step": k, "kind": kind, "prims": prims, "res": "ok", "failed_write": 0}
			if err != nil {
				ev["res"] = "err"
			}
			if injected {
				ev["failed_write"] = fail
			}
			ev["obs"] = observe(m, probes)
			// what a restarted PD would load: a fresh manager on a copy of the storage
			m2 := placement.NewRuleManager(core.NewStorage(copyKV(mem)), nil)
			if err2 := m2.Initialize(3, nil); err2 != nil {
				ev["restart"] = trace.Ev{"error": true, "all": []int{}, "groups": []int{}, "bykey": []int{}, "apply": []int{}, "split": []int{}}
			} else {
				ev["restart"] = observe(m2, probes)
			}
			w.Emit(ev)
			if err != nil && injected {
				retry, retryEv = call, ev
			} else {
				retry = nil
			}
		}
	}
	return nil
}

func init() {
	cli.Register("placement faults", faults)
}

// faults: for each scenario (a few setup updates, then one multi-write update) a storage failure is injected at
// EVERY individual write of the update in turn, each followed by a retry; one trace per (scenario, write).
func faults(args map[string]string) error {
	seed := int64(cli.Int(args, "seed", 1))
	ns := cli.Int(args, "scenarios", 20)
	w, err := trace.Create(args["out"])
	if err != nil {
		return err
	}
	defer w.Close()
	rng := rand.New(rand.NewSource(seed))
	roles := []string{"voter", "voter", "leader", "follower", "learner"}
	randRule := func(g int) mrule {
		r := mrule{G: g, ID: 1 + rng.Intn(4), Idx: rng.Intn(3), Role: roles[rng.Intn(len(roles))], Count: 1 + rng.Intn(2), Ov: rng.Intn(4) == 0}
		if r.Role == "leader" {
			r.Count = 1
		}
		r.S = rng.Intn(inf)
		r.E = r.S + 1 + rng.Intn(inf-r.S)
		if rng.Intn(3) == 0 {
			r.S, r.E = 0, inf
		}
		return r
	}
	var probes [][2]int
	for s := 0; s < inf; s++ {
		for e := s + 1; e <= inf; e++ {
			probes = append(probes, [2]int{s, e})
		}
	}
	type op struct {
		kind  string
		prims []prim
		call  func(m *placement.RuleManager) error
	}
	beh := 0
	for sc := 0; sc < ns; sc++ {
		var setup []op
		for i := 0; i < 3+rng.Intn(4); i++ {
			k, p, c := genOp(rng, randRule, -1)
			setup = append(setup, op{k, p, c})
		}
		tk, tp, tc := genOp(rng, randRule, 1)
		target := op{tk, tp, tc}
		// dry run: how many writes does the target need
		run := func(fail int, emit bool) (int, error) {
			mem := kv.NewMemoryKV()
			fk := faultkv.New(mem, nil)
			m := placement.NewRuleManager(core.NewStorage(fk), nil)
			if err := m.Initialize(3, nil); err != nil {
				return 0, err
			}
			if emit {
				w.Reset(trace.Ev{"beh": beh, "mode": "faults", "inf": inf, "obs": observe(m, probes)})
			}
			step := 0
			do := func(o op, kind string, fail int) error {
				fk.Arm(fail, false)
				err := o.call(m)
				injected := fail != 0 && fk.Writes() >= fail
				nw := fk.Writes()
				fk.Arm(0, false)
				if emit {
					ev := trace.Ev{"ev": "op", "beh": beh, "step": step, "kind": kind, "prims": o.prims, "res": "ok", "failed_write": 0, "writes": nw}
					if err != nil {
						ev["res"] = "err"
					}
					if injected {
						ev["failed_write"] = fail
					}
					ev["obs"] = observe(m, probes)
					m2 := placement.NewRuleManager(core.NewStorage(copyKV(mem)), nil)
					if err2 := m2.Initialize(3, nil); err2 != nil {
						ev["restart"] = trace.Ev{"error": true, "all": []int{}, "groups": []int{}, "bykey": []int{}, "apply": []int{}, "split": []int{}}
					} else {
						ev["restart"] = observe(m2, probes)
					}
					w.Emit(ev)
				}
				step++
				return err
			}
			for _, o := range setup {
				do(o, o.kind, 0)
			}
			fk.Arm(0, false)
			err := do(target, target.kind, fail)
			n := 0
			if fail == 0 {
				// count the writes of the un-faulted update on a second identical run
				n = -1
			}
			if fail != 0 {
				do(target, "retry", 0)
			}
			_ = err
			return n, nil
		}
		// count writes of the target: run it un-faulted while counting
		{
			mem := kv.NewMemoryKV()
			fk := faultkv.New(mem, nil)
			m := placement.NewRuleManager(core.NewStorage(fk), nil)
			if err := m.Initialize(3, nil); err != nil {
				return err
			}
			for _, o := range setup {
				o.call(m)
			}
			fk.Arm(0, false)
			if target.call(m) != nil {
				continue // rejected anyway: no writes to fail
			}
			nw := fk.Writes()
			for k := 1; k <= nw; k++ {
				if _, err := run(k, true); err != nil {
					return err
				}
				beh++
			}
		}
	}
	return nil
}

func init() {
	cli.Register("placement big", big)
}

// big: configurations with more rules and groups than one storage page; what is served against what a restarted PD loads.
func big(args map[string]string) error {
	seed := int64(cli.Int(args, "seed", 1))
	nh := cli.Int(args, "histories", 4)
	w, err := trace.Create(args["out"])
	if err != nil {
		return err
	}
	defer w.Close()
	rng := rand.New(rand.NewSource(seed))
	view := func(m *placement.RuleManager) trace.Ev {
		rs := []string{}
		for _, r := range m.GetAllRules() {
			rs = append(rs, fmt.Sprintf("%s/%s[%s,%s)%s*%d#%d", r.GroupID, r.ID, r.StartKeyHex, r.EndKeyHex, r.Role, r.Count, r.Index))
		}
		gs := []string{}
		for _, g := range m.GetRuleGroups() {
			if g.Index == 0 && !g.Override {
				continue
			}
			gs = append(gs, fmt.Sprintf("%s#%d/%v", g.ID, g.Index, g.Override))
		}
		bk := []string{}
		for k := 0; k < 256; k += 5 {
			s := ""
			for _, r := range m.GetRulesByKey([]byte{byte(k)}) {
				s += r.GroupID + "/" + r.ID + " "
			}
			bk = append(bk, s)
		}
		return trace.Ev{"rules": rs, "groups": gs, "bykey": bk}
	}
	for h := 0; h < nh; h++ {
		mem := kv.NewMemoryKV()
		m := placement.NewRuleManager(core.NewStorage(mem), nil)
		if err := m.Initialize(3, nil); err != nil {
			return err
		}
		w.Reset(trace.Ev{"beh": h, "mode": "big"})
		nrules := 60 + rng.Intn(260)
		ngroups := 1 + rng.Intn(130)
		for i := 0; i < nrules; i++ {
			s := rng.Intn(250)
			e := s + 1 + rng.Intn(255-s)
			r := &placement.Rule{GroupID: fmt.Sprintf("g%03d", rng.Intn(ngroups)), ID: fmt.Sprintf("r%04d", i), Index: rng.Intn(3),
				StartKeyHex: fmt.Sprintf("%02x", s), EndKeyHex: fmt.Sprintf("%02x", e), Role: placement.Voter, Count: 1 + rng.Intn(3)}
			if rng.Intn(5) == 0 {
				r.StartKeyHex, r.EndKeyHex = "", ""
			}
			if err := m.SetRule(r); err != nil {
				return err
			}
			if rng.Intn(3) == 0 {
				if err := m.SetRuleGroup(&placement.RuleGroup{ID: r.GroupID, Index: 1 + rng.Intn(5)}); err != nil {
					return err
				}
			}
			if i%40 == 39 || i == nrules-1 {
				if rng.Intn(3) == 0 && i > 10 {
					_ = m.DeleteRule(fmt.Sprintf("g%03d", rng.Intn(ngroups)), fmt.Sprintf("r%04d", rng.Intn(i)))
				}
				m2 := placement.NewRuleManager(core.NewStorage(copyKV(mem)), nil)
				ev := trace.Ev{"ev": "big", "beh": h, "nrules": i + 1, "served": view(m)}
				if err := m2.Initialize(3, nil); err != nil {
					ev["restart"] = trace.Ev{"rules": []string{"<restart failed: " + err.Error() + ">"}, "groups": []string{}, "bykey": []string{}}
				} else {
					ev["restart"] = view(m2)
				}
				w.Emit(ev)
			}
		}
	}
	return nil
}
