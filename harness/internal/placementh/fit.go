package placementh

import (
	"math/rand"
	"sort"

	"github.com/pingcap/kvproto/pkg/metapb"
	"github.com/tikv/pd/server/core"
	"github.com/tikv/pd/server/schedule/placement"

	"pdverif/internal/cli"
	"pdverif/internal/trace"
)

func init() {
	cli.Register("placement fit", fit)
}

type storeSet struct{ stores []*core.StoreInfo }

func (s storeSet) GetStores() []*core.StoreInfo { return s.stores }
func (s storeSet) GetStore(id uint64) *core.StoreInfo {
	for _, st := range s.stores {
		if st.GetID() == id {
			return st
		}
	}
	return nil
}

// fit: seeded cases for placement.FitRegion, each recorded with the real result.
func fit(args map[string]string) error {
	seed := int64(cli.Int(args, "seed", 1))
	n := cli.Int(args, "cases", 300)
	maxRules := cli.Int(args, "rules", 3)
	maxPeers := cli.Int(args, "peers", 5)
	w, err := trace.Create(args["out"])
	if err != nil {
		return err
	}
	defer w.Close()
	rng := rand.New(rand.NewSource(seed))
	w.Reset(trace.Ev{"beh": 0, "mode": "fit"})
	zones := []string{"z1", "z2", "z3"}
	hosts := []string{"h1", "h2", ""}
	disks := []string{"ssd", "hdd", ""}
	roles := []string{"voter", "voter", "leader", "follower", "learner"}
	ops := []string{"in", "notIn", "exists", "notExists"}
	for c := 0; c < n; c++ {
		ns := 3 + rng.Intn(4)
		var stores []*core.StoreInfo
		var jstores []trace.Ev
		for i := 1; i <= ns; i++ {
			var labels []*metapb.StoreLabel
			jl := [][]string{}
			add := func(k, v string) {
				if v != "" {
					labels = append(labels, &metapb.StoreLabel{Key: k, Value: v})
					jl = append(jl, []string{k, v})
				}
			}
			add("zone", zones[rng.Intn(3)])
			add("host", hosts[rng.Intn(3)])
			add("disk", disks[rng.Intn(3)])
			if rng.Intn(5) == 0 {
				add("engine", "tiflash")
			}
			// fitting looks at labels only: the state of a store (a peer may still sit on an offline or tombstone store) plays no part
			state := []metapb.StoreState{metapb.StoreState_Up, metapb.StoreState_Up, metapb.StoreState_Offline, metapb.StoreState_Tombstone}[rng.Intn(4)]
			stores = append(stores, core.NewStoreInfo(&metapb.Store{Id: uint64(i), Labels: labels, State: state}))
			jstores = append(jstores, trace.Ev{"id": i, "labels": jl})
		}
		np := 1 + rng.Intn(maxPeers)
		if np > ns {
			np = ns
		}
		perm := rng.Perm(ns)
		var peers []*metapb.Peer
		var jpeers []trace.Ev
		var voters []int
		for i := 0; i < np; i++ {
			p := &metapb.Peer{Id: uint64(10 + rng.Intn(80)), StoreId: uint64(perm[i] + 1)}
			for _, q := range peers {
				if q.Id == p.Id {
					p.Id += 100
				}
			}
			if rng.Intn(4) == 0 {
				p.Role = metapb.PeerRole_Learner
			} else {
				voters = append(voters, i)
			}
			peers = append(peers, p)
		}
		var leader *metapb.Peer
		if len(voters) > 0 && rng.Intn(8) != 0 {
			leader = peers[voters[rng.Intn(len(voters))]]
		}
		for _, p := range peers {
			jpeers = append(jpeers, trace.Ev{"id": int(p.Id), "store": int(p.StoreId), "learner": p.Role == metapb.PeerRole_Learner, "leader": leader != nil && leader.Id == p.Id})
		}
		// FitRegion works on peers sorted by id; the oracle does not depend on the order
		sort.Slice(jpeers, func(i, j int) bool { return jpeers[i]["id"].(int) < jpeers[j]["id"].(int) })
		nr := 1 + rng.Intn(maxRules)
		var rules []*placement.Rule
		var jrules []trace.Ev
		for i := 0; i < nr; i++ {
			r := &placement.Rule{GroupID: "g", ID: string(rune('a' + i)), Index: i, Role: placement.PeerRoleType(roles[rng.Intn(len(roles))]), Count: 1 + rng.Intn(3)}
			jc := []trace.Ev{}
			for k := 0; k < rng.Intn(3); k++ {
				key := []string{"zone", "disk", "engine", "host"}[rng.Intn(4)]
				op := ops[rng.Intn(4)]
				var vals []string
				switch key {
				case "zone":
					vals = []string{zones[rng.Intn(3)]}
					if rng.Intn(2) == 0 {
						vals = append(vals, zones[rng.Intn(3)])
					}
				case "disk":
					vals = []string{disks[rng.Intn(2)]}
				case "engine":
					vals = []string{"tiflash"}
				default:
					vals = []string{hosts[rng.Intn(2)]}
				}
				r.LabelConstraints = append(r.LabelConstraints, placement.LabelConstraint{Key: key, Op: placement.LabelConstraintOp(op), Values: vals})
				jc = append(jc, trace.Ev{"key": key, "op": op, "values": vals})
			}
			loc := [][]string{{}, {"zone"}, {"zone", "host"}, {"host"}}[rng.Intn(4)]
			r.LocationLabels = loc
			rules = append(rules, r)
			jrules = append(jrules, trace.Ev{"role": string(r.Role), "count": r.Count, "constraints": jc, "location": loc})
		}
		region := core.NewRegionInfo(&metapb.Region{Id: 1, Peers: peers}, leader)
		res := placement.FitRegion(storeSet{stores}, region, rules)
		ids := func(ps []*metapb.Peer) []int {
			out := []int{}
			for _, p := range ps {
				out = append(out, int(p.Id))
			}
			return out
		}
		var fits []trace.Ev
		for _, rf := range res.RuleFits {
			if rf == nil {
				fits = append(fits, trace.Ev{"peers": []int{}, "mismatch": []int{}, "iso": 0, "nil": true})
				continue
			}
			fits = append(fits, trace.Ev{"peers": ids(rf.Peers), "mismatch": ids(rf.PeersWithDifferentRole), "iso": int(rf.IsolationScore)})
		}
		w.Emit(trace.Ev{"ev": "case", "n": c, "case": trace.Ev{"stores": jstores, "peers": jpeers, "rules": jrules},
			"result": trace.Ev{"fits": fits, "orphans": ids(res.OrphanPeers), "satisfied": res.IsSatisfied()}})
	}
	return nil
}
