// Package schedh binds spec/schedule/Moves.tla to the region scatterer and the built-in schedulers.
package schedh

import (
	"context"
	"fmt"
	"math/rand"
	"sort"

	"github.com/pingcap/kvproto/pkg/metapb"
	"github.com/tikv/pd/pkg/mock/mockcluster"
	"github.com/tikv/pd/server/config"
	"github.com/tikv/pd/server/core"
	"github.com/tikv/pd/server/kv"
	"github.com/tikv/pd/server/schedule"
	"github.com/tikv/pd/server/schedule/hbstream"
	"github.com/tikv/pd/server/schedule/operator"
	"github.com/tikv/pd/server/schedule/opt"
	"github.com/tikv/pd/server/schedule/placement"
	"github.com/tikv/pd/server/schedulers"
	"github.com/tikv/pd/server/statistics"
	"github.com/tikv/pd/server/versioninfo"

	"pdverif/internal/checkerh"
	"pdverif/internal/cli"
	"pdverif/internal/operatorh"
	"pdverif/internal/trace"
)

func init() {
	cli.Register("sched scatter", scatter)
	cli.Register("sched schedulers", scheds)
}

type world struct {
	cl      *mockcluster.Cluster
	ids     []uint64
	regions []uint64
	rules   bool
	nextID  uint64
	reject  map[string]bool // host label values the administrator configured as reject-leader
}

func key(i int) []byte {
	if i <= 0 {
		return []byte("")
	}
	return []byte(fmt.Sprintf("k%03d", i))
}

// newWorld builds a cluster whose regions are fully replicated (schedulers and scatter skip the others).
func newWorld(ctx context.Context, rng *rand.Rand, nregions int) *world {
	w := &world{cl: mockcluster.NewCluster(ctx, config.NewTestOptions()), nextID: 5000}
	cl := w.cl
	if rng.Intn(2) == 0 {
		cl.DisableFeature(versioninfo.JointConsensus)
	}
	w.rules = rng.Intn(2) == 0
	loc := [][]string{{}, {"zone"}, {"zone", "host"}}[rng.Intn(3)]
	cl.SetMaxReplicas(3)
	cl.SetLocationLabels(loc)
	w.ids = checkerh.GenStores(rng, cl, w.rules)
	// reject-leader for no, one or two values of the host label (the store records carry the harness' own reading of it)
	w.reject = map[string]bool{}
	hosts := []string{"h1", "h2", "h3"}
	rng.Shuffle(3, func(i, j int) { hosts[i], hosts[j] = hosts[j], hosts[i] })
	for _, h := range hosts[:rng.Intn(3)] {
		cl.GetOpts().SetLabelProperty(opt.RejectLeader, "host", h)
		w.reject[h] = true
	}
	cl.SetEnablePlacementRules(w.rules)
	tiflash := false
	if w.rules {
		for _, s := range cl.GetStores() {
			if s.GetLabelValue("engine") == "tiflash" && s.IsUp() {
				tiflash = true
			}
		}
		if tiflash {
			_ = cl.GetRuleManager().SetRule(&placement.Rule{GroupID: "tiflash", ID: "learner", Role: placement.Learner, Count: 1,
				LabelConstraints: []placement.LabelConstraint{{Key: "engine", Op: placement.In, Values: []string{"tiflash"}}}})
		}
	}
	var good, flash []uint64
	for _, s := range cl.GetStores() {
		if s.IsTombstone() {
			continue
		}
		if s.GetLabelValue("engine") == "tiflash" {
			flash = append(flash, s.GetID())
		} else {
			good = append(good, s.GetID())
		}
	}
	sort.Slice(good, func(i, j int) bool { return good[i] < good[j] })
	sort.Slice(flash, func(i, j int) bool { return flash[i] < flash[j] })
	for r := 1; r <= nregions && len(good) >= 3; r++ {
		perm := rng.Perm(len(good))
		var peers []*metapb.Peer
		for i := 0; i < 3; i++ {
			w.nextID++
			peers = append(peers, &metapb.Peer{Id: w.nextID, StoreId: good[perm[i]]})
		}
		if tiflash && len(flash) > 0 {
			w.nextID++
			peers = append(peers, &metapb.Peer{Id: w.nextID, StoreId: flash[rng.Intn(len(flash))], Role: metapb.PeerRole_Learner})
		}
		leader := peers[rng.Intn(3)]
		end := key(r)
		if r == nregions {
			end = []byte("")
		}
		reg := core.NewRegionInfo(&metapb.Region{Id: uint64(r), StartKey: key(r - 1), EndKey: end, Peers: peers,
			RegionEpoch: &metapb.RegionEpoch{ConfVer: 5, Version: 5}}, leader, core.SetApproximateSize(int64(1+rng.Intn(90))), core.SetApproximateKeys(10))
		cl.PutRegion(reg)
		w.regions = append(w.regions, uint64(r))
	}
	return w
}

func (w *world) storeRecs() []trace.Ev {
	var out []trace.Ev
	for _, s := range w.cl.GetStores() {
		rec := checkerh.StoreRec(w.cl, s)
		rec["reject"] = w.reject[s.GetLabelValue("host")]
		rec["paused"] = !s.AllowLeaderTransfer()
		out = append(out, rec)
	}
	sort.Slice(out, func(i, j int) bool { return out[i]["id"].(int) < out[j]["id"].(int) })
	return out
}

func (w *world) record(tw *trace.W, n int, src string, op *operator.Operator, extra trace.Ev) bool {
	region := w.cl.GetRegion(op.RegionID())
	if region == nil {
		return false
	}
	steps := []trace.Ev{}
	other := false
	for i := 0; i < op.Len(); i++ {
		rec := operatorh.StepRec(op.Step(i))
		if rec["k"] == "Other" {
			other = true
		}
		steps = append(steps, rec)
	}
	if other { // merge / split: not a move of peers or leaders
		return false
	}
	ev := trace.Ev{"ev": "move", "n": n, "src": src, "desc": op.Desc(), "region": int(region.GetID()), "stores": w.storeRecs(),
		"origin": operatorh.PeersRec(region.GetPeers()), "leader": int(region.GetLeader().GetStoreId()), "steps": steps, "rules": w.rules}
	for k, v := range extra {
		ev[k] = v
	}
	tw.Emit(ev)
	return true
}

// apply lets the stores carry out the whole operator.
func (w *world) apply(op *operator.Operator) {
	region := w.cl.GetRegion(op.RegionID())
	for i := 0; i < op.Len(); i++ {
		region = operatorh.Apply(region, op.Step(i))
	}
	w.cl.PutRegion(region)
}

func scatter(args map[string]string) error {
	seed := int64(cli.Int(args, "seed", 1))
	n := cli.Int(args, "histories", 100)
	length := cli.Int(args, "len", 60)
	tw, err := trace.Create(args["out"])
	if err != nil {
		return err
	}
	defer tw.Close()
	tw.Reset(trace.Ev{"beh": 0, "mode": "scatter"})
	cnt, ops, errs := 0, 0, 0
	for h := 0; h < n; h++ {
		rng := rand.New(rand.NewSource(seed*7919 + int64(h)))
		ctx, cancel := context.WithCancel(context.Background())
		w := newWorld(ctx, rng, 4+rng.Intn(12))
		sc := schedule.NewRegionScatterer(ctx, w.cl)
		groups := []string{"", "g1", "g2"}
		for i := 0; i < length && len(w.regions) > 0; i++ {
			rid := w.regions[rng.Intn(len(w.regions))]
			g := groups[rng.Intn(len(groups))]
			if rng.Intn(3) != 0 {
				g = "g1" // most calls share a group: earlier decisions bias later ones
			}
			op, err := sc.Scatter(w.cl.GetRegion(rid), g)
			if err != nil {
				errs++
				continue
			}
			if op == nil {
				continue
			}
			cnt++
			if w.record(tw, cnt, "scatter", op, trace.Ev{"group": g, "history": h, "call": i}) {
				ops++
			}
			if rng.Intn(2) == 0 {
				w.apply(op)
			}
		}
		cancel()
	}
	tw.Emit(trace.Ev{"ev": "summary", "scatter": ops, "refused": errs})
	return nil
}

func scheds(args map[string]string) error {
	seed := int64(cli.Int(args, "seed", 1))
	n := cli.Int(args, "cases", 300)
	tw, err := trace.Create(args["out"])
	if err != nil {
		return err
	}
	defer tw.Close()
	tw.Reset(trace.Ev{"beh": 0, "mode": "schedulers"})
	counts := map[string]int{}
	cnt := 0
	for c := 0; c < n; c++ {
		rng := rand.New(rand.NewSource(seed*104729 + int64(c)))
		ctx, cancel := context.WithCancel(context.Background())
		w := newWorld(ctx, rng, 8+rng.Intn(20))
		if len(w.regions) == 0 {
			cancel()
			continue
		}
		// leader counts for balance-leader, write flow for the hot-region schedulers
		for _, s := range w.cl.GetStores() {
			w.cl.UpdateLeaderCount(s.GetID(), rng.Intn(40))
		}
		w.cl.SetHotRegionCacheHitsThreshold(0)
		written := map[uint64]uint64{}
		for _, rid := range w.regions {
			if rng.Intn(3) != 0 {
				continue
			}
			bytes := uint64(1+rng.Intn(8)) * 1024 * 1024 * 10
			r := w.cl.GetRegion(rid).Clone(core.SetWrittenBytes(bytes), core.SetWrittenKeys(bytes/100), core.SetReportInterval(10))
			for i := 0; i < w.cl.HotCache.GetFilledPeriod(statistics.WriteFlow); i++ {
				for _, item := range w.cl.CheckRegionWrite(r) {
					w.cl.HotCache.Update(item)
				}
			}
			w.cl.PutRegion(r)
			for _, p := range r.GetPeers() {
				written[p.StoreId] += bytes / 10
			}
		}
		for _, s := range w.cl.GetStores() {
			w.cl.UpdateStorageWrittenStats(s.GetID(), written[s.GetID()]*statistics.StoreHeartBeatReportInterval, written[s.GetID()]*statistics.StoreHeartBeatReportInterval/100)
		}
		hb := hbstream.NewTestHeartbeatStreams(ctx, w.cl.ID, w.cl, false)
		oc := schedule.NewOperatorController(ctx, w.cl, hb)
		up := []uint64{}
		for _, s := range w.cl.GetStores() { // the store an administrator would name for evict-leader / grant-leader
			if s.IsUp() && s.DownTime() < w.cl.GetOpts().GetMaxStoreDownTime() && !w.reject[s.GetLabelValue("host")] {
				up = append(up, s.GetID())
			}
		}
		if len(up) == 0 {
			cancel()
			continue
		}
		pick := fmt.Sprint(up[rng.Intn(len(up))])
		// half of the time another evict-leader / grant-leader scheduler is at work on another store: leader transfers to
		// that store are paused for everybody
		var bg uint64
		if len(up) > 1 && rng.Intn(2) == 0 {
			for bg == 0 || fmt.Sprint(bg) == pick {
				bg = up[rng.Intn(len(up))]
			}
			if err := w.cl.PauseLeaderTransfer(bg); err != nil {
				bg = 0
			}
		}
		specs := []struct {
			typ  string
			args []string
		}{
			{schedulers.BalanceRegionType, []string{"", ""}},
			{schedulers.BalanceLeaderType, []string{"", ""}},
			{schedulers.ShuffleRegionType, []string{"", ""}},
			{schedulers.ShuffleLeaderType, []string{"", ""}},
			{schedulers.LabelType, []string{"", ""}},
			{schedulers.EvictLeaderType, []string{pick}},
			{schedulers.GrantLeaderType, []string{pick}},
			{schedulers.ScatterRangeType, []string{"", "", "all"}},
			{schedulers.HotRegionType, nil},
			{schedulers.ShuffleHotRegionType, []string{"", ""}},
		}
		for _, sp := range specs {
			var s schedule.Scheduler
			var err error
			if sp.args == nil {
				s, err = schedule.CreateScheduler(sp.typ, oc, core.NewStorage(kv.NewMemoryKV()), schedule.ConfigJSONDecoder([]byte("null")))
			} else {
				s, err = schedule.CreateScheduler(sp.typ, oc, core.NewStorage(kv.NewMemoryKV()), schedule.ConfigSliceDecoder(sp.typ, sp.args))
			}
			if err != nil {
				counts["create-failed-"+sp.typ]++
				continue
			}
			if err := s.Prepare(w.cl); err != nil {
				counts["prepare-failed-"+sp.typ]++
				continue
			}
			for k := 0; k < 6; k++ {
				for _, op := range s.Schedule(w.cl) {
					cnt++
					if w.record(tw, cnt, sp.typ, op, trace.Ev{"case": c}) {
						counts[sp.typ]++
					}
				}
			}
			s.Cleanup(w.cl)
		}
		if bg != 0 {
			w.cl.ResumeLeaderTransfer(bg)
		}
		cancel()
	}
	sum := trace.Ev{"ev": "summary"}
	for k, v := range counts {
		sum[k] = v
	}
	tw.Emit(sum)
	return nil
}
