// Package clusterh binds spec/cluster/StoreLifecycle.tla to a real in-process server (gRPC handlers + RaftCluster).
package clusterh

import (
	"context"
	"fmt"
	"math/rand"
	"time"

	"github.com/pingcap/kvproto/pkg/metapb"
	"github.com/pingcap/kvproto/pkg/pdpb"
	"github.com/tikv/pd/server/cluster"
	"github.com/tikv/pd/server/core"

	"pdverif/internal/cli"
	"pdverif/internal/pdserver"
	"pdverif/internal/trace"
)

func init() {
	cli.Register("cluster stores", stores)
}

func stores(args map[string]string) error {
	var behs [][]cli.Step
	if args["in"] != "" {
		if err := cli.ReadJSON(args["in"], &behs); err != nil {
			return err
		}
	} else {
		behs = randomBehaviours(int64(cli.Int(args, "seed", 1)), cli.Int(args, "histories", 60), cli.Int(args, "ops", 60))
	}
	maxReload := cli.Int(args, "reloads", 12)
	w, err := trace.Create(args["out"])
	if err != nil {
		return err
	}
	defer w.Close()
	// the background jobs (checkStores) run only when the schedule says so
	cluster.VerifSetBackgroundJobInterval(time.Hour)
	pd, err := pdserver.Start(nil, true)
	if err != nil {
		return err
	}
	defer pd.Close()
	if err := pd.Bootstrap(); err != nil {
		return err
	}
	ctx := context.Background()
	reloads := 0
	for bi, beh := range behs {
		base := uint64(1000 * (bi + 1))
		sid := func(i int) uint64 { return base + uint64(i) }
		addr := func(a string) string { return fmt.Sprintf("mock://b%d/%s", bi, a) }
		nstores := 4
		stateOf := func(s *core.StoreInfo) []interface{} {
			return []interface{}{int(s.GetID() - base), s.GetState().String(), s.IsPhysicallyDestroyed(), s.GetAddress()[len(addr("")):],
				int(s.GetLeaderWeight()), int(s.GetRegionWeight())}
		}
		observe := func(ev trace.Ev) error {
			rc := pd.S.GetRaftCluster()
			if rc == nil {
				return fmt.Errorf("no raft cluster")
			}
			served, peers := [][]interface{}{}, []int{}
			for i := 1; i <= nstores; i++ {
				if s := rc.GetStore(sid(i)); s != nil {
					served = append(served, stateOf(s))
				}
				// counted from the served regions themselves (any role), not from the per-store counters the burial job uses
				cnt := 0
				for _, r := range rc.GetRegions() {
					if r.GetStorePeer(sid(i)) != nil {
						cnt++
					}
				}
				peers = append(peers, cnt)
			}
			bc := core.NewBasicCluster()
			if err := pd.S.GetStorage().LoadStores(bc.PutStore); err != nil {
				return err
			}
			stored := [][]interface{}{}
			for i := 1; i <= nstores; i++ {
				if s := bc.GetStore(sid(i)); s != nil {
					stored = append(stored, stateOf(s))
				}
			}
			ev["served"], ev["stored"], ev["peers"] = served, stored, peers
			return nil
		}
		ev0 := trace.Ev{"beh": bi, "mode": "stores"}
		if err := observe(ev0); err != nil {
			return err
		}
		w.Reset(ev0)
		regionVer := map[int]int{}
		learner := map[int]bool{}
		keepRole := false // the next heartbeat reports the peer with the role it had (a move between stores)
		heartbeat := func(i int, on uint64, n int) error {
			// region n of store i lives on store `on`
			regionVer[i*10+n]++
			id := base + uint64(100+i*10+n)
			meta := &metapb.Region{Id: id, StartKey: []byte(fmt.Sprintf("b%05d-s%d-%d", bi, i, n)), EndKey: []byte(fmt.Sprintf("b%05d-s%d-%d~", bi, i, n)),
				RegionEpoch: &metapb.RegionEpoch{Version: 1, ConfVer: uint64(regionVer[i*10+n])},
				Peers:       []*metapb.Peer{{Id: id*10 + 1, StoreId: on}}}
			if !keepRole {
				learner[i*10+n] = (i+n+regionVer[i*10+n])%3 == 0
			}
			keepRole = false
			if learner[i*10+n] {
				// the peer on the store is a learner; the leader is a voter on the bootstrap store (store 1, outside the model)
				meta.Peers = []*metapb.Peer{{Id: id*10 + 2, StoreId: 1}, {Id: id*10 + 1, StoreId: on, Role: metapb.PeerRole_Learner}}
			}
			r := core.RegionFromHeartbeat(&pdpb.RegionHeartbeatRequest{Region: meta, Leader: meta.Peers[0], Term: 1})
			return pd.S.GetRaftCluster().VerifProcessRegionHeartbeat(r)
		}
		npeers := map[int]int{}     // regions ever created for a store
		spare := map[int][][2]int{}
		held := map[int][][2]int{} // the regions (home store, number) whose peer lives on a store now
		retired := map[int]bool{} // ids of removed tombstones are never used again (store ids are allocated by PD)
		wasTomb := map[int]bool{}
		for si, st := range beh {
			if si == 0 {
				continue
			}
			rc := pd.S.GetRaftCluster()
			ev := trace.Ev{"ev": st.Action, "beh": bi, "step": si, "id": 0, "res": "ok", "fail": 0}
			id := st.Num(0)
			ev["id"] = id
			arm := func(k int) {
				pd.KV.Arm(k, false)
				ev["fail"] = k
			}
			bool1 := func(i int) bool { return len(st.Args) > i && st.Args[i] == true }
			var opErr error
			switch st.Action {
			case "PutStore":
				if retired[id] {
					continue
				}
				a := st.Str(1)
				ev["addr"] = a
				if bool1(2) {
					arm(1)
				}
				r, err := pd.S.PutStore(ctx, &pdpb.PutStoreRequest{Header: pd.Header(), Store: &metapb.Store{Id: sid(id), Address: addr(a), Version: "5.0.0"}})
				if err != nil {
					opErr = err
				} else if r.GetHeader().GetError() != nil {
					ev["res"] = "refused"
				}
			case "RemoveStore":
				ev["destroyed"] = bool1(1)
				if bool1(2) {
					arm(1)
				}
				opErr = rc.RemoveStore(sid(id), bool1(1))
			case "UpStore":
				if bool1(1) {
					arm(1)
				}
				opErr = rc.UpStore(sid(id))
			case "CheckStores":
				// the background job: buries every empty offline store
				rc.VerifCheckStores()
			case "SetWeight":
				ev["lw"], ev["rw"] = st.Num(1), st.Num(2)
				if k := st.Num(3); k > 0 {
					arm(k)
				}
				opErr = rc.SetStoreWeight(sid(id), float64(st.Num(1)), float64(st.Num(2)))
			case "RemoveTombstones":
				opErr = rc.RemoveTombStoneRecords()
			case "PlacePeer":
				x := [2]int{id, 0}
				if k := len(spare[id]); k > 0 { // a region of this store that went to the bootstrap store comes back
					x, spare[id] = spare[id][k-1], spare[id][:k-1]
				} else {
					npeers[id]++
					x[1] = npeers[id]
				}
				held[id] = append(held[id], x)
				opErr = heartbeat(x[0], sid(id), x[1])
			case "DropPeer":
				if k := len(held[id]); k > 0 {
					x := held[id][k-1]
					held[id] = held[id][:k-1]
					spare[x[0]] = append(spare[x[0]], x)
					opErr = heartbeat(x[0], 1, x[1]) // the peer moves to the bootstrap store
				}
			case "MovePeer":
				// the newest region of store id moves to store `to`, the peer keeps its role (voter or learner)
				to := st.Num(1)
				ev["to"] = to
				if k := len(held[id]); k > 0 && to != id {
					x := held[id][k-1]
					held[id] = held[id][:k-1]
					held[to] = append(held[to], x)
					keepRole = true
					opErr = heartbeat(x[0], sid(to), x[1])
				}
			case "Heartbeat":
				r, err := pd.S.StoreHeartbeat(ctx, &pdpb.StoreHeartbeatRequest{Header: pd.Header(), Stats: &pdpb.StoreStats{StoreId: sid(id), Capacity: 100, Available: 90}})
				if err != nil {
					opErr = err
				} else if r.GetHeader().GetError() != nil {
					ev["res"] = "refused"
				}
			case "Reload":
				if reloads >= maxReload {
					ev["ev"] = "skip"
					break
				}
				reloads++
				pd.S.GetStorage().Flush()
				pd.S.GetMember().ResetLeader()
				time.Sleep(300 * time.Millisecond)
				if err := pd.WaitLeader(30 * time.Second); err != nil {
					return err
				}
				dl := time.Now().Add(20 * time.Second)
				for pd.S.GetRaftCluster() == nil && time.Now().Before(dl) {
					time.Sleep(20 * time.Millisecond)
				}
			}
			injected := pd.KV.Writes()
			pd.KV.Arm(0, false)
			ev["writes"] = injected
			if opErr != nil {
				ev["res"] = "err"
			}
			// every store heartbeat / re-registration of a tombstone must be refused: probe after each step
			probes := [][]interface{}{}
			if rc2 := pd.S.GetRaftCluster(); rc2 != nil {
				for i := 1; i <= nstores; i++ {
					if s := rc2.GetStore(sid(i)); s != nil && s.IsTombstone() {
						r, err := pd.S.StoreHeartbeat(ctx, &pdpb.StoreHeartbeatRequest{Header: pd.Header(), Stats: &pdpb.StoreStats{StoreId: sid(i), Capacity: 100, Available: 90}})
						hb := err != nil || r.GetHeader().GetError() != nil
						r2, err2 := pd.S.PutStore(ctx, &pdpb.PutStoreRequest{Header: pd.Header(), Store: &metapb.Store{Id: sid(i), Address: s.GetAddress(), Version: "5.0.0"}})
						ps := err2 != nil || r2.GetHeader().GetError() != nil
						probes = append(probes, []interface{}{i, hb, ps})
					}
				}
			}
			ev["tombstone_probes"] = probes
			if err := observe(ev); err != nil {
				return err
			}
			w.Emit(ev)
			if rc3 := pd.S.GetRaftCluster(); rc3 != nil {
				for i := 1; i <= nstores; i++ {
					s := rc3.GetStore(sid(i))
					if s != nil && s.IsTombstone() {
						wasTomb[i] = true
					}
					if s == nil && wasTomb[i] {
						retired[i] = true
					}
				}
			}
			if ev["ev"] == "skip" {
				break // the rest of the behaviour depends on the reload
			}
		}
		// forget this behaviour's stores (keeps the per-step load from storage small)
		for i := 1; i <= nstores; i++ {
			if s := pd.S.GetRaftCluster().GetStore(sid(i)); s != nil {
				pd.S.GetStorage().DeleteStore(s.GetMeta())
				pd.S.GetBasicCluster().DeleteStore(s)
			}
		}
	}
	return nil
}

// randomBehaviours draws command histories directly (no state prediction; the monitor decides): longer and more
// biased towards the lifecycle than TLC's uniform simulation.
func randomBehaviours(seed int64, n, ops int) [][]cli.Step {
	rng := rand.New(rand.NewSource(seed))
	addrs := []string{"a1", "a2", "a3"}
	var out [][]cli.Step
	for h := 0; h < n; h++ {
		beh := []cli.Step{{Action: "Init"}}
		for k := 0; k < ops; k++ {
			id := float64(1 + rng.Intn(4))
			fail := rng.Intn(10) == 0
			var st cli.Step
			switch r := rng.Intn(100); {
			case r < 16:
				st = cli.Step{Action: "PutStore", Args: []interface{}{id, addrs[rng.Intn(3)], fail}}
			case r < 32:
				st = cli.Step{Action: "PlacePeer", Args: []interface{}{id}}
			case r < 34:
				st = cli.Step{Action: "DropPeer", Args: []interface{}{id}}
			case r < 40:
				st = cli.Step{Action: "MovePeer", Args: []interface{}{id, float64(1 + rng.Intn(4))}}
			case r < 54:
				st = cli.Step{Action: "RemoveStore", Args: []interface{}{id, rng.Intn(4) == 0, fail}}
			case r < 62:
				st = cli.Step{Action: "UpStore", Args: []interface{}{id, fail}}
			case r < 74:
				st = cli.Step{Action: "CheckStores"}
			case r < 84:
				st = cli.Step{Action: "Reload"}
			case r < 94:
				k := 0.0
				if fail {
					k = float64(1 + rng.Intn(3))
				}
				st = cli.Step{Action: "SetWeight", Args: []interface{}{id, float64(1 + rng.Intn(3)), float64(1 + rng.Intn(3)), k}}
			default:
				st = cli.Step{Action: "RemoveTombstones"}
			}
			beh = append(beh, st)
		}
		out = append(out, beh)
	}
	return out
}
