package clusterh

import (
	"context"
	"fmt"
	"math/rand"
	"time"

	"github.com/pingcap/kvproto/pkg/metapb"
	"github.com/pingcap/kvproto/pkg/pdpb"
	"github.com/tikv/pd/server/cluster"
	"github.com/tikv/pd/server/config"
	"github.com/tikv/pd/server/versioninfo"

	"pdverif/internal/cli"
	"pdverif/internal/pdserver"
	"pdverif/internal/trace"
)

func init() {
	cli.Register("cluster version", version)
}

func verTuple(s string) []int {
	v := versioninfo.MustParseVersion(s)
	return []int{int(v.Major), int(v.Minor), int(v.Patch)}
}

// version drives histories of store registrations with versions, removals, burials and administrator overrides on a
// real server and records the cluster version, its persisted copy and the feature answers after every step.
func version(args map[string]string) error {
	seed := int64(cli.Int(args, "seed", 1))
	n := cli.Int(args, "histories", 30)
	length := cli.Int(args, "ops", 30)
	w, err := trace.Create(args["out"])
	if err != nil {
		return err
	}
	defer w.Close()
	cluster.VerifSetBackgroundJobInterval(time.Hour)
	versions := []string{"4.0.0", "4.0.9", "5.0.0", "5.0.2", "5.1.0"}
	features := map[string]versioninfo.Feature{"4.0.0": versioninfo.Version4_0, "5.0.0": versioninfo.JointConsensus}
	ctx := context.Background()
	for h := 0; h < n; h++ {
		rng := rand.New(rand.NewSource(seed*7907 + int64(h)))
		pd, err := pdserver.Start(nil, false)
		if err != nil {
			return err
		}
		if err := pd.Bootstrap(); err != nil {
			pd.Close()
			return err
		}
		rc := pd.S.GetRaftCluster()
		const nstores = 4
		sid := func(i int) uint64 { return uint64(100 + i) }
		observe := func(ev trace.Ev) {
			cv := pd.S.GetClusterVersion()
			ev["cv"] = []int{int(cv.Major), int(cv.Minor), int(cv.Patch)}
			cfg := config.NewConfig()
			persisted := []int{0, 0, 0}
			if ok, err := pd.S.GetStorage().LoadConfig(cfg); err == nil && ok {
				persisted = []int{int(cfg.ClusterVersion.Major), int(cfg.ClusterVersion.Minor), int(cfg.ClusterVersion.Patch)}
			}
			ev["persisted"] = persisted
			stores := []trace.Ev{}
			for _, s := range rc.GetStores() {
				id := int(s.GetID()) - 100
				if id < 0 {
					id = 0 // the bootstrap store: re-registered below with the highest version, never touched again
				}
				stores = append(stores, trace.Ev{"id": id, "state": s.GetState().String(), "ver": verTuple(s.GetVersion())})
			}
			ev["stores"] = stores
			sup := []trace.Ev{}
			for v, f := range features {
				sup = append(sup, trace.Ev{"f": verTuple(v), "supported": rc.IsFeatureSupported(f)})
			}
			ev["features"] = sup
			w.Emit(ev)
		}
		// the bootstrap store must not hold the minimum
		boot := rc.GetStore(1)
		if r, err := pd.S.PutStore(ctx, &pdpb.PutStoreRequest{Header: pd.Header(), Store: &metapb.Store{Id: 1, Address: boot.GetAddress(), Version: "5.1.0"}}); err != nil || r.GetHeader().GetError() != nil {
			pd.Close()
			return fmt.Errorf("re-registering the bootstrap store: %v %v", err, r.GetHeader().GetError())
		}
		if err := pd.S.SetClusterVersion("4.0.0"); err != nil {
			pd.Close()
			return err
		}
		w.Reset(trace.Ev{"beh": h})
		observe(trace.Ev{"ev": "Init"})
		for i := 0; i < length; i++ {
			s := 1 + rng.Intn(nstores)
			switch k := rng.Intn(10); {
			case k < 5:
				v := versions[rng.Intn(len(versions))]
				before := pd.S.GetClusterVersion()
				r, err := pd.S.PutStore(ctx, &pdpb.PutStoreRequest{Header: pd.Header(), Store: &metapb.Store{Id: sid(s), Address: fmt.Sprintf("mock://v%d/%d", h, s), Version: v}})
				res := "ok"
				if err != nil || r.GetHeader().GetError() != nil {
					res = "refused"
				}
				observe(trace.Ev{"ev": "PutStore", "s": s, "v": verTuple(v), "res": res, "cv_before": []int{int(before.Major), int(before.Minor), int(before.Patch)}})
			case k < 7:
				res := "ok"
				if err := rc.RemoveStore(sid(s), rng.Intn(3) == 0); err != nil {
					res = "refused"
				}
				observe(trace.Ev{"ev": "Remove", "s": s, "res": res})
			case k < 9:
				rc.VerifCheckStores()
				observe(trace.Ev{"ev": "Bury"})
			default:
				v := versions[rng.Intn(len(versions))]
				res := "ok"
				if err := pd.S.SetClusterVersion(v); err != nil {
					res = "refused"
				}
				observe(trace.Ev{"ev": "AdminSet", "v": verTuple(v), "res": res})
			}
		}
		pd.Close()
	}
	return nil
}
