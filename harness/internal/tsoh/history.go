package tsoh

import (
	"math/rand"
	"sync"
	"time"

	"github.com/tikv/pd/pkg/tsoutil"
	"github.com/tikv/pd/server/tso"

	"pdverif/internal/cli"
	"pdverif/internal/pdserver"
	"pdverif/internal/trace"
)

func init() {
	cli.Register("tso history", history)
}

// history: a real in-process server (its own allocator daemon, leader loop, real clock); many goroutines
// request timestamps concurrently while an admin goroutine resets the timestamp forward (accepted and
// rejected targets) and makes the leader resign (it re-campaigns by itself).
func history(args map[string]string) error {
	seed := int64(cli.Int(args, "seed", 1))
	rounds := cli.Int(args, "rounds", 2)
	gor := cli.Int(args, "goroutines", 8)
	per := cli.Int(args, "calls", 150)
	w, err := trace.Create(args["out"])
	if err != nil {
		return err
	}
	defer w.Close()
	pd, err := pdserver.Start(nil, false)
	if err != nil {
		return err
	}
	defer pd.Close()
	rng := rand.New(rand.NewSource(seed))
	am := pd.S.GetTSOAllocatorManager()
	first, err := am.HandleTSORequest(tso.GlobalDCLocation, 1)
	if err != nil {
		return err
	}
	base := first.Physical - 1000
	for r := 0; r < rounds; r++ {
		w.Reset(trace.Ev{"beh": r, "mode": "history"})
		stop := make(chan struct{})
		var wg, adm sync.WaitGroup
		for g := 0; g < gor; g++ {
			wg.Add(1)
			go func(g int, sd int64) {
				defer wg.Done()
				lr := rand.New(rand.NewSource(sd))
				counts := []uint32{1, 1, 2, 10, 1000, 65536, 131072, 200000}
				for k := 0; k < per; k++ {
					cnt := counts[lr.Intn(len(counts))]
					s := w.Seq()
					ts, err := am.HandleTSORequest(tso.GlobalDCLocation, cnt)
					e := w.Seq()
					ev := trace.Ev{"ev": "ts", "g": g, "s": s, "e": e, "err": err != nil, "phys": 0, "lo": 0, "hi": 0}
					if err == nil {
						ev["phys"], ev["lo"], ev["hi"] = int(ts.Physical-base), int(ts.Logical)-int(cnt)+1, int(ts.Logical)
					} else {
						time.Sleep(20 * time.Millisecond)
					}
					w.Emit(ev)
					if lr.Intn(6) == 0 {
						time.Sleep(time.Duration(lr.Intn(3)) * time.Millisecond)
					}
				}
			}(g, rng.Int63())
		}
		adm.Add(1)
		go func(sd int64) {
			defer adm.Done()
			lr := rand.New(rand.NewSource(sd))
			for {
				select {
				case <-stop:
					return
				case <-time.After(time.Duration(20+lr.Intn(120)) * time.Millisecond):
				}
				switch lr.Intn(5) {
				case 0:
					// resign: the leader loop steps down and campaigns again
					pd.S.GetMember().ResetLeader()
					w.Emit(trace.Ev{"ev": "resign"})
				default:
					a, err := am.GetAllocator(tso.GlobalDCLocation)
					if err != nil {
						continue
					}
					cur, err := am.HandleTSORequest(tso.GlobalDCLocation, 1)
					if err != nil {
						continue
					}
					d := []int64{-500, 0, 50, 400, 2500}[lr.Intn(5)]
					err = a.SetTSO(tsoutil.ComposeTS(cur.Physical+d, int64(lr.Intn(100))))
					w.Emit(trace.Ev{"ev": "settso", "d": d, "err": err != nil})
				}
			}
		}(rng.Int63())
		wg.Wait()
		close(stop)
		adm.Wait()
		if err := pd.WaitLeader(20 * time.Second); err != nil {
			return err
		}
	}
	return nil
}
