package tsoh

import (
	"context"
	"fmt"
	"math/rand"
	"strconv"
	"strings"
	"time"

	"github.com/tikv/pd/server/config"
	"github.com/tikv/pd/server/member"
	"github.com/tikv/pd/server/tso"
	"go.etcd.io/etcd/clientv3"

	"pdverif/internal/cli"
	"pdverif/internal/etcdgate"
	"pdverif/internal/gate"
	"pdverif/internal/trace"
)

func init() {
	cli.Register("tso suffix", suffixRun)
}

// suffixRun: the datacenter suffix assignment (ClusterDCLocationChecker -> getOrCreateLocalTSOSuffix) of an old and a
// new PD leader, their etcd transactions interleaved by the gate: the old leader's transaction is still in flight when
// the leadership changes hands (lease resigned, new campaign).
func suffixRun(args map[string]string) error {
	seed := int64(cli.Int(args, "seed", 1))
	rounds := cli.Int(args, "rounds", 12)
	w, err := trace.Create(args["out"])
	if err != nil {
		return err
	}
	defer w.Close()
	e, err := etcdgate.Start()
	if err != nil {
		return err
	}
	defer e.Stop()
	plain, err := e.Client()
	if err != nil {
		return err
	}
	defer plain.Close()
	rng := rand.New(rand.NewSource(seed))
	ctx := context.Background()
	for r := 0; r < rounds; r++ {
		root := fmt.Sprintf("/vf/suffix/%d/%d", seed, r)
		sched := gate.New()
		type mem struct {
			name string
			m    *member.Member
			am   *tso.AllocatorManager
			cli  *clientv3.Client
		}
		mk := func(name string, id uint64) (*mem, error) {
			c, _, err := e.GatedClient(sched)
			if err != nil {
				return nil, err
			}
			cfg := config.NewConfig()
			cfg.AdvertiseClientUrls, cfg.AdvertisePeerUrls = "http://"+name, "http://"+name+"-peer"
			m := member.NewMember(nil, c, id)
			m.MemberInfo(cfg, name, root)
			am := tso.NewAllocatorManager(m, root, cfg, func() time.Duration { return time.Hour })
			return &mem{name, m, am, c}, nil
		}
		m1, err := mk("m1", 1)
		if err != nil {
			return err
		}
		m2, err := mk("m2", 2)
		if err != nil {
			return err
		}
		// three servers have registered their datacenters
		ndc := 3 + rng.Intn(2)
		for i := 1; i <= ndc; i++ {
			plain.Put(ctx, m1.m.GetDCLocationPath(uint64(10+i)), fmt.Sprintf("dc-%d", i))
		}
		table := func() map[string]int {
			out := map[string]int{}
			resp, err := plain.Get(ctx, m1.am.GetLocalTSOSuffixPathPrefix()+"/", clientv3.WithPrefix())
			if err != nil {
				return out
			}
			for _, kv := range resp.Kvs {
				parts := strings.Split(string(kv.Key), "/")
				v, _ := strconv.Atoi(string(kv.Value))
				out[parts[len(parts)-1]] = v
			}
			return out
		}
		w.Reset(trace.Ev{"beh": r, "mode": "suffix", "table": table()})
		emit := func(what, who, key string) {
			w.Emit(trace.Ev{"ev": what, "beh": r, "m": who, "key": key, "table": table()})
		}
		campaign := func(x *mem) error {
			p := sched.Go(x.name+"/campaign", func() (interface{}, error) { return nil, x.m.CampaignLeader(60) })
			if err := p.Finish(wait); err != nil {
				return err
			}
			if p.Err != nil {
				return p.Err
			}
			x.m.EnableLeader()
			return nil
		}
		if err := campaign(m1); err != nil {
			return err
		}
		emit("Campaign", "m1", "")
		// the old leader's checker: parked at its first suffix transaction
		c1 := sched.Go("m1/checker", func() (interface{}, error) { m1.am.ClusterDCLocationChecker(); return nil, nil })
		pt, done, err := c1.Next(wait)
		if err != nil {
			return err
		}
		k1 := ""
		if !done {
			k1 = pt.Key[strings.LastIndex(pt.Key, "/")+1:]
		}
		emit("CheckerParked", "m1", k1)
		// a few of the old leader's transactions may still complete before the change
		for rng.Intn(3) == 0 && !done {
			pt, done, err = c1.Step(gate.Proceed, wait)
			if err != nil {
				return err
			}
			if !done {
				k1 = pt.Key[strings.LastIndex(pt.Key, "/")+1:]
			}
			emit("OldLeaderTxn", "m1", k1)
		}
		// leadership changes hands
		m1.m.ResetLeader()
		emit("Resign", "m1", "")
		if err := campaign(m2); err != nil {
			return err
		}
		emit("Campaign", "m2", "")
		c2 := sched.Go("m2/checker", func() (interface{}, error) { m2.am.ClusterDCLocationChecker(); return nil, nil })
		_, done2, err := c2.Next(wait)
		if err != nil {
			return err
		}
		// interleave: the new leader's transactions and the old leader's late one(s)
		for !done || !done2 {
			if !done && (done2 || rng.Intn(2) == 0) {
				_, done, err = c1.Step(gate.Proceed, wait)
				if err != nil {
					return err
				}
				emit("StaleTxnOfOldLeader", "m1", k1)
			} else {
				_, done2, err = c2.Step(gate.Proceed, wait)
				if err != nil {
					return err
				}
				emit("NewLeaderTxn", "m2", "")
			}
		}
		// a second pass of the new leader (the daemon runs the checker periodically)
		c3 := sched.Go("m2/checker2", func() (interface{}, error) { m2.am.ClusterDCLocationChecker(); return nil, nil })
		if err := c3.Finish(wait); err != nil {
			return err
		}
		emit("NewLeaderSecondPass", "m2", "")
		m2.m.ResetLeader()
		m1.cli.Close()
		m2.cli.Close()
	}
	return nil
}
