package tsoh

import (
	"context"
	"fmt"
	"math/rand"
	"time"

	"github.com/tikv/pd/pkg/tsoutil"
	"github.com/tikv/pd/server/tso"
	"go.etcd.io/etcd/clientv3"

	"pdverif/internal/cli"
	"pdverif/internal/etcdgate"
	"pdverif/internal/gate"
	"pdverif/internal/trace"
)

func init() {
	cli.Register("tso random", random)
}

// random: seeded random histories of the operations of TSO.tla, executed on the real objects whatever state
// they are in (no prediction of the system's state); the monitor decides. known=0 avoids exactly the
// interleavings of the open findings (the same three guards as ExcludeRace/ExcludeLost/ExcludeStale).
func random(args map[string]string) error {
	seed := int64(cli.Int(args, "seed", 1))
	nh := cli.Int(args, "histories", 50)
	nops := cli.Int(args, "ops", 150)
	allowKnown := cli.Int(args, "known", 0) == 1
	tw, err := trace.Create(args["out"])
	if err != nil {
		return err
	}
	defer tw.Close()
	e, err := etcdgate.Start()
	if err != nil {
		return err
	}
	defer e.Stop()
	plain, err := e.Client()
	if err != nil {
		return err
	}
	defer plain.Close()
	w := &world{etcd: e, plain: plain, sched: gate.New(), clock: map[*clientv3.Client]int{},
		base: time.Now().Truncate(time.Second).Add(-time.Hour), save: 3, gap: 12}
	tso.VerifNow = w.now
	if allowKnown {
		w.residue = 400 * time.Microsecond
	}
	rng := rand.New(rand.NewSource(seed))
	counts := []int{1, 1, 2, 7, 100, 131071, 131072, 131073, 262143}
	outcome := func() string {
		switch r := rng.Intn(20); {
		case r < 17:
			return "ok"
		case r < 18 && allowKnown:
			return "lost"
		default:
			return "err"
		}
	}
	for h := 0; h < nh; h++ {
		w.root = fmt.Sprintf("/vf/tsornd/%d/%d", seed, h)
		w.nodes = map[string]*node{}
		serving := map[string]bool{}
		for i, name := range members {
			n, err := w.newNode(name, uint64(i+1), 1+rng.Intn(3))
			if err != nil {
				return err
			}
			w.nodes[name] = n
		}
		ev0 := trace.Ev{"beh": h, "mode": "random"}
		w.observe(ev0)
		tw.Reset(ev0)
		// a short script that follows a reset racing with a parked update: request, let the update finish, request again -
		// all on the same member and before the clock moves
		var script []int
		scriptM := ""
		for k := 0; k < nops; k++ {
			m := members[rng.Intn(len(members))]
			r := rng.Intn(100)
			if len(script) > 0 {
				m, r, script = scriptM, script[0], script[1:]
			}
			n := w.nodes[m]
			ev := trace.Ev{"beh": h, "step": k + 1, "m": m, "res": "ok", "grant": []int{}}
			p, lg, _ := tso.VerifTSO(n.alloc)
			phys := w.rel(p)
			lease := n.mem.GetLeadership().Check()
			switch {
			case r < 38: // Gen
				if !lease || phys == 0 {
					continue
				}
				cnt := counts[rng.Intn(len(counts))]
				ev["ev"], ev["count"] = "Gen", cnt
				ts, err := n.am.HandleTSORequest(tso.GlobalDCLocation, uint32(cnt))
				if err != nil {
					ev["res"] = "err"
				} else {
					ev["grant"] = []int{int(ts.Physical - w.base.UnixNano()/1e6), int(ts.Logical) - cnt + 1, int(ts.Logical)}
				}
			case r < 52: // clock
				d := []int{1, 1, 1, 2, 4}[rng.Intn(5)]
				if rng.Intn(12) == 0 {
					d = []int{-9, -4, 8, 15}[rng.Intn(4)]
					ev["ev"] = "Jump"
				} else {
					ev["ev"] = "Tick"
				}
				c := w.getClock(n) + d
				if c < 1 {
					c = 1
				}
				ev["d"] = d
				w.setClock(n, c)
			case r < 70: // updater round
				if n.upd == nil && (!lease || phys == 0) && rng.Intn(10) != 0 {
					continue
				}
				if n.upd != nil {
					ev["ev"], ev["o"] = "UpdSave", outcome()
					if err := n.upd.Finish2(decision(ev["o"].(string)), wait); err != nil {
						return err
					}
					n.upd = nil
				} else {
					ev["ev"] = "UpdRead"
					am := n.am
					n.upd = gate.NewProc(m + "/upd")
					w.sched.Start(n.upd, func() (interface{}, error) { am.VerifAllocatorUpdater(); return nil, nil })
					_, done, err := n.upd.Next(wait)
					if err != nil {
						return err
					}
					if done {
						n.upd = nil
						ev["res"] = "nosave"
					} else {
						ev["res"] = "parked"
					}
				}
			case r < 80: // admin reset
				if !allowKnown && n.upd != nil {
					continue
				}
				if !lease {
					continue
				}
				delta := []int{-3, 0, 0, 1, 2, 3, 5, 8, 11, 13, 40}[rng.Intn(11)]
				tp := phys + delta
				if n.upd != nil && rng.Intn(2) == 0 {
					// a reset racing with a parked update lands in the very millisecond the update read from the clock
					tp = w.getClock(n)
					script, scriptM = []int{0, 60, 0}, m // Gen, UpdSave, Gen
				}
				tl := []int{0, 5, int(lg) + 1}[rng.Intn(3)]
				o := outcome()
				ev["ev"], ev["p"], ev["l"], ev["o"] = "ResetUser", tp, tl, o
				a := n.alloc
				target := tsoutil.ComposeTS(w.base.UnixNano()/1e6+int64(tp), int64(tl))
				// every other reset takes the path of a maximum written by a global request (ignoreSmaller)
				maxts := rng.Intn(2) == 1
				if maxts {
					ev["via"] = "maxts"
				}
				pr := w.sched.Go(m+"/reset", func() (interface{}, error) {
					if maxts {
						return nil, tso.VerifWriteMaxTS(a, target)
					}
					return nil, a.SetTSO(target)
				})
				_, done, err := pr.Next(wait)
				if err != nil {
					return err
				}
				if !done {
					if err := pr.Finish2(decision(o), wait); err != nil {
						return err
					}
					ev["saved"] = true
				}
				if pr.Err != nil {
					ev["res"] = "err"
				}
			case r < 94: // leader loop progress
				switch {
				case n.sync != nil:
					o := outcome()
					ev["ev"], ev["o"] = "SyncSave", o
					pr := n.sync
					if err := pr.Finish2(decision(o), wait); err != nil {
						return err
					}
					n.sync = nil
					if pr.Err != nil {
						ev["res"] = "err"
						n.mem.ResetLeader()
					} else {
						serving[m] = true
					}
				case serving[m]:
					if rng.Intn(8) != 0 {
						continue
					}
					ev["ev"] = "StepDown"
					n.am.ResetAllocatorGroup(tso.GlobalDCLocation)
					n.mem.ResetLeader()
					serving[m] = false
				default:
					if w.leader() != "none" {
						continue
					}
					if !allowKnown && n.upd != nil {
						continue
					}
					ev["ev"] = "Campaign"
					mm := n.mem
					pr := w.sched.Go(m+"/campaign", func() (interface{}, error) { return nil, mm.CampaignLeader(leaseTTL) })
					if _, _, err := pr.Next(wait); err != nil {
						return err
					}
					if err := pr.Finish(wait); err != nil {
						return err
					}
					if pr.Err != nil {
						ev["res"] = "err"
						n.mem.ResetLeader()
						break
					}
					w.observe(ev)
					tw.Emit(ev)
					ev = trace.Ev{"beh": h, "step": k + 1, "m": m, "res": "ok", "grant": []int{}, "ev": "SyncLoad"}
					a := n.alloc
					n.sync = w.sched.Go(m+"/sync", func() (interface{}, error) { return nil, a.Initialize(0) })
					_, done, err := n.sync.Next(wait)
					if err != nil {
						return err
					}
					if done {
						ev["res"] = "finished"
						if n.sync.Err != nil {
							n.mem.ResetLeader()
						} else {
							serving[m] = true
						}
						n.sync = nil
					}
				}
			case r < 98: // the leader record disappears under its holder
				if w.leader() == "none" || rng.Intn(3) == 0 {
					continue
				}
				ev["ev"], ev["m"] = "DeleteKey", ""
				if _, err := plain.Delete(context.Background(), w.root+"/leader"); err != nil {
					return err
				}
			case r < 100 && rng.Intn(2) == 0: // crash + the record expires
				ev["ev"] = "Crash"
				c := w.getClock(n)
				n.cancel()
				nn, err := w.newNode(m, n.id, c)
				if err != nil {
					return err
				}
				w.mu.Lock()
				delete(w.clock, n.cli)
				w.mu.Unlock()
				w.nodes[m] = nn
				serving[m] = false
				if w.leader() == "other" || w.leader() == m {
					// the old incarnation's record: its lease expires
					r, err := plain.Get(context.Background(), w.root+"/leader")
					if err == nil && len(r.Kvs) == 1 && string(r.Kvs[0].Value) == nn.mem.MemberValue() && r.Kvs[0].Lease != 0 {
						plain.Revoke(context.Background(), clientv3.LeaseID(r.Kvs[0].Lease))
					}
				}
			default:
				continue
			}
			w.observe(ev)
			tw.Emit(ev)
		}
		for _, n := range w.nodes {
			if n.upd != nil {
				n.upd.Finish2(gate.FailBefore, wait)
			}
			if n.sync != nil {
				n.sync.Finish2(gate.FailBefore, wait)
			}
			n.am.ResetAllocatorGroup(tso.GlobalDCLocation)
			n.cancel()
			n.cli.Close()
		}
	}
	return nil
}

var _ = etcdgate.TempDir
