package tsoh

import (
	"errors"
	"fmt"
	"sort"
	"strings"
	"sync"
	"sync/atomic"
	"time"

	"github.com/pingcap/kvproto/pkg/pdpb"
	"github.com/tikv/pd/pkg/tsoutil"
	"github.com/tikv/pd/server/tso"

	"pdverif/internal/cli"
	"pdverif/internal/pdserver"
	"pdverif/internal/trace"
)

func init() {
	cli.Register("tso phases", phases)
}

type syncPark struct {
	target string
	skip   bool
	max    [2]int64
	rel    chan struct{}
}

type syncDone struct {
	target string
	resp   *pdpb.SyncMaxTSResponse
	err    error
}

type globalRes struct {
	ts  pdpb.Timestamp
	err error
}

// phases replays behaviours of GlobalPhases.tla on a real cluster of three in-process servers with per-datacenter
// allocators: every SyncMaxTS request of the global allocator is parked before it is sent (hook VerifSyncMaxTS) and
// delivered when the behaviour says so, between local requests and clock movements; a reply can be lost on the way
// back. All clocks are first moved one hour ahead of the wall clock, so that no allocator ticks on its own and the
// local allocators' values are exactly what the requests and writes make them. Mon_GlobalPhases.tla decides.
func phases(args map[string]string) error {
	var behs [][]cli.Step
	if err := cli.ReadJSON(args["in"], &behs); err != nil {
		return err
	}
	w, err := trace.Create(args["out"])
	if err != nil {
		return err
	}
	defer w.Close()
	layout := args["layout"] // "" = every member leads the allocator of its own datacenter; "pair" = dc-3 is led by the member of dc-1
	tso.PriorityCheck = 200 * time.Millisecond
	if layout == "pair" {
		tso.PriorityCheck = time.Hour // read when the servers start: the allocators stay with whoever won them
	}
	cfgs, err := pdserver.MultiConfigs(3)
	if err != nil {
		return err
	}
	dcs := []string{"dc-1", "dc-2", "dc-3"}
	var pds []*pdserver.PD
	var mu sync.Mutex
	var wg sync.WaitGroup
	var serr error
	for i, cfg := range cfgs {
		cfg.EnableLocalTSO = true
		cfg.Labels = map[string]string{"zone": dcs[i]}
		wg.Add(1)
		go func(i int) {
			defer wg.Done()
			p, err := pdserver.StartCfg(cfgs[i])
			mu.Lock()
			defer mu.Unlock()
			if err != nil {
				serr = err
				return
			}
			pds = append(pds, p)
		}(i)
	}
	wg.Wait()
	if serr != nil {
		return serr
	}
	defer func() {
		for _, p := range pds {
			p.Close()
		}
	}()
	leaderPD := func() *pdserver.PD {
		for _, p := range pds {
			if !p.S.IsClosed() && p.S.GetMember().IsLeader() {
				return p
			}
		}
		return nil
	}
	holder := func(dc string) *pdserver.PD {
		for _, p := range pds {
			a, err := p.S.GetTSOAllocatorManager().GetAllocator(dc)
			if err != nil {
				continue
			}
			if la, ok := a.(*tso.LocalTSOAllocator); ok && la.IsAllocatorLeader() && la.IsInitialize() {
				return p
			}
		}
		return nil
	}
	ready := func() bool {
		if leaderPD() == nil {
			return false
		}
		for _, dc := range dcs {
			if holder(dc) == nil {
				return false
			}
		}
		return len(leaderPD().S.GetTSOAllocatorManager().GetClusterDCLocations()) == 3
	}
	dl := time.Now().Add(60 * time.Second)
	for !ready() && time.Now().Before(dl) {
		time.Sleep(50 * time.Millisecond)
	}
	if !ready() {
		return fmt.Errorf("local allocators not ready")
	}
	// every member should lead the allocator of its own datacenter (the priority check moves it there)
	home := func() bool {
		seen := map[*pdserver.PD]bool{}
		for _, dc := range dcs {
			p := holder(dc)
			if p == nil || seen[p] {
				return false
			}
			seen[p] = true
		}
		return true
	}
	dl = time.Now().Add(60 * time.Second)
	for layout == "" && !home() && time.Now().Before(dl) {
		time.Sleep(100 * time.Millisecond)
	}
	time.Sleep(500 * time.Millisecond)
	lp := leaderPD()
	// model name -> real datacenter (the identity unless the layout is "pair")
	name := map[string]string{"dc-1": "dc-1", "dc-2": "dc-2", "dc-3": "dc-3"}
	if layout == "pair" {
		// Without the priority check an allocator stays with the member that won it. Leaderships are given up and campaigned
		// for again until exactly two members lead allocators; the member with two of them plays the model's {dc-1, dc-3}.
		byMember := func() map[*pdserver.PD][]string {
			m := map[*pdserver.PD][]string{}
			for _, dc := range dcs {
				if p := holder(dc); p != nil {
					m[p] = append(m[p], dc)
				}
			}
			return m
		}
		ok := false
		for try := 0; try < 40 && !ok; try++ {
			m := byMember()
			n := 0
			for _, g := range m {
				n += len(g)
			}
			if n == 3 && len(m) == 2 {
				ok = true
				break
			}
			if n == 3 {
				var big []string
				var who *pdserver.PD
				for p, g := range m {
					if len(g) > len(big) {
						big, who = g, p
					}
				}
				who.S.GetTSOAllocatorManager().ResetAllocatorGroup(big[try%len(big)])
			}
			time.Sleep(1500 * time.Millisecond)
		}
		if !ok {
			return fmt.Errorf("no layout with two members leading the three allocators was reached")
		}
		for _, g := range byMember() {
			if len(g) == 2 {
				name["dc-1"], name["dc-3"] = g[0], g[1]
			} else {
				name["dc-2"] = g[0]
			}
		}
		time.Sleep(500 * time.Millisecond)
	}
	// one request target per member that leads allocators; the group of a member = the datacenters it leads
	groupOfPort := map[string][]string{}
	for _, dc := range dcs {
		urls := holder(dc).S.GetMember().Member().GetClientUrls()
		if len(urls) == 0 {
			return fmt.Errorf("no client url for the allocator leader of %s", dc)
		}
		port := urls[0][strings.LastIndex(urls[0], ":")+1:]
		groupOfPort[port] = append(groupOfPort[port], dc)
	}
	if (layout == "" && len(groupOfPort) != 3) || (layout == "pair" && len(groupOfPort) != 2) {
		return fmt.Errorf("allocator leaders are not laid out as requested: %v", groupOfPort)
	}
	dcOf := func(target string) string { return strings.Join(groupOfPort[target[strings.LastIndex(target, ":")+1:]], "+") }
	alloc := func(dc string) (tso.Allocator, error) {
		p := lp
		if dc != tso.GlobalDCLocation {
			p = holder(dc)
		}
		if p == nil {
			return nil, fmt.Errorf("no allocator leader for %s", dc)
		}
		return p.S.GetTSOAllocatorManager().GetAllocator(dc)
	}
	// the gate
	var gateOn int32
	sendCh := make(chan *syncPark, 64)
	recvCh := make(chan *syncDone, 64)
	var loseMu sync.Mutex
	lose := map[string]bool{}
	tso.VerifSyncMaxTS = func(stage, target string, req *pdpb.SyncMaxTSRequest, resp *pdpb.SyncMaxTSResponse, err error) error {
		if atomic.LoadInt32(&gateOn) == 0 {
			return nil
		}
		if stage == "send" {
			p := &syncPark{target: target, skip: req.GetSkipCheck(), max: [2]int64{req.GetMaxTs().GetPhysical(), req.GetMaxTs().GetLogical()}, rel: make(chan struct{})}
			sendCh <- p
			<-p.rel
			return nil
		}
		loseMu.Lock()
		l := lose[target]
		lose[target] = false
		loseMu.Unlock()
		recvCh <- &syncDone{target: target, resp: resp, err: err}
		if l {
			return errors.New("verif: the reply was lost")
		}
		return nil
	}
	defer func() { tso.VerifSyncMaxTS = nil }()
	// all clocks one hour ahead of the wall clock: no allocator ticks on its own from here on
	start := time.Now().Add(time.Hour).UnixNano() / int64(time.Millisecond)
	base := start - 1000
	for _, dc := range append([]string{tso.GlobalDCLocation}, dcs...) {
		a, err := alloc(dc)
		if err != nil {
			return err
		}
		if err := a.SetTSO(tsoutil.ComposeTS(start, 0)); err != nil {
			return fmt.Errorf("moving the clock of %s ahead: %v", dc, err)
		}
	}
	cur := func(dc string) ([2]int64, error) {
		a, err := alloc(dc)
		if err != nil {
			return [2]int64{}, err
		}
		phys, logical, _ := tso.VerifTSO(a)
		return [2]int64{phys.UnixNano() / int64(time.Millisecond), logical}, nil
	}
	rel := func(v [2]int64) []int { return []int{int(v[0] - base), int(v[1])} }
	atomic.StoreInt32(&gateOn, 1)
	const wait = 30 * time.Second
	for bi, beh := range behs {
		ev0 := trace.Ev{"beh": bi, "mode": "phases"}
		locs := trace.Ev{}
		for _, dc := range dcs {
			v, err := cur(dc)
			if err != nil {
				return err
			}
			locs[dc] = rel(v)
		}
		g, err := cur(tso.GlobalDCLocation)
		if err != nil {
			return err
		}
		ev0["loc"], ev0["glo"] = locs, rel(g)
		w.Reset(ev0)
		var gdone chan globalRes
		var gcount int
		parks := map[string]*syncPark{}
		var roundMax [2]int64
		// collect waits until every request of the next round is parked, or the global request has returned
		collect := func() error {
			for len(parks) < len(groupOfPort) {
				select {
				case p := <-sendCh:
					parks[dcOf(p.target)] = p
					roundMax = p.max
				case r := <-gdone:
					gdone = nil
					e := trace.Ev{"ev": "global", "n": gcount, "err": r.err != nil, "ts": []int{0, 0}, "suffix": 0}
					if r.err != nil {
						e["errs"] = r.err.Error()
					}
					if r.err == nil {
						e["ts"] = []int{int(r.ts.Physical - base), int(r.ts.Logical >> r.ts.SuffixBits)}
						e["suffix"] = int(r.ts.Logical & ((1 << r.ts.SuffixBits) - 1))
					}
					w.Emit(e)
					return nil
				case <-time.After(wait):
					return fmt.Errorf("the global request neither parked its next round nor returned")
				}
			}
			var skip bool
			for _, p := range parks {
				skip = p.skip
				if p.max != roundMax || p.skip != skip {
					return fmt.Errorf("requests of one round differ: %v", parks)
				}
			}
			w.Emit(trace.Ev{"ev": "round", "skip": skip, "max": rel(roundMax)})
			return nil
		}
		deliver := func(dc string, lost bool) error {
			p := parks[dc]
			delete(parks, dc)
			if lost {
				loseMu.Lock()
				lose[p.target] = true
				loseMu.Unlock()
			}
			close(p.rel)
			select {
			case r := <-recvCh:
				e := trace.Ev{"ev": "deliver", "dc": dc, "dcs": strings.Split(dc, "+"), "lost": lost, "rpcerr": r.err != nil, "reply": []int{-1, -1}}
				if r.err == nil && r.resp.GetMaxLocalTs() != nil {
					e["reply"] = rel([2]int64{r.resp.GetMaxLocalTs().GetPhysical(), r.resp.GetMaxLocalTs().GetLogical()})
				}
				w.Emit(e)
			case <-time.After(wait):
				return fmt.Errorf("no reply from %s", dc)
			}
			if len(parks) == 0 {
				return collect()
			}
			return nil
		}
		for si, st := range beh {
			if si == 0 {
				continue
			}
			last, _ := st.State["last"].([]interface{})
			if len(last) == 0 {
				continue
			}
			switch last[0].(string) {
			case "LocalGen":
				dc, n := name[last[1].(string)], int(last[2].(float64))
				e := trace.Ev{"ev": "local", "dc": dc, "n": n, "err": true, "ts": []int{0, 0}, "suffix": 0}
				if p := holder(dc); p != nil {
					ts, err := p.S.GetTSOAllocatorManager().HandleTSORequest(dc, uint32(n))
					if err == nil {
						e["err"], e["ts"] = false, []int{int(ts.Physical - base), int(ts.Logical >> ts.SuffixBits)}
						e["suffix"] = int(ts.Logical & ((1 << ts.SuffixBits) - 1))
					}
				}
				w.Emit(e)
			case "Push":
				dc, kind := name[last[1].(string)], last[2].(string)
				if kind != "tick" && gdone == nil {
					continue
				}
				v, err := cur(dc)
				if err != nil {
					return err
				}
				to := [2]int64{v[0] + 3, 0}
				switch kind {
				case "eq":
					to = roundMax
				case "eq1":
					to = [2]int64{roundMax[0], roundMax[1] + 1}
				case "above":
					to = [2]int64{roundMax[0] + 3, 0}
				}
				a, err := alloc(dc)
				if err != nil {
					return err
				}
				serr := a.SetTSO(tsoutil.ComposeTS(to[0], to[1]))
				w.Emit(trace.Ev{"ev": "push", "dc": dc, "kind": kind, "to": rel(to), "ok": serr == nil})
			case "PushGlobal":
				if gdone != nil {
					continue
				}
				v, err := cur(tso.GlobalDCLocation)
				if err != nil {
					return err
				}
				to := [2]int64{v[0] + 3, 0}
				a, err := alloc(tso.GlobalDCLocation)
				if err != nil {
					return err
				}
				serr := a.SetTSO(tsoutil.ComposeTS(to[0], to[1]))
				w.Emit(trace.Ev{"ev": "pushg", "to": rel(to), "ok": serr == nil})
			case "Start":
				if gdone != nil {
					continue
				}
				gcount = int(last[1].(float64))
				ch := make(chan globalRes, 1)
				gdone = ch
				n := uint32(gcount)
				w.Emit(trace.Ev{"ev": "start", "n": gcount})
				go func() {
					ts, err := lp.S.GetTSOAllocatorManager().HandleTSORequest(tso.GlobalDCLocation, n)
					ch <- globalRes{ts, err}
				}()
				if err := collect(); err != nil {
					return err
				}
			case "Deliver":
				var names []string
				set, _ := last[1].(map[string]interface{}) // a TLA+ set arrives as {"__set__": [...]}
				members, _ := set["__set__"].([]interface{})
				for _, x := range members {
					names = append(names, name[x.(string)])
				}
				sort.Strings(names)
				dc, lost := strings.Join(names, "+"), last[2].(bool)
				if gdone == nil || parks[dc] == nil {
					continue // the real request is in another round than the model's (the estimate differs): the monitor judges what happens
				}
				if err := deliver(dc, lost); err != nil {
					return err
				}
			}
		}
		// let the request in flight finish
		for gdone != nil {
			var left []string
			for dc := range parks {
				left = append(left, dc)
			}
			sort.Strings(left)
			if len(left) == 0 {
				if err := collect(); err != nil {
					return err
				}
				continue
			}
			if err := deliver(left[0], false); err != nil {
				return err
			}
		}
	}
	atomic.StoreInt32(&gateOn, 0)
	return nil
}
