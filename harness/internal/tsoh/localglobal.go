package tsoh

import (
	"context"
	"fmt"
	"math/rand"
	"sync"
	"sync/atomic"
	"time"

	"github.com/tikv/pd/pkg/tsoutil"
	"github.com/tikv/pd/server/tso"

	"pdverif/internal/cli"
	"pdverif/internal/pdserver"
	"pdverif/internal/trace"
)

func init() {
	cli.Register("tso localglobal", localGlobal)
}

// localGlobal: a real cluster of three in-process servers with per-datacenter allocators; local requests in every
// datacenter are mixed with global requests (sequential patterns and concurrent phases), allocator leaders are moved.
func localGlobal(args map[string]string) error {
	seed := int64(cli.Int(args, "seed", 1))
	rounds := cli.Int(args, "rounds", 200)
	maxGlobalCount := cli.Int(args, "globalcount", 1)
	w, err := trace.Create(args["out"])
	if err != nil {
		return err
	}
	defer w.Close()
	tso.PriorityCheck = 200 * time.Millisecond
	cfgs, err := pdserver.MultiConfigs(3)
	if err != nil {
		return err
	}
	dcs := []string{"dc-1", "dc-2", "dc-3"}
	var pds []*pdserver.PD
	var mu sync.Mutex
	var wg sync.WaitGroup
	var serr error
	for i, cfg := range cfgs {
		cfg.EnableLocalTSO = true
		cfg.Labels = map[string]string{"zone": dcs[i]}
		wg.Add(1)
		go func(i int) {
			defer wg.Done()
			p, err := pdserver.StartCfg(cfgs[i])
			mu.Lock()
			defer mu.Unlock()
			if err != nil {
				serr = err
				return
			}
			pds = append(pds, p)
		}(i)
	}
	wg.Wait()
	if serr != nil {
		return serr
	}
	defer func() {
		for _, p := range pds {
			p.Close()
		}
	}()
	leaderPD := func() *pdserver.PD {
		for _, p := range pds {
			if !p.S.IsClosed() && p.S.GetMember().IsLeader() {
				return p
			}
		}
		return nil
	}
	// wait for the PD leader and for every datacenter to have an initialised allocator leader
	holder := func(dc string) *pdserver.PD {
		for _, p := range pds {
			a, err := p.S.GetTSOAllocatorManager().GetAllocator(dc)
			if err != nil {
				continue
			}
			if la, ok := a.(*tso.LocalTSOAllocator); ok && la.IsAllocatorLeader() && la.IsInitialize() {
				return p
			}
		}
		return nil
	}
	ready := func() bool {
		if leaderPD() == nil {
			return false
		}
		for _, dc := range dcs {
			if holder(dc) == nil {
				return false
			}
		}
		return len(leaderPD().S.GetTSOAllocatorManager().GetClusterDCLocations()) == 3
	}
	dl := time.Now().Add(60 * time.Second)
	for !ready() && time.Now().Before(dl) {
		time.Sleep(50 * time.Millisecond)
	}
	if !ready() {
		return fmt.Errorf("local allocators not ready")
	}
	time.Sleep(500 * time.Millisecond)
	rng := rand.New(rand.NewSource(seed))
	var base int64
	var needBits int64 // suffix width required once the later datacenter has its suffix (0 = not yet)
	req := func(who string, n uint32) {
		var p *pdserver.PD
		dc := who
		if who == "global" {
			p = leaderPD()
			dc = tso.GlobalDCLocation
		} else {
			p = holder(who)
		}
		if p == nil {
			return
		}
		s := w.Seq()
		ts, err := p.S.GetTSOAllocatorManager().HandleTSORequest(dc, n)
		e := w.Seq()
		ev := trace.Ev{"ev": "ts", "who": who, "n": int(n), "s": s, "e": e, "err": err != nil, "phys": 0, "logical": 0, "bits": 0, "need_bits": int(atomic.LoadInt64(&needBits))}
		if err == nil {
			mu.Lock()
			if base == 0 {
				base = ts.Physical - 1000
			}
			mu.Unlock()
			ev["phys"], ev["logical"], ev["bits"] = int(ts.Physical-base), int(ts.Logical), int(ts.SuffixBits)
		}
		w.Emit(ev)
	}
	// A fourth datacenter registers later (its member writes the dc-location key); the members notice it at different
	// times: followers before the PD leader has given it a suffix, the leader, the followers again. The datacenter then
	// leaves (a global timestamp needs an allocator in every registered datacenter) but keeps its suffix, so from here on
	// every timestamp must report a suffix width that covers it.
	join := func() {
		lp := leaderPD()
		if lp == nil || atomic.LoadInt64(&needBits) != 0 {
			return
		}
		ctx := context.Background()
		key := lp.S.GetMember().GetDCLocationPath(987654321)
		if _, err := lp.S.GetClient().Put(ctx, key, "dc-4"); err != nil {
			return
		}
		check := func(leader bool) {
			for _, p := range pds {
				if (p == lp) == leader {
					p.S.GetTSOAllocatorManager().ClusterDCLocationChecker()
				}
			}
		}
		check(false)
		check(true)
		check(false)
		lp.S.GetClient().Delete(ctx, key)
		check(true)
		check(false)
		bits := lp.S.GetTSOAllocatorManager().GetSuffixBits()
		w.Emit(trace.Ev{"ev": "join", "dc": "dc-4", "bits": bits})
		atomic.StoreInt64(&needBits, int64(bits))
	}
	w.Reset(trace.Ev{"beh": 0, "mode": "localglobal", "globalcount": maxGlobalCount})
	req("global", 1) // fixes the time base
	gcount := func() uint32 {
		if maxGlobalCount <= 1 {
			return 1
		}
		return uint32(1 + rng.Intn(maxGlobalCount))
	}
	// near the end the local clocks run far ahead (two admin resets of 20 h each), in one datacenter or in all of them:
	// the global allocator cannot catch up (further than the allowed reset gap). With one datacenter ahead the other
	// local allocators refuse the collected maximum; with all of them ahead the maximum is written everywhere and only
	// the global allocator's own reset fails, so the request is retried after its second phase. Either way a global
	// request must be refused, never answered with a value below the local timestamps handed out already.
	skew := func() {
		which := []string{dcs[rng.Intn(3)]}
		if seed%2 == 1 {
			which = dcs
		}
		for _, dc := range which {
			p := holder(dc)
			if p == nil {
				continue
			}
			a, err := p.S.GetTSOAllocatorManager().GetAllocator(dc)
			if err != nil {
				continue
			}
			ok := true
			for k := 0; k < 2 && ok; k++ {
				cur, err := p.S.GetTSOAllocatorManager().HandleTSORequest(dc, 1)
				if err != nil {
					ok = false
					break
				}
				ok = a.SetTSO(tsoutil.ComposeTS(cur.Physical+20*3600*1000, 0)) == nil
			}
			if ok {
				w.Emit(trace.Ev{"ev": "skew", "dc": dc})
			}
		}
	}
	for r := 0; r < rounds; r++ {
		if r == rounds/2 {
			join()
		}
		if r == rounds*9/10 {
			skew()
		}
		switch rng.Intn(10) {
		case 0, 1, 2, 3, 4:
			// sequential pattern inside one physical tick: global, a few locals, global
			req("global", gcount())
			for k := 0; k < 1+rng.Intn(5); k++ {
				req(dcs[rng.Intn(3)], uint32(1+rng.Intn(4)))
			}
			req("global", gcount())
			for k := 0; k < rng.Intn(3); k++ {
				req(dcs[rng.Intn(3)], 1)
			}
		case 5, 6, 7:
			// concurrent phase
			var cw sync.WaitGroup
			for _, who := range []string{"global", "dc-1", "dc-2", "dc-3", "global"} {
				cw.Add(1)
				n := uint32(1 + rng.Intn(3))
				if who == "global" {
					n = gcount()
				}
				go func(who string, n uint32) {
					defer cw.Done()
					for k := 0; k < 4; k++ {
						req(who, n)
					}
				}(who, n)
			}
			cw.Wait()
		case 8:
			if maxGlobalCount > 1 && rng.Intn(2) == 0 {
				// a multi-value global request right after a small local one, inside one physical tick
				req("global", 1)
				req(dcs[rng.Intn(3)], uint32(1+rng.Intn(2)))
				req("global", uint32(maxGlobalCount))
			} else {
				time.Sleep(time.Duration(rng.Intn(60)) * time.Millisecond)
			}
		case 9:
			// move an allocator leader to another member
			if r%5 != 0 {
				continue
			}
			dc := dcs[rng.Intn(3)]
			target := pds[rng.Intn(3)]
			lp := leaderPD()
			if lp == nil {
				continue
			}
			if err := lp.S.GetTSOAllocatorManager().TransferAllocatorForDCLocation(dc, target.S.GetMember().ID()); err == nil {
				w.Emit(trace.Ev{"ev": "transfer", "dc": dc, "to": target.Cfg.Name})
				d2 := time.Now().Add(10 * time.Second)
				for time.Now().Before(d2) && (holder(dc) == nil) {
					time.Sleep(20 * time.Millisecond)
				}
				time.Sleep(300 * time.Millisecond)
			}
		}
	}
	return nil
}
