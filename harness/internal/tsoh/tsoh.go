// Package tsoh binds spec/tso/TSO.tla to server/tso (+ member, election) at component level: one
// member.Member + tso.AllocatorManager (global allocator) per simulated PD member on one embedded etcd.
package tsoh

import (
	"context"
	"fmt"
	"sync"
	"time"

	"github.com/pingcap/kvproto/pkg/pdpb"
	"github.com/tikv/pd/pkg/tsoutil"
	"github.com/tikv/pd/pkg/typeutil"
	"github.com/tikv/pd/server/config"
	"github.com/tikv/pd/server/member"
	"github.com/tikv/pd/server/tso"
	"go.etcd.io/etcd/clientv3"

	"pdverif/internal/cli"
	"pdverif/internal/etcdgate"
	"pdverif/internal/gate"
	"pdverif/internal/trace"
)

func init() {
	cli.Register("tso replay", replay)
}

const wait = 30 * time.Second
const leaseTTL = 120

var members = []string{"m1", "m2"}

type node struct {
	name   string
	id     uint64
	cli    *clientv3.Client
	mem    *member.Member
	am     *tso.AllocatorManager
	alloc  tso.Allocator
	cancel context.CancelFunc
	sync   *gate.Proc
	upd    *gate.Proc
}

type world struct {
	etcd  *etcdgate.Etcd
	plain *clientv3.Client
	sched *gate.Sched
	base  time.Time
	mu    sync.Mutex
	clock map[*clientv3.Client]int
	root  string
	nodes map[string]*node
	save  int
	gap   int
	// residue is added to every substituted clock reading: the wall clock is never a whole number of milliseconds,
	// while the timestamps an administrator or a global request writes always are
	residue time.Duration
}

func (w *world) now(c *clientv3.Client, real time.Time) time.Time {
	w.mu.Lock()
	defer w.mu.Unlock()
	v, ok := w.clock[c]
	if !ok {
		return real
	}
	return w.base.Add(time.Duration(v)*time.Millisecond + w.residue)
}

func (w *world) setClock(n *node, v int) {
	w.mu.Lock()
	w.clock[n.cli] = v
	w.mu.Unlock()
}

func (w *world) getClock(n *node) int {
	w.mu.Lock()
	defer w.mu.Unlock()
	return w.clock[n.cli]
}

func (w *world) newNode(name string, id uint64, clock int) (*node, error) {
	c, kvw, err := w.etcd.GatedClient(w.sched)
	if err != nil {
		return nil, err
	}
	cfg := config.NewConfig()
	cfg.TSOSaveInterval = typeutil.NewDuration(time.Duration(w.save) * time.Millisecond)
	cfg.TSOUpdatePhysicalInterval = typeutil.NewDuration(time.Millisecond)
	cfg.AdvertiseClientUrls = "http://" + name
	cfg.AdvertisePeerUrls = "http://" + name + "-peer"
	m := member.NewMember(nil, c, id)
	m.MemberInfo(cfg, name, w.root)
	gap := time.Duration(w.gap) * time.Millisecond
	am := tso.NewAllocatorManager(m, w.root, cfg, func() time.Duration { return gap })
	ctx, cancel := context.WithCancel(context.Background())
	am.SetUpAllocator(ctx, tso.GlobalDCLocation, m.GetLeadership())
	a, err := am.GetAllocator(tso.GlobalDCLocation)
	if err != nil {
		cancel()
		return nil, err
	}
	n := &node{name: name, id: id, cli: c, mem: m, am: am, alloc: a, cancel: cancel}
	// allocatorUpdater runs UpdateTSO in a goroutine of its own: its transaction belongs to the pending update
	kvw.Fallback = func() *gate.Proc { return n.upd }
	w.setClock(n, clock)
	return n, nil
}

func (w *world) rel(t time.Time) int {
	if t == typeutil.ZeroTime || t.IsZero() {
		return 0
	}
	return int(t.Sub(w.base) / time.Millisecond)
}

func (w *world) window() int {
	r, err := w.plain.Get(context.Background(), w.root+"/timestamp")
	if err != nil || len(r.Kvs) == 0 {
		return 0
	}
	t, err := typeutil.ParseTimestamp(r.Kvs[0].Value)
	if err != nil {
		return -1
	}
	return w.rel(t)
}

func (w *world) leader() string {
	r, err := w.plain.Get(context.Background(), w.root+"/leader")
	if err != nil || len(r.Kvs) == 0 {
		return "none"
	}
	for _, n := range w.nodes {
		if string(r.Kvs[0].Value) == n.mem.MemberValue() {
			return n.name
		}
	}
	return "other"
}

func (w *world) observe(ev trace.Ev) {
	lease, phys, logi, last, clk := map[string]bool{}, map[string]int{}, map[string]int{}, map[string]int{}, map[string]int{}
	for _, n := range w.nodes {
		lease[n.name] = n.mem.GetLeadership().Check()
		p, l, s := tso.VerifTSO(n.alloc)
		phys[n.name], logi[n.name], last[n.name] = w.rel(p), int(l), w.rel(s)
		clk[n.name] = w.getClock(n)
	}
	ev["window"], ev["leader"] = w.window(), w.leader()
	ev["lease"], ev["phys"], ev["logi"], ev["last"], ev["clock"] = lease, phys, logi, last, clk
}

func decision(o string) gate.Decision {
	switch o {
	case "lost":
		return gate.FailAfter
	case "err":
		return gate.FailBefore
	}
	return gate.Proceed
}

// replay drives the real objects through TLC behaviours of TSO.tla.
func replay(args map[string]string) error {
	var behs [][]cli.Step
	if err := cli.ReadJSON(args["in"], &behs); err != nil {
		return err
	}
	tw, err := trace.Create(args["out"])
	if err != nil {
		return err
	}
	defer tw.Close()
	e, err := etcdgate.Start()
	if err != nil {
		return err
	}
	defer e.Stop()
	plain, err := e.Client()
	if err != nil {
		return err
	}
	defer plain.Close()
	w := &world{etcd: e, plain: plain, sched: gate.New(), clock: map[*clientv3.Client]int{},
		base: time.Now().Truncate(time.Second).Add(-time.Hour), save: cli.Int(args, "saveint", 3), gap: cli.Int(args, "maxgap", 12)}
	tso.VerifNow = w.now
	for bi, beh := range behs {
		w.root = fmt.Sprintf("/vf/tso/%d", bi)
		w.nodes = map[string]*node{}
		init := beh[0].State
		clocks, _ := init["clock"].(map[string]interface{})
		for i, name := range members {
			c := 1
			if v, ok := clocks[name].(float64); ok {
				c = int(v)
			}
			n, err := w.newNode(name, uint64(i+1), c)
			if err != nil {
				return err
			}
			w.nodes[name] = n
		}
		ev0 := trace.Ev{"beh": bi, "mode": "replay"}
		w.observe(ev0)
		tw.Reset(ev0)
		drifted := false
		drift := func(si int, why string) {
			ev := trace.Ev{"ev": "drift", "beh": bi, "step": si, "why": why, "m": "", "res": "", "grant": []int{}}
			w.observe(ev)
			tw.Emit(ev)
			drifted = true
		}
		for si, st := range beh {
			if si == 0 || drifted {
				continue
			}
			ev := trace.Ev{"ev": st.Action, "beh": bi, "step": si, "m": "", "res": "ok", "grant": []int{}}
			m := st.Str(0)
			n := w.nodes[m]
			switch st.Action {
			case "Gen":
				cnt := st.Num(1)
				ev["m"], ev["count"] = m, cnt
				ts, err := n.am.HandleTSORequest(tso.GlobalDCLocation, uint32(cnt))
				if err != nil {
					ev["res"] = "err"
				} else {
					ev["grant"] = []int{int(ts.Physical - w.base.UnixNano()/1e6), int(ts.Logical) - cnt + 1, int(ts.Logical)}
				}
			case "UpdRead":
				ev["m"] = m
				if n.upd != nil {
					drift(si, "UpdRead("+m+"): an update is still in flight")
					continue
				}
				am := n.am
				n.upd = gate.NewProc(m + "/upd")
				w.sched.Start(n.upd, func() (interface{}, error) { am.VerifAllocatorUpdater(); return nil, nil })
				_, done, err := n.upd.Next(wait)
				if err != nil {
					return err
				}
				if done {
					n.upd = nil
					ev["res"] = "nosave"
				} else {
					ev["res"] = "parked"
				}
			case "UpdSave":
				ev["m"], ev["o"] = m, st.Str(1)
				if n.upd == nil {
					drift(si, "UpdSave("+m+"): the real updater is not waiting at a save transaction")
					continue
				}
				if err := n.upd.Finish2(decision(st.Str(1)), wait); err != nil {
					return err
				}
				n.upd = nil
			case "ResetUser":
				p, l, o := st.Num(1), st.Num(2), st.Str(3)
				ev["m"], ev["p"], ev["l"], ev["o"] = m, p, l, o
				a := n.alloc
				target := tsoutil.ComposeTS(w.base.UnixNano()/1e6+int64(p), int64(l))
				// every other reset takes the path of a maximum written by a global request (ignoreSmaller)
				maxts := (bi+si)%2 == 1
				if maxts {
					ev["via"] = "maxts"
				}
				pr := w.sched.Go(m+"/reset", func() (interface{}, error) {
					if maxts {
						return nil, tso.VerifWriteMaxTS(a, target)
					}
					return nil, a.SetTSO(target)
				})
				_, done, err := pr.Next(wait)
				if err != nil {
					return err
				}
				if !done {
					// the reset needs to save the window: the model chose the outcome of that transaction
					if err := pr.Finish2(decision(o), wait); err != nil {
						return err
					}
					ev["saved"] = true
				}
				if pr.Err != nil {
					ev["res"] = "err"
				}
			case "Campaign":
				ev["m"] = m
				mm := n.mem
				pr := w.sched.Go(m+"/campaign", func() (interface{}, error) { return nil, mm.CampaignLeader(leaseTTL) })
				if _, _, err := pr.Next(wait); err != nil {
					return err
				}
				if err := pr.Finish(wait); err != nil {
					return err
				}
				if pr.Err != nil {
					ev["res"] = "err"
				}
			case "SyncLoad":
				ev["m"] = m
				a := n.alloc
				n.sync = w.sched.Go(m+"/sync", func() (interface{}, error) { return nil, a.Initialize(0) })
				_, done, err := n.sync.Next(wait)
				if err != nil {
					return err
				}
				if done {
					n.sync = nil
					drift(si, "SyncLoad("+m+"): Initialize finished without reaching its save transaction")
					continue
				}
			case "SyncSave":
				ev["m"], ev["o"] = m, st.Str(1)
				if n.sync == nil {
					drift(si, "SyncSave("+m+"): no Initialize in flight")
					continue
				}
				pr := n.sync
				if err := pr.Finish2(decision(st.Str(1)), wait); err != nil {
					return err
				}
				n.sync = nil
				if pr.Err != nil {
					// server.go campaignLeader: a failed Initialize returns; the deferred ResetLeader runs
					ev["res"] = "err"
					n.mem.ResetLeader()
				}
			case "StepDown":
				ev["m"] = m
				// server.go campaignLeader deferred calls: ResetAllocatorGroup(global) then ResetLeader
				n.am.ResetAllocatorGroup(tso.GlobalDCLocation)
				n.mem.ResetLeader()
			case "DeleteKey":
				if _, err := plain.Delete(context.Background(), w.root+"/leader"); err != nil {
					return err
				}
			case "Tick":
				ev["m"] = m
				w.setClock(n, w.getClock(n)+1)
			case "Jump":
				ev["m"], ev["d"] = m, st.Num(1)
				w.setClock(n, w.getClock(n)+st.Num(1))
			case "Crash":
				ev["m"] = m
				// goroutines parked at a transaction never reach etcd; the objects are dropped
				c := w.getClock(n)
				n.cancel()
				nn, err := w.newNode(m, n.id, c)
				if err != nil {
					return err
				}
				w.mu.Lock()
				delete(w.clock, n.cli)
				w.mu.Unlock()
				w.nodes[m] = nn
			case "EtcdExpire":
				ev["m"] = m
				r, err := plain.Get(context.Background(), w.root+"/leader")
				if err != nil {
					return err
				}
				if len(r.Kvs) == 1 && r.Kvs[0].Lease != 0 {
					plain.Revoke(context.Background(), clientv3.LeaseID(r.Kvs[0].Lease))
				}
			default:
				return fmt.Errorf("unknown action %s", st.Action)
			}
			w.observe(ev)
			tw.Emit(ev)
		}
		// end of behaviour: release whatever is still parked (not applied) and drop the nodes
		for _, n := range w.nodes {
			if n.upd != nil {
				n.upd.Finish2(gate.FailBefore, wait)
			}
			if n.sync != nil {
				n.sync.Finish2(gate.FailBefore, wait)
			}
			n.am.ResetAllocatorGroup(tso.GlobalDCLocation)
			n.cancel()
			n.cli.Close()
		}
	}
	return nil
}

var _ = pdpb.Timestamp{}
