// Package pdserver starts real in-process pingcap/pd servers.
package pdserver

import (
	"context"
	"fmt"
	"os"
	"strings"
	"time"

	"github.com/pingcap/kvproto/pkg/metapb"
	"github.com/pingcap/kvproto/pkg/pdpb"
	"github.com/tikv/pd/pkg/tempurl"
	"github.com/tikv/pd/pkg/typeutil"
	"github.com/tikv/pd/server"
	"github.com/tikv/pd/server/api"
	"github.com/tikv/pd/server/config"
	"go.etcd.io/etcd/embed"

	// Register schedulers
	_ "github.com/tikv/pd/server/schedulers"

	"pdverif/internal/faultkv"
	"pdverif/internal/gate"
)

// PD is one running server.
type PD struct {
	S      *server.Server
	Cfg    *config.Config
	cancel context.CancelFunc
	KV     *faultkv.KV
}

// NewConfig builds a single-server config (mirrors server.NewTestSingleConfig without the check.C dependency).
func NewConfig(name string) (*config.Config, error) {
	cfg := &config.Config{
		Name:                name,
		ClientUrls:          tempurl.Alloc(),
		PeerUrls:            tempurl.Alloc(),
		InitialClusterState: embed.ClusterStateFlagNew,
		LeaderLease:         1,
		TSOSaveInterval:     typeutil.NewDuration(200 * time.Millisecond),
	}
	cfg.AdvertiseClientUrls = cfg.ClientUrls
	cfg.AdvertisePeerUrls = cfg.PeerUrls
	cfg.DataDir, _ = os.MkdirTemp("/tmp", "vf_pd")
	cfg.InitialCluster = fmt.Sprintf("%s=%s", name, cfg.PeerUrls)
	cfg.DisableStrictReconfigCheck = true
	cfg.TickInterval = typeutil.NewDuration(100 * time.Millisecond)
	cfg.ElectionInterval = typeutil.NewDuration(3 * time.Second)
	cfg.LeaderPriorityCheckInterval = typeutil.NewDuration(100 * time.Millisecond)
	cfg.Log.Level = "fatal"
	if p := os.Getenv("VERIF_PDLOG"); p != "" {
		cfg.Log.Level = "info"
		cfg.Log.File.Filename = p
	}
	if err := cfg.SetupLogger(); err != nil {
		return nil, err
	}
	if err := cfg.Adjust(nil, false); err != nil {
		return nil, err
	}
	return cfg, nil
}

// MultiConfigs builds configs for n servers forming one cluster.
func MultiConfigs(n int) ([]*config.Config, error) {
	var cfgs []*config.Config
	var cl []string
	for i := 1; i <= n; i++ {
		c, err := NewConfig(fmt.Sprintf("pd%d", i))
		if err != nil {
			return nil, err
		}
		cl = append(cl, fmt.Sprintf("%s=%s", c.Name, c.PeerUrls))
		cfgs = append(cfgs, c)
	}
	for _, c := range cfgs {
		c.InitialCluster = strings.Join(cl, ",")
	}
	return cfgs, nil
}

// WithAPI makes servers started afterwards register the HTTP API (/pd/api/v1).
var WithAPI bool

// StartCfg starts a server from cfg (does not wait for leadership).
func StartCfg(cfg *config.Config) (*PD, error) {
	ctx, cancel := context.WithCancel(context.Background())
	var builders []server.HandlerBuilder
	if WithAPI {
		builders = append(builders, api.NewHandler)
	}
	s, err := server.CreateServer(ctx, cfg, builders...)
	if err != nil {
		cancel()
		return nil, err
	}
	if err = s.Run(); err != nil {
		cancel()
		return nil, err
	}
	return &PD{S: s, Cfg: cfg, cancel: cancel}, nil
}

// Start starts one server and waits until it is leader. If sched is non-nil (or wrap is true) the server's
// storage kv.Base is wrapped by a faultkv.KV.
func Start(sched *gate.Sched, wrap bool) (*PD, error) {
	var p *PD
	var err error
	// the ports are picked before the server binds them: on a busy machine another process may take one in between
	// (embedded etcd then gives up with "etcd start canceled"); try again with fresh ports
	for attempt := 0; attempt < 5; attempt++ {
		var cfg *config.Config
		if cfg, err = NewConfig("pd"); err != nil {
			return nil, err
		}
		if p, err = StartCfg(cfg); err != nil {
			os.RemoveAll(cfg.DataDir)
			time.Sleep(200 * time.Millisecond)
			continue
		}
		if err = p.WaitLeader(20 * time.Second); err != nil {
			p.Close()
			p = nil
			continue
		}
		break
	}
	if err != nil {
		return nil, err
	}
	if wrap || sched != nil {
		st := p.S.GetStorage()
		p.KV = faultkv.New(st.Base, sched)
		st.Base = p.KV
	}
	return p, nil
}

// WaitLeader waits until the server is the serving leader.
func (p *PD) WaitLeader(d time.Duration) error {
	dl := time.Now().Add(d)
	for time.Now().Before(dl) {
		if !p.S.IsClosed() && p.S.GetMember().IsLeader() {
			return nil
		}
		time.Sleep(20 * time.Millisecond)
	}
	return fmt.Errorf("server %s did not become leader within %v", p.Cfg.Name, d)
}

// Close stops the server and removes its data.
func (p *PD) Close() {
	p.cancel()
	p.S.Close()
	os.RemoveAll(p.Cfg.DataDir)
}

// Restart stops the server process-like (everything in memory is gone) and starts a new one on the same data directory.
func (p *PD) Restart() (*PD, error) {
	p.cancel()
	p.S.Close()
	var np *PD
	var err error
	for attempt := 0; attempt < 5; attempt++ {
		if np, err = StartCfg(p.Cfg); err == nil {
			break
		}
		time.Sleep(300 * time.Millisecond)
	}
	if err != nil {
		return nil, err
	}
	if err := np.WaitLeader(30 * time.Second); err != nil {
		return nil, err
	}
	return np, nil
}

// Header returns a request header for this cluster.
func (p *PD) Header() *pdpb.RequestHeader { return &pdpb.RequestHeader{ClusterId: p.S.ClusterID()} }

// BootstrapReq builds a bootstrap request with the given store / region ids.
func (p *PD) BootstrapReq(storeID, regionID, peerID uint64, addr string) *pdpb.BootstrapRequest {
	return &pdpb.BootstrapRequest{
		Header: p.Header(),
		Store:  &metapb.Store{Id: storeID, Address: addr},
		Region: &metapb.Region{Id: regionID, RegionEpoch: &metapb.RegionEpoch{ConfVer: 1, Version: 1},
			Peers: []*metapb.Peer{{Id: peerID, StoreId: storeID}}},
	}
}

// Bootstrap bootstraps the cluster with store 1 / region 2.
func (p *PD) Bootstrap() error {
	r, err := p.S.Bootstrap(context.Background(), p.BootstrapReq(1, 2, 3, "mock://1"))
	if err != nil {
		return err
	}
	if r.GetHeader().GetError() != nil {
		return fmt.Errorf("bootstrap: %v", r.GetHeader().GetError())
	}
	return nil
}
