// Package replh binds spec/replication/DRAutoSync.tla to replication.ModeManager.
package replh

import (
	"context"
	"encoding/json"
	"fmt"
	"math/rand"
	"sort"
	"sync"
	"time"

	"github.com/pingcap/kvproto/pkg/metapb"
	pb "github.com/pingcap/kvproto/pkg/replication_modepb"
	"github.com/tikv/pd/pkg/mock/mockcluster"
	"github.com/tikv/pd/pkg/typeutil"
	"github.com/tikv/pd/server/config"
	"github.com/tikv/pd/server/core"
	"github.com/tikv/pd/server/kv"
	"github.com/tikv/pd/server/replication"

	"pdverif/internal/cli"
	"pdverif/internal/faultkv"
	"pdverif/internal/trace"
)

func init() {
	cli.Register("repl dr", dr)
}

type recorder struct {
	mu    sync.Mutex
	calls int
	last  string
	fail  bool
}

func (r *recorder) ReplicateFileToAllMembers(ctx context.Context, name string, data []byte) error {
	r.mu.Lock()
	defer r.mu.Unlock()
	r.calls++
	r.last = string(data)
	if r.fail {
		return fmt.Errorf("verif: member unreachable")
	}
	return nil
}

const inf = 1000000

type reg struct {
	id, s, e int
	sid      uint64
	integ    bool
}

func key(k int) []byte {
	if k == 0 || k >= inf {
		return nil
	}
	return []byte(fmt.Sprintf("%07d", k))
}

func dr(args map[string]string) error {
	seed := int64(cli.Int(args, "seed", 1))
	nh := cli.Int(args, "histories", 40)
	nops := cli.Int(args, "ops", 80)
	big := cli.Int(args, "big", 0) // number of histories with more regions than one real scan batch
	w, err := trace.Create(args["out"])
	if err != nil {
		return err
	}
	defer w.Close()
	rng := rand.New(rand.NewSource(seed))
	for h := 0; h < nh+big; h++ {
		isBig := h >= nh
		if isBig {
			replication.VerifSetScanSizes(1024, 512)
		} else {
			replication.VerifSetScanSizes(4, 2)
		}
		ctx, cancel := context.WithCancel(context.Background())
		cluster := mockcluster.NewCluster(ctx, config.NewTestOptions())
		primary := []uint64{1, 2, 3}
		drs := []uint64{4, 5, 6}
		// every replica layout from 1+1 to 3+3 (the majority rule differs for even totals)
		prep, drep := 2, 1
		if rng.Intn(3) != 0 {
			prep, drep = 1+rng.Intn(3), 1+rng.Intn(3)
		}
		for _, id := range primary {
			cluster.AddLabelsStore(id, 1, map[string]string{"zone": "zone1"})
		}
		for _, id := range drs {
			cluster.AddLabelsStore(id, 1, map[string]string{"zone": "zone2"})
		}
		down := map[uint64]bool{}
		timeoutPassed := rng.Intn(4) != 0
		wat := time.Duration(0)
		if !timeoutPassed {
			wat = time.Hour
		}
		conf := config.ReplicationModeConfig{ReplicationMode: "dr-auto-sync", DRAutoSync: config.DRAutoSyncReplicationConfig{
			LabelKey: "zone", Primary: "zone1", DR: "zone2", PrimaryReplicas: prep, DRReplicas: drep,
			WaitStoreTimeout: typeutil.Duration{Duration: time.Minute}, WaitSyncTimeout: typeutil.Duration{Duration: time.Minute},
			WaitAsyncTimeout: typeutil.Duration{Duration: wat}}}
		fk := faultkv.New(kv.NewMemoryKV(), nil)
		storage := core.NewStorage(fk)
		rec := &recorder{}
		rep, err := replication.NewReplicationModeManager(conf, storage, cluster, rec)
		if err != nil {
			cancel()
			return err
		}
		// regions covering the key space
		var regs []*reg
		nextID := 100
		nreg := 1 + rng.Intn(6)
		if isBig {
			nreg = 1100 + rng.Intn(200)
		}
		for i := 0; i < nreg; i++ {
			r := &reg{id: nextID, s: i * 100, e: (i + 1) * 100}
			if i == nreg-1 {
				r.e = inf
			}
			nextID++
			regs = append(regs, r)
		}
		put := func(r *reg) {
			st := pb.RegionReplicationState_SIMPLE_MAJORITY
			if r.integ {
				st = pb.RegionReplicationState_INTEGRITY_OVER_LABEL
			}
			meta := &metapb.Region{Id: uint64(r.id), StartKey: key(r.s), EndKey: key(r.e), Peers: []*metapb.Peer{{Id: uint64(r.id*10 + 1), StoreId: 1}}}
			cluster.PutRegion(core.NewRegionInfo(meta, meta.Peers[0], core.SetReplicationStatus(&pb.RegionReplicationStatus{State: st, StateId: r.sid})))
		}
		// the mock cluster starts with no regions
		for _, r := range regs {
			put(r)
		}
		observe := func(ev trace.Ev) {
			st := rep.GetReplicationStatus()
			ev["mode"] = st.GetMode().String()
			ev["state"], ev["sid"] = "", 0
			if st.GetDrAutoSync() != nil {
				ev["state"], ev["sid"] = st.GetDrAutoSync().GetState().String(), int(st.GetDrAutoSync().GetStateId())
			}
			var stored struct {
				State   string `json:"state"`
				StateID uint64 `json:"state_id"`
			}
			ok, _ := storage.LoadReplicationStatus("dr-auto-sync", &stored)
			ev["stored_state"], ev["stored_sid"] = "", 0
			if ok {
				ev["stored_state"], ev["stored_sid"] = stored.State, int(stored.StateID)
			}
			var off struct {
				State   string `json:"state"`
				StateID uint64 `json:"state_id"`
			}
			rec.mu.Lock()
			json.Unmarshal([]byte(rec.last), &off)
			ev["offered_state"], ev["offered_sid"], ev["offered_calls"] = off.State, int(off.StateID), rec.calls
			rec.mu.Unlock()
			dp, dd := 0, 0
			for _, id := range primary {
				if down[id] {
					dp++
				}
			}
			for _, id := range drs {
				if down[id] {
					dd++
				}
			}
			ev["down_p"], ev["down_d"], ev["timeout_passed"] = dp, dd, timeoutPassed
			ev["prep"], ev["drep"] = prep, drep
			if !isBig {
				rs := [][]interface{}{}
				for _, r := range cluster.GetRegions() {
					e := inf
					var s int
					fmt.Sscanf(string(r.GetStartKey()), "%d", &s)
					if len(r.GetEndKey()) > 0 {
						fmt.Sscanf(string(r.GetEndKey()), "%d", &e)
					}
					rs = append(rs, []interface{}{s, e, int(r.GetReplicationStatus().GetStateId()),
						r.GetReplicationStatus().GetState() == pb.RegionReplicationState_INTEGRITY_OVER_LABEL})
				}
				sort.Slice(rs, func(i, j int) bool { return rs[i][0].(int) < rs[j][0].(int) })
				ev["regions"] = rs
			} else {
				// large region sets: summarised (the full list would be too big for the trace); all_ok is evaluated on the cache
				allok, cover := true, 0
				cur := 0
				rs := cluster.GetRegions()
				sort.Slice(rs, func(i, j int) bool { return string(rs[i].GetStartKey()) < string(rs[j].GetStartKey()) })
				sid := uint64(0)
				if st.GetDrAutoSync() != nil {
					sid = st.GetDrAutoSync().GetStateId()
				}
				_ = sid
				for _, r := range rs {
					var s int
					fmt.Sscanf(string(r.GetStartKey()), "%d", &s)
					e := inf
					if len(r.GetEndKey()) > 0 {
						fmt.Sscanf(string(r.GetEndKey()), "%d", &e)
					}
					if s != cur {
						allok = false
					}
					cur = e
					cover++
				}
				if cur != inf {
					allok = false
				}
				ev["regions"] = [][]interface{}{}
				ev["big_contiguous"] = allok
				ids := map[int]int{}
				for _, r := range rs {
					if r.GetReplicationStatus().GetState() == pb.RegionReplicationState_INTEGRITY_OVER_LABEL {
						ids[int(r.GetReplicationStatus().GetStateId())]++
					} else {
						ids[-1]++
					}
				}
				summary := [][]int{}
				for k, v := range ids {
					summary = append(summary, []int{k, v})
				}
				sort.Slice(summary, func(i, j int) bool { return summary[i][0] < summary[j][0] })
				ev["big_status"] = summary
			}
			ev["big"] = isBig
		}
		ev0 := trace.Ev{"beh": h, "mode_": "dr"}
		observe(ev0)
		w.Reset(ev0)
		curSid := func() uint64 {
			st := rep.GetReplicationStatus()
			if st.GetDrAutoSync() != nil {
				return st.GetDrAutoSync().GetStateId()
			}
			return 0
		}
		mode := "dr"
		for k := 0; k < nops; k++ {
			ev := trace.Ev{"beh": h, "step": k, "fail": false, "writes": 0}
			c := rng.Intn(100)
			switch {
			case c < 30:
				ev["ev"] = "Tick"
				if rng.Intn(6) == 0 {
					fk.Arm(1, false)
					ev["fail"] = true
				}
				rec.mu.Lock()
				rec.fail = rng.Intn(8) == 0
				ev["replicate_fails"] = rec.fail
				rec.mu.Unlock()
				rep.VerifTickDR()
				ev["writes"] = fk.Writes()
				fk.Arm(0, false)
			case c < 42:
				all := append(append([]uint64{}, primary...), drs...)
				id := all[rng.Intn(len(all))]
				if down[id] {
					ev["ev"] = "StoreUp"
					cluster.SetStoreUp(id)
					down[id] = false
				} else {
					ev["ev"] = "StoreDown"
					cluster.SetStoreDown(id)
					down[id] = true
				}
				ev["store"] = int(id)
			case c < 80:
				// region reports: mostly the right id, sometimes a stale id or no integrity
				ev["ev"] = "Report"
				n := 1
				if isBig || rng.Intn(3) == 0 {
					n = len(regs)
				}
				for j := 0; j < n; j++ {
					r := regs[rng.Intn(len(regs))]
					if n == len(regs) {
						r = regs[j]
					}
					switch x := rng.Intn(12); {
					case x == 0 && !isBig:
						if r.sid != curSid() { // a report never withdraws integrity under the current id (see DESIGN, C19)
							r.sid, r.integ = curSid()-1, true
						}
					case x == 1 && !isBig:
						if !(r.sid == curSid() && r.integ) {
							r.sid, r.integ = curSid(), false
						}
					default:
						r.sid, r.integ = curSid(), true
					}
					put(r)
				}
				if isBig && rng.Intn(2) == 0 {
					// leave one region behind somewhere beyond the first scan batch
					r := regs[1030+rng.Intn(60)]
					if !(r.sid == curSid() && r.integ) {
						r.integ = false
						put(r)
					}
				}
			case c < 88 && !isBig:
				ev["ev"] = "Split"
				i := rng.Intn(len(regs))
				r := regs[i]
				if r.e == inf || r.e-r.s < 2 {
					if r.e != inf {
						continue
					}
					// split the last region
					mid := r.s + 50
					nr := &reg{id: nextID, s: mid, e: inf, sid: r.sid, integ: r.integ}
					nextID++
					r.e = mid
					put(r)
					put(nr)
					regs = append(regs, nr)
				} else {
					mid := (r.s + r.e) / 2
					nr := &reg{id: nextID, s: mid, e: r.e, sid: r.sid, integ: r.integ}
					nextID++
					r.e = mid
					put(r)
					put(nr)
					regs = append(regs[:i+1], append([]*reg{nr}, regs[i+1:]...)...)
				}
			case c < 92 && !isBig:
				if len(regs) < 2 {
					continue
				}
				ev["ev"] = "Lose"
				// only a region that has not reported integrity under the current id (one that has is already counted)
				var cand []int
				for j, r := range regs {
					if !(r.sid == curSid() && r.integ) {
						cand = append(cand, j)
					}
				}
				if len(cand) == 0 {
					continue
				}
				i := cand[rng.Intn(len(cand))]
				if last := cand[len(cand)-1]; last == len(regs)-1 && rng.Intn(2) == 0 {
					i = last // the end of the key space is no longer covered
				}
				cluster.RemoveRegion(cluster.GetRegion(uint64(regs[i].id)))
				regs = append(regs[:i], regs[i+1:]...)
			case c < 96:
				ev["ev"] = "SwitchMode"
				nc := conf
				ev["mode_before"] = rep.GetReplicationStatus().GetMode().String()
				if mode == "dr" {
					nc.ReplicationMode = "majority"
				} else if rng.Intn(3) == 0 {
					// the switch back persists sync_recover first: that write (or the id allocation) fails
					fk.Arm(1, false)
					ev["fail"] = true
				}
				err := rep.UpdateConfig(nc)
				ev["writes"] = fk.Writes()
				fk.Arm(0, false)
				ev["err"] = err != nil
				if err == nil {
					mode = nc.ReplicationMode
					if mode != "majority" {
						mode = "dr"
					}
				}
			default:
				continue
			}
			observe(ev)
			w.Emit(ev)
		}
		cancel()
	}
	return nil
}
