// Package regionh binds spec/region/*.tla to server/core (RegionsInfo, BasicCluster) and server/cluster.
package regionh

import (
	"fmt"
	"math/rand"
	"sort"

	"github.com/pingcap/kvproto/pkg/metapb"
	"github.com/tikv/pd/server/core"

	"pdverif/internal/cli"
	"pdverif/internal/trace"
)

func init() {
	cli.Register("region index", index)
}

// Inf is the model's value for the unbounded end key.
const Inf = 1000001

// Key encodes a model key.
func Key(k int) []byte {
	if k == 0 || k >= Inf {
		return []byte("")
	}
	return []byte(fmt.Sprintf("k%06d", k))
}

type mreg struct {
	id, s, e, ld, size int
	vot, lrn, pen      []int
}

func (r *mreg) info() *core.RegionInfo {
	meta := &metapb.Region{Id: uint64(r.id), StartKey: Key(r.s), EndKey: Key(r.e), RegionEpoch: &metapb.RegionEpoch{Version: 1, ConfVer: 1}}
	var leader *metapb.Peer
	byStore := map[int]*metapb.Peer{}
	for _, st := range r.vot {
		// voters of every kind count as voters/followers/leaders: half of them carry a joint-consensus role
		role := []metapb.PeerRole{metapb.PeerRole_Voter, metapb.PeerRole_IncomingVoter, metapb.PeerRole_Voter, metapb.PeerRole_DemotingVoter}[(r.id*7+st*3+r.size)%4]
		p := &metapb.Peer{Id: uint64(r.id*100 + st), StoreId: uint64(st), Role: role}
		meta.Peers = append(meta.Peers, p)
		byStore[st] = p
		if st == r.ld {
			leader = p
		}
	}
	for _, st := range r.lrn {
		p := &metapb.Peer{Id: uint64(r.id*100 + st), StoreId: uint64(st), Role: metapb.PeerRole_Learner}
		meta.Peers = append(meta.Peers, p)
		byStore[st] = p
	}
	var pend []*metapb.Peer
	for _, st := range r.pen {
		pend = append(pend, byStore[st])
	}
	return core.NewRegionInfo(meta, leader, core.SetApproximateSize(int64(r.size)), core.WithPendingPeers(pend))
}

func (r *mreg) ev(beh int) trace.Ev {
	nn := func(x []int) []int {
		if x == nil {
			return []int{}
		}
		return x
	}
	return trace.Ev{"ev": "set", "beh": beh, "id": r.id, "s": r.s, "e": r.e, "ld": r.ld, "vot": nn(r.vot), "lrn": nn(r.lrn), "pen": nn(r.pen), "size": r.size}
}

type q struct {
	K string      `json:"k"`
	A []interface{} `json:"a"`
	V interface{} `json:"v"`
}

func rid(r *core.RegionInfo) int {
	if r == nil {
		return 0
	}
	return int(r.GetID())
}

func ids(rs []*core.RegionInfo) []int {
	out := []int{}
	for _, r := range rs {
		out = append(out, rid(r))
	}
	return out
}

func randPick(ri *core.RegionsInfo, store int, role string, s, e, n int) (out []int) {
	defer func() {
		if x := recover(); x != nil {
			out = append(out, -1) // the real code panicked
		}
	}()
	seen := map[int]bool{}
	ranges := []core.KeyRange{core.NewKeyRange(string(Key(s)), string(Key(e)))}
	for i := 0; i < n; i++ {
		var r *core.RegionInfo
		switch role {
		case "leader":
			r = ri.RandLeaderRegion(uint64(store), ranges)
		case "follower":
			r = ri.RandFollowerRegion(uint64(store), ranges)
		case "learner":
			r = ri.RandLearnerRegion(uint64(store), ranges)
		default:
			r = ri.RandPendingRegion(uint64(store), ranges)
		}
		if r != nil {
			seen[rid(r)] = true
		}
	}
	out = []int{}
	for k := range seen {
		out = append(out, k)
	}
	sort.Ints(out)
	return out
}

func subset(rng *rand.Rand, xs []int, min, max int) []int {
	p := rng.Perm(len(xs))
	n := min
	if max > min {
		n += rng.Intn(max - min + 1)
	}
	if n > len(xs) {
		n = len(xs)
	}
	out := []int{}
	for _, i := range p[:n] {
		out = append(out, xs[i])
	}
	sort.Ints(out)
	return out
}

func index(args map[string]string) error {
	seed := int64(cli.Int(args, "seed", 1))
	nh := cli.Int(args, "histories", 30)
	nops := cli.Int(args, "ops", 120)
	big := cli.Int(args, "big", 2)
	w, err := trace.Create(args["out"])
	if err != nil {
		return err
	}
	defer w.Close()
	rng := rand.New(rand.NewSource(seed))
	const K = 12
	stores := []int{1, 2, 3, 4}
	keyOf := func(i int) int {
		if i > K {
			return Inf
		}
		return i
	}
	for h := 0; h < nh; h++ {
		ri := core.NewRegionsInfo()
		model := map[int]*mreg{}
		w.Reset(trace.Ev{"beh": h, "mode": "index"})
		apply := func(r *mreg) {
			w.Emit(r.ev(h))
			ri.SetRegion(r.info())
			// mirror for the generator only (which ids exist, to pick mutation targets)
			for id, o := range model {
				if id != r.id && o.s < r.e && r.s < o.e {
					delete(model, id)
				}
			}
			model[r.id] = r
		}
		for k := 0; k < nops; k++ {
			var exist []int
			for id := range model {
				exist = append(exist, id)
			}
			sort.Ints(exist)
			c := rng.Intn(100)
			switch {
			case c < 45 || len(exist) == 0: // put: new id or changed range/peers
				r := &mreg{id: 1 + rng.Intn(9), size: 1 + rng.Intn(50)}
				r.s = rng.Intn(K + 1)
				r.e = keyOf(r.s + 1 + rng.Intn(4))
				if rng.Intn(7) == 0 {
					r.e = Inf
				}
				peers := subset(rng, stores, 1, 4)
				nl := 0
				if len(peers) > 1 && rng.Intn(3) == 0 {
					nl = 1
				}
				r.vot, r.lrn = peers[:len(peers)-nl], peers[len(peers)-nl:]
				r.ld = r.vot[rng.Intn(len(r.vot))]
				r.pen = subset(rng, peers, 0, 2)
				apply(r)
			case c < 85: // mutate one aspect of an existing region
				o := model[exist[rng.Intn(len(exist))]]
				r := &mreg{id: o.id, s: o.s, e: o.e, ld: o.ld, size: o.size, vot: append([]int{}, o.vot...), lrn: append([]int{}, o.lrn...), pen: append([]int{}, o.pen...)}
				peers := append(append([]int{}, r.vot...), r.lrn...)
				switch rng.Intn(7) {
				case 0:
					r.ld = r.vot[rng.Intn(len(r.vot))]
				case 1: // pending set of the same size, different members when possible
					n := len(r.pen)
					if n == 0 {
						n = 1
					}
					r.pen = subset(rng, peers, n, n)
				case 2:
					r.size = 1 + rng.Intn(50)
				case 3: // same range, new peers
					np := subset(rng, stores, 1, 4)
					r.vot, r.lrn, r.pen = np, nil, nil
					r.ld = np[rng.Intn(len(np))]
				case 4: // grow (may swallow neighbours)
					if r.e < Inf {
						r.e = keyOf(r.e + 1 + rng.Intn(5))
					}
					if r.s > 0 && rng.Intn(2) == 0 {
						r.s -= 1 + rng.Intn(r.s)
					}
				case 5: // shrink
					if r.e == Inf {
						r.e = keyOf(r.s + 1 + rng.Intn(3))
					} else if r.e-r.s > 1 {
						r.e--
					}
				case 6: // one peer moves to a store that holds none and keeps its role (the numbers per role stay the same)
					var free []int
					for _, st := range stores {
						held := false
						for _, x := range peers {
							held = held || x == st
						}
						if !held {
							free = append(free, st)
						}
					}
					if len(free) > 0 {
						to := free[rng.Intn(len(free))]
						list := &r.vot
						if len(r.lrn) > 0 && (rng.Intn(2) == 0 || len(r.vot) == 1) {
							list = &r.lrn
						}
						var cand []int
						for i, st := range *list {
							if st != r.ld {
								cand = append(cand, i)
							}
						}
						if len(cand) > 0 {
							i := cand[rng.Intn(len(cand))]
							from := (*list)[i]
							(*list)[i] = to
							for j, st := range r.pen {
								if st == from {
									r.pen[j] = to
								}
							}
						}
					}
				}
				apply(r)
			default:
				id := exist[rng.Intn(len(exist))]
				w.Emit(trace.Ev{"ev": "remove", "beh": h, "id": id})
				ri.RemoveRegion(ri.GetRegion(uint64(id)))
				delete(model, id)
			}
			// answers of the real index
			var qs []q
			for key := 0; key <= K; key++ {
				qs = append(qs, q{"search", []interface{}{key}, rid(ri.SearchRegion(Key(key)))})
				qs = append(qs, q{"prev", []interface{}{key}, rid(ri.SearchPrevRegion(Key(key)))})
			}
			qs = append(qs, q{"count", []interface{}{}, []int{ri.Len(), ri.TreeLen()}})
			for _, st := range stores {
				u := uint64(st)
				qs = append(qs, q{"leaders", []interface{}{st}, []int{ri.GetStoreLeaderCount(u), int(ri.GetStoreLeaderRegionSize(u))}})
				qs = append(qs, q{"followers", []interface{}{st}, []int{ri.GetStoreFollowerCount(u), int(ri.GetStoreFollowerRegionSize(u))}})
				qs = append(qs, q{"learners", []interface{}{st}, []int{ri.GetStoreLearnerCount(u), int(ri.GetStoreLearnerRegionSize(u))}})
				qs = append(qs, q{"pending", []interface{}{st}, []int{ri.GetStorePendingPeerCount(u)}})
				qs = append(qs, q{"storeregions", []interface{}{st}, []int{ri.GetStoreRegionCount(u), int(ri.GetStoreRegionSize(u))}})
				for _, role := range []string{"leader", "follower", "learner", "pending"} {
					s := rng.Intn(K)
					e := keyOf(s + 1 + rng.Intn(K))
					qs = append(qs, q{"rand", []interface{}{st, role, 0, Inf}, randPick(ri, st, role, 0, Inf, 12)})
					qs = append(qs, q{"rand", []interface{}{st, role, s, e}, randPick(ri, st, role, s, e, 12)})
				}
			}
			for i := 0; i < 3; i++ {
				s := rng.Intn(K + 1)
				e := keyOf(s + 1 + rng.Intn(K))
				lim := rng.Intn(4)
				qs = append(qs, q{"scan", []interface{}{s, e, lim}, ids(ri.ScanRange(Key(s), Key(e), lim))})
				probe := &mreg{id: 999, s: s, e: e, ld: 1, vot: []int{1}, size: 1}
				qs = append(qs, q{"overlaps", []interface{}{s, e}, ids(ri.GetOverlaps(probe.info()))})
			}
			for id := range model {
				if r := ri.GetRegion(uint64(id)); r != nil {
					p, n := ri.GetAdjacentRegions(r)
					qs = append(qs, q{"adj", []interface{}{id}, []int{rid(p), rid(n)}})
				}
			}
			w.Emit(trace.Ev{"ev": "q", "beh": h, "step": k, "qs": qs})
		}
	}
	// large key space: grow past several B-tree nodes, shrink, regrow; rank-based random picks at checkpoints
	for b := 0; b < big; b++ {
		ri := core.NewRegionsInfo()
		h := nh + b
		w.Reset(trace.Ev{"beh": h, "mode": "big"})
		n := 200 + rng.Intn(150)
		present := map[int]bool{}
		put := func(i int) {
			r := &mreg{id: i, s: i, e: i + 1, ld: 1 + i%2, vot: []int{1, 2}, lrn: []int{3}, pen: []int{1 + i%3}, size: 1 + i%7}
			w.Emit(r.ev(h))
			ri.SetRegion(r.info())
			present[i] = true
		}
		check := func() {
			var qs []q
			qs = append(qs, q{"count", []interface{}{}, []int{ri.Len(), ri.TreeLen()}})
			for _, st := range []int{1, 2, 3} {
				u := uint64(st)
				qs = append(qs, q{"leaders", []interface{}{st}, []int{ri.GetStoreLeaderCount(u), int(ri.GetStoreLeaderRegionSize(u))}})
				qs = append(qs, q{"pending", []interface{}{st}, []int{ri.GetStorePendingPeerCount(u)}})
			}
			for i := 0; i < 40; i++ {
				s := 1 + rng.Intn(n)
				e := s + 1 + rng.Intn(3)
				role := []string{"leader", "follower", "learner", "pending"}[rng.Intn(4)]
				st := 1 + rng.Intn(3)
				qs = append(qs, q{"rand", []interface{}{st, role, s, e}, randPick(ri, st, role, s, e, 6)})
				qs = append(qs, q{"search", []interface{}{s}, rid(ri.SearchRegion(Key(s)))})
				qs = append(qs, q{"scan", []interface{}{s, e, 0}, ids(ri.ScanRange(Key(s), Key(e), 0))})
			}
			w.Emit(trace.Ev{"ev": "q", "beh": h, "step": 0, "qs": qs})
		}
		for i := 1; i <= n; i++ {
			put(i)
		}
		check()
		order := rng.Perm(n)
		for _, j := range order[:n-50-rng.Intn(30)] {
			i := j + 1
			w.Emit(trace.Ev{"ev": "remove", "beh": h, "id": i})
			ri.RemoveRegion(ri.GetRegion(uint64(i)))
			delete(present, i)
		}
		check()
		for i := 1; i <= n; i++ {
			if !present[i] {
				put(i)
			}
		}
		check()
	}
	return nil
}
