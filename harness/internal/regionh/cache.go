package regionh

import (
	"fmt"
	"sort"
	"time"

	"github.com/pingcap/kvproto/pkg/metapb"
	"github.com/pingcap/kvproto/pkg/pdpb"
	"github.com/tikv/pd/server/cluster"
	"github.com/tikv/pd/server/core"

	"pdverif/internal/cli"
	"pdverif/internal/gate"
	"pdverif/internal/pdserver"
	"pdverif/internal/trace"
)

func init() {
	cli.Register("region cache", cacheReplay)
}

const wait = 20 * time.Second

type hb struct{ id, s, e, ver, conf, term int }

func keyInf(k, inf int) []byte {
	if k == 0 || k >= inf {
		return []byte("")
	}
	return []byte(fmt.Sprintf("k%06d", k))
}

func unkey(b []byte, end bool, inf int) int {
	if len(b) == 0 {
		if end {
			return inf
		}
		return 0
	}
	var k int
	fmt.Sscanf(string(b), "k%06d", &k)
	return k
}

func (h hb) info(inf int) *core.RegionInfo {
	meta := &metapb.Region{Id: uint64(h.id), StartKey: keyInf(h.s, inf), EndKey: keyInf(h.e, inf),
		RegionEpoch: &metapb.RegionEpoch{Version: uint64(h.ver), ConfVer: uint64(h.conf)}}
	// three voters; the leader is the peer with index term mod 3 (see RegionCache.tla, Leader)
	for st := 1; st <= 3; st++ {
		meta.Peers = append(meta.Peers, &metapb.Peer{Id: uint64(h.id*10 + st), StoreId: uint64(st)})
	}
	leader := meta.Peers[h.term%len(meta.Peers)]
	// exactly what the gRPC heartbeat stream builds
	return core.RegionFromHeartbeat(&pdpb.RegionHeartbeatRequest{Region: meta, Leader: leader, Term: uint64(h.term), ApproximateSize: 10 << 20})
}

func hbFrom(v interface{}) hb {
	m := v.(map[string]interface{})
	g := func(k string) int { return int(m[k].(float64)) }
	return hb{g("id"), g("s"), g("e"), g("ver"), g("conf"), g("term")}
}

func snapshot(rs []*core.RegionInfo, inf int) [][]int {
	out := [][]int{}
	for _, r := range rs {
		out = append(out, []int{int(r.GetID()), unkey(r.GetStartKey(), false, inf), unkey(r.GetEndKey(), true, inf),
			int(r.GetRegionEpoch().GetVersion()), int(r.GetRegionEpoch().GetConfVer()), int(r.GetTerm())})
	}
	sort.Slice(out, func(i, j int) bool { return out[i][0] < out[j][0] })
	return out
}

// cacheReplay drives processRegionHeartbeat of a real RaftCluster (in-process server) through TLC behaviours
// of RegionCache.tla; concurrent handlers are parked at the hook between the lock-free pre-check and the
// cluster lock.
func cacheReplay(args map[string]string) error {
	var behs [][]cli.Step
	if err := cli.ReadJSON(args["in"], &behs); err != nil {
		return err
	}
	inf := cli.Int(args, "inf", 7)
	w, err := trace.Create(args["out"])
	if err != nil {
		return err
	}
	defer w.Close()
	sched := gate.New()
	pd, err := pdserver.Start(nil, false)
	if err != nil {
		return err
	}
	defer func() { pd.Close() }()
	if err := pd.Bootstrap(); err != nil {
		return err
	}
	rc := pd.S.GetRaftCluster()
	for st := uint64(2); st <= 3; st++ {
		if err := rc.PutStore(&metapb.Store{Id: st, Address: fmt.Sprintf("mock://%d", st), Version: "5.0.0"}); err != nil {
			return err
		}
	}
	cluster.VerifGate = func(point string) { sched.At("gate", point, "") }
	storage := pd.S.GetStorage()
	stored := func() [][]int {
		storage.Flush()
		var rs []*core.RegionInfo
		storage.LoadRegions(func(r *core.RegionInfo) []*core.RegionInfo { rs = append(rs, r); return nil })
		out := snapshot(rs, inf)
		for _, x := range out {
			x[5] = 0 // the term is not persisted
		}
		return out
	}
	wipe := func() {
		for _, r := range rc.GetRegions() {
			pd.S.GetBasicCluster().RemoveRegion(r)
			storage.DeleteRegion(r.GetMeta())
		}
		storage.Flush()
		var rs []*core.RegionInfo
		storage.LoadRegions(func(r *core.RegionInfo) []*core.RegionInfo { rs = append(rs, r); return nil })
		for _, r := range rs {
			storage.DeleteRegion(r.GetMeta())
		}
		storage.Flush()
	}
	for bi, beh := range behs {
		wipe()
		idOff := 0
		w.Reset(trace.Ev{"beh": bi, "mode": "replay", "inf": inf, "cache": snapshot(rc.GetRegions(), inf), "stored": stored()})
		procs := map[string]*gate.Proc{}
		hbs := map[string]hb{}
		maxInflight := 0
		for si, st := range beh {
			if si == 0 {
				continue
			}
			act := st.Action
			ev := trace.Ev{"beh": bi, "step": si, "p": "", "h": []int{}, "res": ""}
			if act == "Next" || act == "PreCheck" {
				// a delivery: handler and heartbeat are recorded in the ghost variable `last`
				last := st.State["last"].([]interface{})
				p := last[0].(string)
				h := hbFrom(last[1])
				h.id += idOff
				ev["ev"], ev["p"], ev["h"] = "PreCheck", p, []int{h.id, h.s, h.e, h.ver, h.conf, h.term}
				if old := procs[p]; old != nil {
					// the model says this handler is idle (its previous heartbeat was answered at the pre-check) but the real
					// handler went on to the lock: let it finish first and record what it did
					if err := old.Finish2(gate.Proceed, wait); err != nil {
						return err
					}
					oh := hbs[p]
					res := "ok"
					if old.Err != nil {
						res = "stale"
					}
					delete(procs, p)
					w.Emit(trace.Ev{"ev": "Commit", "beh": bi, "step": si, "p": p, "h": []int{oh.id, oh.s, oh.e, oh.ver, oh.conf, oh.term}, "res": res,
						"inflight": len(procs), "cache": snapshot(rc.GetRegions(), inf), "drift": true})
				}
				region := h.info(inf)
				pr := sched.Go(p, func() (interface{}, error) { return nil, rc.VerifProcessRegionHeartbeat(region) })
				_, done, err := pr.Next(wait)
				if err != nil {
					return err
				}
				if done {
					if pr.Err != nil {
						ev["res"] = "stale"
					} else {
						ev["res"] = "noop"
					}
				} else {
					ev["res"] = "parked"
					procs[p], hbs[p] = pr, h
				}
			} else if act == "Commit" {
				p := st.Str(0)
				pr := procs[p]
				ev["ev"], ev["p"] = "Commit", p
				if pr == nil {
					ev["ev"], ev["res"] = "drift", "no handler parked"
				} else {
					h := hbs[p]
					ev["h"] = []int{h.id, h.s, h.e, h.ver, h.conf, h.term}
					if err := pr.Finish2(gate.Proceed, wait); err != nil {
						return err
					}
					delete(procs, p)
					if pr.Err != nil {
						ev["res"] = "stale"
					} else {
						ev["res"] = "ok"
					}
				}
			} else if act == "Restart" {
				// the PD process stops and a new one starts on the same data: the cluster is loaded back from storage, regions have
				// no leader until they report
				ev["ev"] = "Restart"
				np, err := pd.Restart() // closing the server flushes the region storage
				if err != nil {
					return err
				}
				pd = np
				dl := time.Now().Add(20 * time.Second)
				for (pd.S.GetRaftCluster() == nil || !pd.S.GetRaftCluster().IsRunning()) && time.Now().Before(dl) {
					time.Sleep(20 * time.Millisecond)
				}
				rc = pd.S.GetRaftCluster()
				if rc == nil || !rc.IsRunning() {
					return fmt.Errorf("no cluster after the restart")
				}
				storage = pd.S.GetStorage()
			} else {
				// StoreOps (folded into Commit by the binding) and ground-truth steps: nothing to drive
				ev["ev"] = act
			}
			if len(procs) > maxInflight {
				maxInflight = len(procs)
			}
			if len(procs) == 1 && (ev["ev"] == "PreCheck" && ev["res"] == "parked") {
				// fine: sequential two-phase
			}
			ev["inflight"] = len(procs)
			ev["cache"] = snapshot(rc.GetRegions(), inf)
			w.Emit(ev)
			// the background flusher of the region storage runs at some point of the history (never / half-way / after
			// every second or third step): later changes of a flushed region are pending writes again when it is displaced
			if (bi%4 == 1 && si == len(beh)/2) || (bi%4 == 2 && si%2 == 0) || (bi%4 == 3 && si%3 == 0) {
				storage.Flush()
			}
		}
		for p, pr := range procs {
			if err := pr.Finish2(gate.Proceed, wait); err != nil {
				return err
			}
			h := hbs[p]
			res := "ok"
			if pr.Err != nil {
				res = "stale"
			}
			w.Emit(trace.Ev{"ev": "Commit", "beh": bi, "step": len(beh), "p": p, "h": []int{h.id, h.s, h.e, h.ver, h.conf, h.term}, "res": res,
				"inflight": 0, "cache": snapshot(rc.GetRegions(), inf)})
		}
		w.Emit(trace.Ev{"ev": "end", "beh": bi, "step": len(beh) + 1, "p": "", "h": []int{}, "res": "", "inflight": 0,
			"cache": snapshot(rc.GetRegions(), inf), "stored": stored(), "concurrent": maxInflight > 1})
	}
	return nil
}
