package checkerh

import (
	"context"
	"encoding/hex"
	"math/rand"
	"sort"
	"time"

	"github.com/pingcap/kvproto/pkg/metapb"
	"github.com/pingcap/kvproto/pkg/pdpb"
	"github.com/tikv/pd/pkg/codec"
	"github.com/tikv/pd/pkg/mock/mockcluster"
	"github.com/tikv/pd/server/config"
	"github.com/tikv/pd/server/core"
	"github.com/tikv/pd/server/schedule/checker"
	"github.com/tikv/pd/server/schedule/opt"
	"github.com/tikv/pd/server/schedule/placement"
	"github.com/tikv/pd/server/statistics"
	"github.com/tikv/pd/server/versioninfo"

	"pdverif/internal/cli"
	"pdverif/internal/operatorh"
	"pdverif/internal/trace"
)

func init() {
	cli.Register("checker merge", merge)
}

// merge records what the real MergeChecker proposes for every region of seeded key spaces.
func merge(args map[string]string) error {
	seed := int64(cli.Int(args, "seed", 1))
	n := cli.Int(args, "cases", 300)
	w, err := trace.Create(args["out"])
	if err != nil {
		return err
	}
	defer w.Close()
	w.Reset(trace.Ev{"beh": 0, "mode": "merge"})
	cnt, proposed := 0, 0
	for c := 0; c < n; c++ {
		rng := rand.New(rand.NewSource(seed*999983 + int64(c)))
		ctx, cancel := context.WithCancel(context.Background())
		cl := mockcluster.NewCluster(ctx, config.NewTestOptions())
		if rng.Intn(2) == 0 {
			cl.DisableFeature(versioninfo.JointConsensus)
		}
		rulesMode := rng.Intn(3) == 0
		keyType := []string{"table", "raw", "txn"}[rng.Intn(3)]
		pc := cl.GetOpts().GetPDServerConfig().Clone()
		pc.KeyType = keyType
		cl.GetOpts().SetPDServerConfig(pc)
		crossTable := rng.Intn(2) == 0
		sc := cl.GetOpts().GetScheduleConfig().Clone()
		sc.EnableCrossTableMerge = crossTable
		cl.GetOpts().SetScheduleConfig(sc)
		oneWay := rng.Intn(3) == 0
		cl.SetEnableOneWayMerge(oneWay)
		maxSize, maxKeys := 20, 200000
		cl.SetMaxMergeRegionSize(maxSize)
		cl.SetMaxMergeRegionKeys(maxKeys)
		cl.SetMaxReplicas(3)
		cl.SetHotRegionCacheHitsThreshold(0)
		for i := 1; i <= 6; i++ {
			cl.AddLabelsStore(uint64(i), 10, map[string]string{"zone": []string{"z1", "z2", "z3"}[i%3]})
		}
		cl.SetEnablePlacementRules(rulesMode)
		// boundaries: some inside a table, some between tables
		nreg := 3 + rng.Intn(5)
		bounds := [][]byte{[]byte("")}
		table, row := int64(1), 0
		for i := 1; i < nreg; i++ {
			if rng.Intn(2) == 0 {
				table++
				row = 0
			} else {
				row++
			}
			k := codec.GenerateTableKey(table)
			if row > 0 {
				k = append(k, []byte{'_', 'r', byte('0' + row)}...)
			}
			bounds = append(bounds, codec.EncodeBytes(k))
		}
		bounds = append(bounds, []byte(""))
		if rulesMode && rng.Intn(2) == 0 && nreg > 2 {
			// a rule that starts at one of the boundaries: no merge across it
			b := bounds[1+rng.Intn(nreg-1)]
			_ = cl.GetRuleManager().SetRule(&placement.Rule{GroupID: "verif", ID: "tail", Role: placement.Voter, Count: 3,
				StartKeyHex: hex.EncodeToString(b), EndKeyHex: "", Override: true, Index: 1})
		}
		mc := checker.NewMergeChecker(ctx, cl)
		cl.SetSplitMergeInterval(time.Hour)
		var regions []*core.RegionInfo
		split := map[uint64]bool{}
		hot := map[uint64]bool{}
		shared := rng.Perm(6)[:3]
		id := uint64(5000)
		for r := 1; r <= nreg; r++ {
			stores := shared
			if rng.Intn(3) == 0 {
				stores = rng.Perm(6)[:3]
			}
			np := 3
			if rng.Intn(8) == 0 {
				np = 2 + rng.Intn(3)*0
			}
			var peers []*metapb.Peer
			for i := 0; i < np; i++ {
				id++
				p := &metapb.Peer{Id: id, StoreId: uint64(stores[i] + 1)}
				if i == 2 && rng.Intn(10) == 0 {
					p.Role = metapb.PeerRole_Learner
				}
				peers = append(peers, p)
			}
			var down []*pdpb.PeerStats
			var pend []*metapb.Peer
			if rng.Intn(10) == 0 {
				down = append(down, &pdpb.PeerStats{Peer: peers[1], DownSeconds: 3600})
			}
			if rng.Intn(10) == 0 {
				pend = append(pend, peers[1])
			}
			size := int64(rng.Intn(4) * rng.Intn(12))
			if rng.Intn(12) == 0 {
				size = 600
			}
			reg := core.NewRegionInfo(&metapb.Region{Id: uint64(r), StartKey: bounds[r-1], EndKey: bounds[r], Peers: peers,
				RegionEpoch: &metapb.RegionEpoch{ConfVer: 5, Version: 5}}, peers[0], core.WithDownPeers(down), core.WithPendingPeers(pend),
				core.SetApproximateSize(size), core.SetApproximateKeys(size*1000))
			if rng.Intn(10) == 0 {
				bytes := uint64(64 * 1024 * 1024 * 10)
				reg = reg.Clone(core.SetWrittenBytes(bytes), core.SetWrittenKeys(bytes/100), core.SetReportInterval(10))
				for i := 0; i < cl.HotCache.GetFilledPeriod(statistics.WriteFlow); i++ {
					for _, item := range cl.CheckRegionWrite(reg) {
						cl.HotCache.Update(item)
					}
				}
			}
			cl.PutRegion(reg)
			regions = append(regions, reg)
			if rng.Intn(10) == 0 {
				mc.RecordRegionSplit([]uint64{uint64(r)})
				split[uint64(r)] = true
			}
		}
		cl.SetSplitMergeInterval(0) // the checker has been running for long enough; the recorded splits stay recent
		for _, r := range regions {
			hot[r.GetID()] = cl.IsRegionHot(r)
		}
		var jregs []trace.Ev
		for i, r := range regions {
			_, dl, ds, pend := RegionRecs(cl, r)
			between := 0
			if i+1 < len(regions) && rulesMode {
				between = len(cl.GetRuleManager().GetSplitKeys(r.GetStartKey(), regions[i+1].GetEndKey()))
			}
			jregs = append(jregs, trace.Ev{"id": int(r.GetID()), "size": int(r.GetApproximateSize()), "keys": int(r.GetApproximateKeys()),
				"peers": operatorh.PeersRec(r.GetPeers()), "leader": int(r.GetLeader().GetStoreId()), "down": len(dl) + len(ds), "pending": len(pend),
				"learners": len(r.GetLearners()), "hot": hot[r.GetID()], "split": split[r.GetID()], "replicated": opt.IsRegionReplicated(cl, r),
				"table": int(codec.Key(r.GetStartKey()).TableID()), "rule_keys_to_next": between})
		}
		for _, r := range regions {
			ops := mc.Check(r)
			cnt++
			ev := trace.Ev{"ev": "merge", "n": cnt, "case": c, "checked": int(r.GetID()), "regions": jregs,
				"cfg": trace.Ev{"max_size": maxSize, "max_keys": maxKeys, "one_way": oneWay, "key_type": keyType, "rules": rulesMode, "cross_table": crossTable},
				"has_op": len(ops) > 0, "target": 0, "steps": []trace.Ev{}, "passive": []trace.Ev{}, "nops": len(ops)}
			if len(ops) == 2 {
				proposed++
				ev["source"], ev["target"] = int(ops[0].RegionID()), int(ops[1].RegionID())
				_, ev["steps"] = OpRec(ops[0])
				_, ev["passive"] = OpRec(ops[1])
			}
			w.Emit(ev)
		}
		_ = sort.Ints
		cancel()
	}
	w.Emit(trace.Ev{"ev": "summary", "checked": cnt, "merges_proposed": proposed})
	return nil
}
