package checkerh

import (
	"context"
	"math/rand"
	"sort"

	"github.com/pingcap/kvproto/pkg/metapb"
	"github.com/pingcap/kvproto/pkg/pdpb"
	"github.com/tikv/pd/pkg/mock/mockcluster"
	"github.com/tikv/pd/server/config"
	"github.com/tikv/pd/server/core"
	"github.com/tikv/pd/server/core/storelimit"
	"github.com/tikv/pd/server/schedule"
	"github.com/tikv/pd/server/schedule/operator"
	"github.com/tikv/pd/server/versioninfo"

	"pdverif/internal/cli"
	"pdverif/internal/operatorh"
	"pdverif/internal/trace"
)

func init() {
	cli.Register("checker loop", loop)
}

// prune drops down/pending entries of peers that no longer exist (the leader reports only current peers).
func prune(r *core.RegionInfo) *core.RegionInfo {
	var down []*pdpb.PeerStats
	for _, d := range r.GetDownPeers() {
		if p := r.GetPeer(d.GetPeer().GetId()); p != nil {
			down = append(down, d)
		}
	}
	var pend []*metapb.Peer
	for _, p := range r.GetPendingPeers() {
		if q := r.GetPeer(p.GetId()); q != nil {
			pend = append(pend, q)
		}
	}
	return r.Clone(core.WithDownPeers(down), core.WithPendingPeers(pend))
}

// loop closes the circle checker -> operator controller -> stores -> heartbeat -> checker on one region until the
// checker has nothing left to repair.
func loop(args map[string]string) error {
	seed := int64(cli.Int(args, "seed", 1))
	n := cli.Int(args, "cases", 300)
	maxOps := cli.Int(args, "maxops", 16)
	w, err := trace.Create(args["out"])
	if err != nil {
		return err
	}
	defer w.Close()
	stats := map[string]int{}
	for c := 0; c < n; c++ {
		rng := rand.New(rand.NewSource(seed*15485863 + int64(c)))
		ctx, cancel := context.WithCancel(context.Background())
		cl := mockcluster.NewCluster(ctx, config.NewTestOptions())
		rulesMode := rng.Intn(2) == 0
		joint := rng.Intn(2) == 0
		if !joint {
			cl.DisableFeature(versioninfo.JointConsensus)
		}
		maxRep := 1 + rng.Intn(5)
		loc := [][]string{{}, {"zone"}, {"zone", "host"}, {"zone", "host"}}[rng.Intn(4)]
		iso := ""
		if len(loc) > 0 && rng.Intn(3) == 0 {
			iso = loc[rng.Intn(len(loc))]
		}
		cl.SetMaxReplicas(maxRep)
		cl.SetLocationLabels(loc)
		cl.SetIsolationLevel(iso)
		for i := 0; i < 3000; i++ {
			_, _ = cl.AllocID()
		}
		ids := GenStores(rng, cl, rulesMode)
		for _, id := range ids {
			cl.SetStoreLimit(id, storelimit.AddPeer, 60000)
			cl.SetStoreLimit(id, storelimit.RemovePeer, 60000)
		}
		jrules := []trace.Ev{}
		cl.SetEnablePlacementRules(rulesMode)
		if rulesMode {
			if _, jrules, err = GenRules(rng, cl); err != nil {
				stats["rule set refused"]++
				cancel()
				continue
			}
		}
		region := GenRegion(rng, cl, ids, 1, 5)
		if region == nil {
			cancel()
			continue
		}
		if joint && rng.Intn(5) == 0 {
			// the region is found in the joint state (an earlier operator was interrupted between enter and leave)
			var ps []*metapb.Peer
			changed := false
			for _, p := range region.GetPeers() {
				q := *p
				switch {
				case q.Role == metapb.PeerRole_Learner && rng.Intn(2) == 0:
					q.Role, changed = metapb.PeerRole_IncomingVoter, true
				case q.Role == metapb.PeerRole_Voter && q.Id != region.GetLeader().GetId() && rng.Intn(3) == 0:
					q.Role, changed = metapb.PeerRole_DemotingVoter, true
				}
				ps = append(ps, &q)
			}
			if changed {
				nr := region.Clone(core.SetPeers(ps))
				for _, p := range ps {
					if p.Id == region.GetLeader().GetId() {
						nr = nr.Clone(core.WithLeader(p))
					}
				}
				region = prune(nr)
				cl.PutRegion(region)
				stats["start-in-joint-state"]++
			}
		}
		hub := operatorh.NewHub(ctx, cl, ids)
		oc := schedule.NewOperatorController(ctx, cl, hub.HB)
		cc := schedule.NewCheckerController(ctx, cl, cl.GetRuleManager(), oc)
		var jstores []trace.Ev
		for _, s := range cl.GetStores() {
			jstores = append(jstores, StoreRec(cl, s))
		}
		sort.Slice(jstores, func(i, j int) bool { return jstores[i]["id"].(int) < jstores[j]["id"].(int) })
		w.Reset(trace.Ev{"beh": c, "rules_mode": rulesMode, "joint": joint, "cfg": trace.Ev{"max": maxRep, "location": loc, "isolation": iso},
			"stores": jstores, "rules": jrules})
		truth := region
		snap := func(ev string, extra trace.Ev) {
			_, dl, ds, pend := RegionRecs(cl, truth)
			e := trace.Ev{"ev": ev, "region": operatorh.RegionRec(truth), "down_long": dl, "down_short": ds, "pending": pend}
			for k, v := range extra {
				e[k] = v
			}
			w.Emit(e)
		}
		snap("start", nil)
		end := "exhausted"
		disturbed := false
		for it := 0; it < maxOps; it++ {
			if !disturbed && it > 0 && rng.Intn(6) == 0 {
				// a store that holds a peer fails between two operators: the repair starts over from there
				ps := truth.GetPeers()
				p := ps[rng.Intn(len(ps))]
				if p.Id != truth.GetLeader().GetId() && cl.GetStore(p.StoreId).IsUp() {
					disturbed = true
					if rng.Intn(2) == 0 {
						cl.SetStoreOffline(p.StoreId)
					} else {
						cl.SetStoreDown(p.StoreId)
						truth = truth.Clone(core.WithDownPeers(append(truth.GetDownPeers(), &pdpb.PeerStats{Peer: p, DownSeconds: 24 * 3600})))
						cl.PutRegion(truth)
					}
					var js []trace.Ev
					for _, s := range cl.GetStores() {
						js = append(js, StoreRec(cl, s))
					}
					sort.Slice(js, func(i, j int) bool { return js[i]["id"].(int) < js[j]["id"].(int) })
					snap("disturb", trace.Ev{"stores": js, "store": int(p.StoreId)})
					stats["disturbed"]++
				}
			}
			ops := cc.CheckRegion(cl.GetRegion(1))
			if len(ops) == 0 {
				end = "fixpoint"
				break
			}
			desc, steps := OpRec(ops[0])
			ok := oc.AddOperator(ops...)
			snap("propose", trace.Ev{"desc": desc, "steps": steps, "admitted": ok, "n": it})
			stats[desc]++
			if !ok {
				end = "not-admitted"
				break
			}
			for k := 0; k < 40 && oc.GetOperator(1) != nil; k++ {
				for _, m := range hub.Settle() {
					truth = prune(operatorh.ApplyCmd(truth, m.Store, m.Msg))
				}
				cl.PutRegion(truth)
				oc.Dispatch(truth, schedule.DispatchFromHeartBeat)
				snap("hb", trace.Ev{"running": oc.GetOperator(1) != nil})
			}
			hub.Settle()
			st := operator.OpStatusToString(ops[0].Status())
			if oc.GetOperator(1) != nil {
				oc.RemoveOperator(ops[0])
				st = "Stuck"
			}
			snap("ended", trace.Ev{"status": st, "desc": desc})
			stats["ended-"+st]++
		}
		snap("end", trace.Ev{"how": end})
		stats[end]++
		cancel()
	}
	sum := trace.Ev{"ev": "summary"}
	for k, v := range stats {
		sum[k] = v
	}
	w.Emit(sum)
	return nil
}
