// Package checkerh binds spec/checker/Repair.tla to the replica checker and the placement-rule checker.
package checkerh

import (
	"context"
	"fmt"
	"math/rand"
	"sort"
	"time"

	"github.com/pingcap/kvproto/pkg/metapb"
	"github.com/pingcap/kvproto/pkg/pdpb"
	"github.com/tikv/pd/pkg/cache"
	"github.com/tikv/pd/pkg/mock/mockcluster"
	"github.com/tikv/pd/server/config"
	"github.com/tikv/pd/server/core"
	"github.com/tikv/pd/server/schedule/checker"
	"github.com/tikv/pd/server/schedule/operator"
	"github.com/tikv/pd/server/schedule/placement"
	"github.com/tikv/pd/server/core/storelimit"
	"github.com/tikv/pd/server/versioninfo"

	"pdverif/internal/cli"
	"pdverif/internal/operatorh"
	"pdverif/internal/trace"
)

func init() {
	cli.Register("checker repair", repair)
}

// StoreRec is the trace record of a store as the filters see it.
func StoreRec(c *mockcluster.Cluster, s *core.StoreInfo) trace.Ev {
	jl := [][]string{}
	for _, l := range s.GetLabels() {
		jl = append(jl, []string{l.Key, l.Value})
	}
	sort.Slice(jl, func(i, j int) bool { return jl[i][0] < jl[j][0] })
	state := "Up"
	if s.IsOffline() {
		state = "Offline"
	} else if s.IsTombstone() {
		state = "Tombstone"
	}
	opts := c.GetOpts()
	return trace.Ev{"id": int(s.GetID()), "labels": jl, "state": state,
		"down":    s.DownTime() > opts.GetMaxStoreDownTime(),
		"disc":    s.IsDisconnected(),
		"busy":    s.IsBusy(),
		"low":     s.IsLowSpace(opts.GetLowSpaceRatio()),
		"regions": s.GetRegionCount(),
		"snap":    uint64(s.GetSendingSnapCount()) > opts.GetMaxSnapshotCount() || uint64(s.GetReceivingSnapCount()) > opts.GetMaxSnapshotCount(),
		"pend":    opts.GetMaxPendingPeerCount() > 0 && s.GetPendingPeerCount() > int(opts.GetMaxPendingPeerCount()),
		"nolimit": !s.IsAvailable(storelimit.AddPeer),
		"rmlimit": !s.IsAvailable(storelimit.RemovePeer),
	}
}

// GenStores fills the cluster with stores in all kinds of states; returns their ids.
func GenStores(rng *rand.Rand, c *mockcluster.Cluster, tiflash bool) []uint64 {
	zones := []string{"z1", "z2", "z3", "z4"}
	hosts := []string{"h1", "h2", "h3"}
	disks := []string{"ssd", "hdd", ""}
	ns := 4 + rng.Intn(5)
	var ids []uint64
	for i := 1; i <= ns; i++ {
		id := uint64(i)
		labels := map[string]string{}
		if rng.Intn(10) != 0 {
			labels["zone"] = zones[rng.Intn(len(zones))]
		}
		if rng.Intn(6) != 0 {
			labels["host"] = hosts[rng.Intn(len(hosts))]
		}
		if d := disks[rng.Intn(3)]; d != "" {
			labels["disk"] = d
		}
		if tiflash && rng.Intn(6) == 0 {
			labels["engine"] = "tiflash"
		}
		fresh := rng.Intn(5) == 0
		regions := 0
		if !fresh {
			regions = 1 + rng.Intn(60)
		}
		c.AddLabelsStore(id, regions, labels)
		if !fresh {
			switch rng.Intn(16) {
			case 0:
				c.SetStoreDown(id)
			case 1:
				c.SetStoreOffline(id)
			case 2:
				c.SetStoreDisconnect(id)
			case 3:
				c.SetStoreBusy(id, true)
			case 4:
				c.UpdateStorageRatio(id, 0.95, 0.05)
			case 5:
				c.PutStore(c.GetStore(id).Clone(core.TombstoneStore()))
			case 6:
				c.UpdateSnapshotCount(id, 10)
			case 7:
				c.UpdatePendingPeerCount(id, 100)
			case 8:
				c.SetStoreOffline(id)
				c.PutStore(c.GetStore(id).Clone(core.SetLastHeartbeatTS(time.Time{})))
			}
		}
		ids = append(ids, id)
	}
	if rng.Intn(3) == 0 { // a fresh, empty store in a location of its own
		id := uint64(ns + 1)
		c.AddLabelsStore(id, 0, map[string]string{"zone": "zf", "host": "hf", "disk": "ssd"})
		ids = append(ids, id)
	}
	return ids
}

// GenRegion puts a region with peers in several conditions on the given stores.
func GenRegion(rng *rand.Rand, c *mockcluster.Cluster, ids []uint64, id uint64, maxPeers int) *core.RegionInfo {
	perm := rng.Perm(len(ids))
	np := 1 + rng.Intn(maxPeers)
	if np > len(ids) {
		np = len(ids)
	}
	var peers, voters []*metapb.Peer
	for i := 0; len(peers) < np && i < len(perm); i++ {
		st := c.GetStore(ids[perm[i]])
		if st.IsTombstone() && rng.Intn(4) != 0 {
			continue
		}
		p := &metapb.Peer{Id: id*1000 + uint64(len(peers)+1), StoreId: st.GetID()}
		if len(voters) > 0 && rng.Intn(5) == 0 {
			p.Role = metapb.PeerRole_Learner
		} else {
			voters = append(voters, p)
		}
		peers = append(peers, p)
	}
	if len(voters) == 0 {
		return nil
	}
	leader := voters[rng.Intn(len(voters))]
	for _, v := range voters { // prefer a leader on a healthy store
		s := c.GetStore(v.StoreId)
		if s.IsUp() && !s.IsDisconnected() && rng.Intn(3) != 0 {
			leader = v
			break
		}
	}
	var down []*pdpb.PeerStats
	var pending []*metapb.Peer
	for _, p := range peers {
		if p.Id == leader.Id {
			continue
		}
		s := c.GetStore(p.StoreId)
		long := s.DownTime() > c.GetOpts().GetMaxStoreDownTime()
		switch {
		case long && rng.Intn(4) != 0:
			down = append(down, &pdpb.PeerStats{Peer: p, DownSeconds: 24 * 3600})
		case rng.Intn(12) == 0:
			down = append(down, &pdpb.PeerStats{Peer: p, DownSeconds: 60})
		case rng.Intn(12) == 0:
			pending = append(pending, p)
		}
	}
	r := core.NewRegionInfo(&metapb.Region{Id: id, Peers: peers, RegionEpoch: &metapb.RegionEpoch{ConfVer: 5, Version: 5}}, leader,
		core.WithDownPeers(down), core.WithPendingPeers(pending), core.SetApproximateSize(10), core.SetApproximateKeys(10))
	c.PutRegion(r)
	return r
}

// RegionRecs gives the peers (Fit.tla's format) and the lists of long-down, short-down and pending peer ids.
func RegionRecs(c *mockcluster.Cluster, r *core.RegionInfo) (peers []trace.Ev, downLong, downShort, pending []int) {
	for _, p := range r.GetPeers() {
		peers = append(peers, trace.Ev{"id": int(p.Id), "store": int(p.StoreId), "learner": core.IsLearner(p), "leader": r.GetLeader().GetId() == p.Id})
	}
	sort.Slice(peers, func(i, j int) bool { return peers[i]["id"].(int) < peers[j]["id"].(int) })
	downLong, downShort, pending = []int{}, []int{}, []int{}
	for _, d := range r.GetDownPeers() {
		if d.GetDownSeconds() >= uint64(c.GetOpts().GetMaxStoreDownTime().Seconds()) {
			downLong = append(downLong, int(d.GetPeer().GetId()))
		} else {
			downShort = append(downShort, int(d.GetPeer().GetId()))
		}
	}
	for _, p := range r.GetPendingPeers() {
		pending = append(pending, int(p.Id))
	}
	return
}

// GenRules installs 1-2 rules that cover the whole key space instead of the default rule.
func GenRules(rng *rand.Rand, c *mockcluster.Cluster) ([]*placement.Rule, []trace.Ev, error) {
	roles := []string{"voter", "voter", "voter", "leader", "follower", "learner"}
	nr := 1 + rng.Intn(2)
	var rules []*placement.Rule
	var jrules []trace.Ev
	for i := 0; i < nr; i++ {
		role := roles[rng.Intn(len(roles))]
		if i == 0 && (role == "learner" || role == "follower") {
			role = "voter"
		}
		r := &placement.Rule{GroupID: "verif", ID: string(rune('a' + i)), Index: i, Role: placement.PeerRoleType(role), Count: 1 + rng.Intn(3)}
		if role == "leader" {
			r.Count = 1
		}
		jc := []trace.Ev{}
		if rng.Intn(2) == 0 {
			var key, op string
			var vals []string
			k := rng.Intn(4)
			if k == 3 && i == 0 {
				k = 0
			}
			switch k {
			case 0:
				key, op, vals = "disk", "in", []string{"ssd"}
			case 1:
				key, op, vals = "disk", "notIn", []string{"hdd"}
			case 2:
				key, op, vals = "zone", "in", []string{"z1", "z2", "z3"}[0:1+rng.Intn(3)]
			case 3:
				key, op, vals = "engine", "in", []string{"tiflash"}
				r.Role = placement.Learner
				role = "learner"
			}
			r.LabelConstraints = append(r.LabelConstraints, placement.LabelConstraint{Key: key, Op: placement.LabelConstraintOp(op), Values: vals})
			jc = append(jc, trace.Ev{"key": key, "op": op, "values": vals})
		}
		loc := [][]string{{}, {"zone"}, {"zone", "host"}, {"zone", "host"}}[rng.Intn(4)]
		r.LocationLabels = loc
		iso := ""
		if len(loc) > 0 && rng.Intn(3) == 0 {
			iso = loc[rng.Intn(len(loc))]
		}
		r.IsolationLevel = iso
		rules = append(rules, r)
		jrules = append(jrules, trace.Ev{"role": role, "count": r.Count, "constraints": jc, "location": loc, "isolation": iso})
	}
	rm := c.GetRuleManager()
	for i, r := range rules {
		if err := rm.SetRule(r); err != nil {
			// no store can satisfy the constraints: the rule manager refuses such a rule; use it unconstrained
			r.LabelConstraints = nil
			jrules[i]["constraints"] = []trace.Ev{}
			if err := rm.SetRule(r); err != nil {
				return nil, nil, err
			}
		}
	}
	if err := rm.DeleteRule("pd", "default"); err != nil {
		return nil, nil, err
	}
	return rules, jrules, nil
}

// FitRec is the real fit of the region as the rule checker sees it.
func FitRec(fit *placement.RegionFit) trace.Ev {
	ids := func(ps []*metapb.Peer) []int {
		out := []int{}
		for _, p := range ps {
			out = append(out, int(p.Id))
		}
		return out
	}
	fits := []trace.Ev{}
	for _, rf := range fit.RuleFits {
		fits = append(fits, trace.Ev{"rule": rf.Rule.Index + 1, "peers": ids(rf.Peers), "mismatch": ids(rf.PeersWithDifferentRole), "satisfied": rf.IsSatisfied()})
	}
	return trace.Ev{"fits": fits, "orphans": ids(fit.OrphanPeers)}
}

// OpRec is the trace record of a proposed operator.
func OpRec(op *operator.Operator) (string, []trace.Ev) {
	steps := []trace.Ev{}
	if op == nil {
		return "", steps
	}
	for i := 0; i < op.Len(); i++ {
		steps = append(steps, operatorh.StepRec(op.Step(i)))
	}
	return op.Desc(), steps
}

func repair(args map[string]string) error {
	seed := int64(cli.Int(args, "seed", 1))
	n := cli.Int(args, "cases", 2000)
	w, err := trace.Create(args["out"])
	if err != nil {
		return err
	}
	defer w.Close()
	rng := rand.New(rand.NewSource(seed))
	w.Reset(trace.Ev{"beh": 0, "mode": "repair"})
	kinds := map[string]int{}
	for c := 0; c < n; c++ {
		ctx, cancel := context.WithCancel(context.Background())
		cl := mockcluster.NewCluster(ctx, config.NewTestOptions())
		rulesMode := rng.Intn(2) == 0
		if rng.Intn(2) == 0 {
			cl.DisableFeature(versioninfo.JointConsensus)
		}
		maxRep := 1 + rng.Intn(5)
		loc := [][]string{{}, {"zone"}, {"zone", "host"}, {"zone", "host"}}[rng.Intn(4)]
		iso := ""
		if len(loc) > 0 && rng.Intn(3) == 0 {
			iso = loc[rng.Intn(len(loc))]
		}
		cl.SetMaxReplicas(maxRep)
		cl.SetLocationLabels(loc)
		cl.SetIsolationLevel(iso)
		ids := GenStores(rng, cl, rulesMode)
		var jrules []trace.Ev
		cl.SetEnablePlacementRules(rulesMode)
		if rulesMode {
			if _, jrules, err = GenRules(rng, cl); err != nil {
				kinds["(rule set refused by the rule manager)"]++
				cancel()
				continue
			}
		} else {
			jrules = []trace.Ev{}
		}
		region := GenRegion(rng, cl, ids, 1, 5)
		if region == nil {
			cancel()
			continue
		}
		// sometimes a rule covers only part of the key space: a region that spans its boundaries must be split there first
		regionKeys, ruleBounds := []int{0, 256}, []int{}
		if rulesMode && rng.Intn(5) == 0 {
			if err := cl.GetRuleManager().SetRule(&placement.Rule{GroupID: "verif", ID: "range", Index: len(jrules), Role: placement.Voter, Count: 1,
				StartKeyHex: "50", EndKeyHex: "a0"}); err == nil {
				jrules = append(jrules, trace.Ev{"role": "voter", "count": 1, "constraints": []trace.Ev{}, "location": []string{}, "isolation": ""})
				ruleBounds = []int{0x50, 0xa0}
				rk := [][]int{{0, 256}, {0x10, 0x40}, {0x30, 0x70}, {0x60, 256}, {0x20, 0xf0}, {0x50, 0xa0}, {0x58, 0x90}}[rng.Intn(7)]
				regionKeys = rk
				var sk, ek []byte
				if rk[0] > 0 {
					sk = []byte{byte(rk[0])}
				}
				if rk[1] < 256 {
					ek = []byte{byte(rk[1])}
				}
				region = region.Clone(core.WithStartKey(sk), core.WithEndKey(ek))
				cl.PutRegion(region)
			}
		}
		var jstores []trace.Ev
		for _, s := range cl.GetStores() {
			jstores = append(jstores, StoreRec(cl, s))
		}
		sort.Slice(jstores, func(i, j int) bool { return jstores[i]["id"].(int) < jstores[j]["id"].(int) })
		peers, dl, ds, pend := RegionRecs(cl, region)
		ev := trace.Ev{"ev": "case", "n": c, "region_keys": regionKeys, "rule_bounds": ruleBounds, "rules_mode": rulesMode, "cfg": trace.Ev{"max": maxRep, "location": loc, "isolation": iso},
			"case": trace.Ev{"stores": jstores, "peers": peers, "rules": jrules}, "down_long": dl, "down_short": ds, "pending": pend}
		var op *operator.Operator
		if rulesMode {
			ev["fit"] = FitRec(cl.FitRegion(region))
			op = checker.NewRuleChecker(cl, cl.GetRuleManager(), cache.NewDefaultCache(10)).Check(region)
		} else {
			ev["fit"] = trace.Ev{"fits": []trace.Ev{}, "orphans": []int{}}
			op = checker.NewReplicaChecker(cl, cache.NewDefaultCache(10)).Check(region)
		}
		desc, steps := OpRec(op)
		splitAt := []int{}
		for _, st := range steps {
			if st["k"] == "Split" {
				for _, h := range st["split_keys"].([]string) {
					var v int
					fmt.Sscanf(h, "%x", &v)
					splitAt = append(splitAt, v)
				}
			}
		}
		ev["split_at"] = splitAt
		ev["has_op"], ev["desc"], ev["steps"] = op != nil, desc, steps
		kinds[desc]++
		w.Emit(ev)
		cancel()
	}
	sum := trace.Ev{"ev": "summary"}
	for k, v := range kinds {
		if k == "" {
			k = "(none)"
		}
		sum[k] = v
	}
	w.Emit(sum)
	return nil
}
