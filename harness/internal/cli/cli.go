// Package cli holds the sub-command registry and shared helpers of pdverif.
package cli

import (
	"encoding/json"
	"fmt"
	"io/ioutil"
	"os"

	"github.com/pingcap/log"
	"go.uber.org/zap"
	"go.uber.org/zap/zapcore"
)

// Cmd is one sub-command: pdverif <area> <mode> key=value...
type Cmd func(args map[string]string) error

var cmds = map[string]Cmd{}

// Register adds a sub-command.
func Register(name string, c Cmd) { cmds[name] = c }

// Run dispatches.
func Run(argv []string) int {
	if len(argv) < 2 {
		fmt.Fprintln(os.Stderr, "usage: pdverif <area> <mode> key=value ...")
		return 2
	}
	c := cmds[argv[0]+" "+argv[1]]
	if c == nil {
		fmt.Fprintf(os.Stderr, "unknown command %s %s\n", argv[0], argv[1])
		return 2
	}
	args := map[string]string{}
	for _, a := range argv[2:] {
		for i := 0; i < len(a); i++ {
			if a[i] == '=' {
				args[a[:i]] = a[i+1:]
				break
			}
		}
	}
	if err := c(args); err != nil {
		fmt.Fprintf(os.Stderr, "pdverif %s %s: %v\n", argv[0], argv[1], err)
		return 3
	}
	return 0
}

// QuietLogs silences pingcap/log (or sends it to VERIF_PDLOG if set).
func QuietLogs() {
	lvl := zapcore.FatalLevel
	conf := &log.Config{Level: "fatal", File: log.FileLogConfig{}}
	if p := os.Getenv("VERIF_PDLOG"); p != "" {
		conf = &log.Config{Level: "info", File: log.FileLogConfig{Filename: p}}
		lvl = zapcore.InfoLevel
	}
	lg, p, err := log.InitLogger(conf)
	if err == nil {
		p.Level.SetLevel(lvl)
		log.ReplaceGlobals(lg, p)
	}
	zap.ReplaceGlobals(zap.NewNop())
}

// Int parses an int arg with default.
func Int(args map[string]string, k string, def int) int {
	v, ok := args[k]
	if !ok {
		return def
	}
	var n int
	fmt.Sscanf(v, "%d", &n)
	return n
}

// ReadJSON reads a json file.
func ReadJSON(path string, v interface{}) error {
	bs, err := ioutil.ReadFile(path)
	if err != nil {
		return err
	}
	return json.Unmarshal(bs, v)
}

// Step is one step of a TLC behaviour (as exported by lib/vlib.py).
type Step struct {
	Action string                 `json:"action"`
	Args   []interface{}          `json:"args"`
	State  map[string]interface{} `json:"state"`
}

// Str returns arg i as string.
func (s Step) Str(i int) string {
	if i >= len(s.Args) {
		return ""
	}
	if v, ok := s.Args[i].(string); ok {
		return v
	}
	return fmt.Sprint(s.Args[i])
}

// Num returns arg i as int.
func (s Step) Num(i int) int {
	if i >= len(s.Args) {
		return 0
	}
	if v, ok := s.Args[i].(float64); ok {
		return int(v)
	}
	return 0
}
