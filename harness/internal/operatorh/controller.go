package operatorh

import (
	"context"
	"fmt"
	"math/rand"
	"sort"
	"sync"
	"time"

	"github.com/pingcap/kvproto/pkg/eraftpb"
	"github.com/pingcap/kvproto/pkg/metapb"
	"github.com/pingcap/kvproto/pkg/pdpb"
	"github.com/tikv/pd/pkg/mock/mockcluster"
	"github.com/tikv/pd/server/config"
	"github.com/tikv/pd/server/core"
	"github.com/tikv/pd/server/schedule"
	"github.com/tikv/pd/server/schedule/hbstream"
	"github.com/tikv/pd/server/schedule/operator"
	"github.com/tikv/pd/server/versioninfo"

	"pdverif/internal/cli"
	"pdverif/internal/trace"
)

func init() {
	cli.Register("operator controller", controller)
}

// recorder is the heartbeat stream of one store: it keeps what the store receives.
type recorder struct {
	mu    *sync.Mutex
	store uint64
	out   *[]recvMsg
}

type recvMsg struct {
	store uint64
	msg   *pdpb.RegionHeartbeatResponse
}

func (r recorder) Send(m *pdpb.RegionHeartbeatResponse) error {
	r.mu.Lock()
	defer r.mu.Unlock()
	*r.out = append(*r.out, recvMsg{r.store, m})
	return nil
}

// Delivered is a command as a store's heartbeat stream received it.
type Delivered struct {
	Store uint64
	Msg   *pdpb.RegionHeartbeatResponse
}

// Hub runs real heartbeat streams and records what every store receives.
type Hub struct {
	HB   *hbstream.HeartbeatStreams
	mu   sync.Mutex
	recv []recvMsg
}

// NewHub binds a recording stream for every store id.
func NewHub(ctx context.Context, cluster *mockcluster.Cluster, stores []uint64) *Hub {
	h := &Hub{}
	h.HB = hbstream.NewTestHeartbeatStreams(ctx, cluster.ID, cluster, true)
	for _, id := range stores {
		h.HB.BindStream(id, recorder{&h.mu, id, &h.recv})
	}
	return h
}

// Settle waits until everything handed to the streams was delivered and returns it.
func (h *Hub) Settle() []Delivered {
	for i := 0; h.HB.MsgLength() > 0 && i < 20000; i++ {
		time.Sleep(50 * time.Microsecond)
	}
	for i := 0; i < 3; i++ {
		h.HB.BindStream(1<<40, recorder{&h.mu, 1 << 40, &h.recv})
	}
	h.mu.Lock()
	defer h.mu.Unlock()
	var out []Delivered
	for _, m := range h.recv {
		if m.msg.GetRegionId() != 0 {
			out = append(out, Delivered{m.store, m.msg})
		}
	}
	h.recv = nil
	return out
}

// CmdRec is the trace record of a delivered command.
func CmdRec(m *pdpb.RegionHeartbeatResponse) trace.Ev { return cmdRec(m) }

// RegionRec is the trace record of a region (conf, ver, leader, peers).
func RegionRec(r *core.RegionInfo) trace.Ev { return regionRec(r) }

type ctlOp struct {
	op       *operator.Operator
	steps    []trace.Ev
	deltas   []int
	timedOut bool
	leader0  int // leader store in the view the operator was built from
	pair     int // merge operators come in pairs: index of the other one
}

type inflight struct {
	msg *pdpb.RegionHeartbeatResponse
	op  *operator.Operator // the running operator when the command was sent
}

type ctlEnv struct {
	rng     *rand.Rand
	cluster *mockcluster.Cluster
	hb      *hbstream.HeartbeatStreams
	oc      *schedule.OperatorController
	truth   map[uint64]*core.RegionInfo
	ops     []*ctlOp
	cmd     map[uint64]*inflight
	mu      sync.Mutex
	recv    []recvMsg
	nextID  uint64
	nstores int
}

const ctlRegions = 2

func newCtlEnv(ctx context.Context, rng *rand.Rand, joint bool) *ctlEnv {
	e := &ctlEnv{rng: rng, truth: map[uint64]*core.RegionInfo{}, cmd: map[uint64]*inflight{}, nextID: 1000, nstores: 6}
	e.cluster = mockcluster.NewCluster(ctx, config.NewTestOptions())
	e.cluster.SetEnablePlacementRules(false)
	if !joint {
		e.cluster.DisableFeature(versioninfo.JointConsensus)
	}
	for i := 0; i < 3000; i++ { // ids of peers never collide with store ids (one allocator serves both in a real cluster)
		_, _ = e.cluster.AllocID()
	}
	for i := 1; i <= e.nstores; i++ {
		e.cluster.AddLabelsStore(uint64(i), 1, map[string]string{"zone": fmt.Sprintf("z%d", i%3)})
	}
	e.hb = hbstream.NewTestHeartbeatStreams(ctx, e.cluster.ID, e.cluster, true)
	for i := 1; i <= e.nstores; i++ {
		e.hb.BindStream(uint64(i), recorder{&e.mu, uint64(i), &e.recv})
	}
	e.oc = schedule.NewOperatorController(ctx, e.cluster, e.hb)
	keys := []string{"", "m", ""}
	for r := 1; r <= ctlRegions; r++ {
		perm := rng.Perm(e.nstores)
		np := 2 + rng.Intn(3)
		var peers []*metapb.Peer
		for i := 0; i < np; i++ {
			p := &metapb.Peer{Id: e.id(), StoreId: uint64(perm[i] + 1)}
			if i > 0 && rng.Intn(4) == 0 {
				p.Role = metapb.PeerRole_Learner
			}
			peers = append(peers, p)
		}
		reg := core.NewRegionInfo(&metapb.Region{Id: uint64(r), StartKey: []byte(keys[r-1]), EndKey: []byte(keys[r]), Peers: peers,
			RegionEpoch: &metapb.RegionEpoch{ConfVer: 5, Version: 5}}, peers[0], core.SetApproximateSize(1), core.SetApproximateKeys(1))
		e.truth[uint64(r)] = reg
		e.cluster.PutRegion(reg)
	}
	return e
}

func (e *ctlEnv) id() uint64 { e.nextID++; return e.nextID }

// settle waits until every command handed to the heartbeat streams has been delivered to a store's stream.
func (e *ctlEnv) settle() []recvMsg {
	for i := 0; e.hb.MsgLength() > 0 && i < 20000; i++ {
		time.Sleep(50 * time.Microsecond)
	}
	// the stream loop is one goroutine; two stream updates through its 1-slot channel guarantee that it
	// returned to its select after delivering every message it had taken before
	e.hb.BindStream(99, recorder{&e.mu, 99, &e.recv})
	e.hb.BindStream(99, recorder{&e.mu, 99, &e.recv})
	e.hb.BindStream(99, recorder{&e.mu, 99, &e.recv})
	e.mu.Lock()
	defer e.mu.Unlock()
	out := e.recv
	e.recv = nil
	return out
}

func statusName(op *operator.Operator) string { return operator.OpStatusToString(op.Status()) }

func nominalDelta(s operator.OpStep) int {
	switch x := s.(type) {
	case operator.TransferLeader, operator.MergeRegion, operator.SplitRegion:
		return 0
	case operator.ChangePeerV2Enter:
		return len(x.PromoteLearners) + len(x.DemoteVoters)
	case operator.ChangePeerV2Leave:
		return len(x.PromoteLearners) + len(x.DemoteVoters)
	}
	return 1
}

func regionRec(r *core.RegionInfo) trace.Ev {
	return trace.Ev{"conf": int(r.GetRegionEpoch().GetConfVer()), "ver": int(r.GetRegionEpoch().GetVersion()),
		"leader": int(r.GetLeader().GetStoreId()), "peers": PeersRec(r.GetPeers()), "keys": []string{string(r.GetStartKey()), string(r.GetEndKey())}}
}

func cmdRec(m *pdpb.RegionHeartbeatResponse) trace.Ev {
	switch {
	case m.GetTransferLeader() != nil:
		return trace.Ev{"k": "TransferLeader", "store": int(m.GetTransferLeader().GetPeer().GetStoreId()), "peer": int(m.GetTransferLeader().GetPeer().GetId()), "changes": [][]interface{}{}}
	case m.GetChangePeer() != nil:
		c := m.GetChangePeer()
		return trace.Ev{"k": c.GetChangeType().String(), "store": int(c.GetPeer().GetStoreId()), "peer": int(c.GetPeer().GetId()), "changes": [][]interface{}{}}
	case m.GetChangePeerV2() != nil:
		ch := [][]interface{}{}
		for _, c := range m.GetChangePeerV2().GetChanges() {
			ch = append(ch, []interface{}{c.GetChangeType().String(), int(c.GetPeer().GetStoreId()), int(c.GetPeer().GetId())})
		}
		return trace.Ev{"k": "V2", "store": 0, "peer": 0, "changes": ch}
	}
	if m.GetMerge() != nil {
		return trace.Ev{"k": "Merge", "store": 0, "peer": int(m.GetMerge().GetTarget().GetId()), "changes": [][]interface{}{}}
	}
	if m.GetSplitRegion() != nil {
		return trace.Ev{"k": "Split", "store": 0, "peer": 0, "changes": [][]interface{}{}}
	}
	return trace.Ev{"k": "Other", "store": 0, "peer": 0, "changes": [][]interface{}{}}
}

func (e *ctlEnv) opIndex(op *operator.Operator) int {
	for i, o := range e.ops {
		if o.op == op {
			return i + 1
		}
	}
	return 0
}

// snapshot is the trace record of the state after an action.
func (e *ctlEnv) snapshot(action string, region int, opn int, extra trace.Ev) trace.Ev {
	msgs := []trace.Ev{}
	for _, m := range e.settle() {
		if m.msg.GetRegionId() == 0 {
			continue // keep-alive
		}
		rec := cmdRec(m.msg)
		rec["to"] = int(m.store)
		rec["region"] = int(m.msg.GetRegionId())
		rec["conf"] = int(m.msg.GetRegionEpoch().GetConfVer())
		rec["ver"] = int(m.msg.GetRegionEpoch().GetVersion())
		msgs = append(msgs, rec)
		e.cmd[m.msg.GetRegionId()] = &inflight{msg: m.msg, op: e.oc.GetOperator(m.msg.GetRegionId())}
	}
	ev := trace.Ev{"ev": "step", "a": action, "region": region, "op": opn, "msgs": msgs}
	var views, truths []trace.Ev
	running := make([]int, ctlRegions)
	records := []trace.Ev{}
	for r := 1; r <= ctlRegions; r++ {
		views = append(views, regionRec(e.cluster.GetRegion(uint64(r))))
		truths = append(truths, regionRec(e.truth[uint64(r)]))
		running[r-1] = e.opIndex(e.oc.GetOperator(uint64(r)))
		rec := trace.Ev{"op": 0, "status": "", "opstatus": ""}
		if st := e.oc.GetOperatorStatus(uint64(r)); st != nil {
			rec = trace.Ev{"op": e.opIndex(st.Op), "status": st.Status.String(), "opstatus": statusName(st.Op)}
		}
		records = append(records, rec)
	}
	ev["view"], ev["truth"], ev["running"], ev["record"] = views, truths, running, records
	list := [][]int{}
	for _, op := range e.oc.GetOperators() {
		list = append(list, []int{e.opIndex(op), int(op.RegionID())})
	}
	sort.Slice(list, func(i, j int) bool { return list[i][0] < list[j][0] })
	ev["list"] = list
	waiting := []int{}
	for _, op := range e.oc.GetWaitingOperators() {
		waiting = append(waiting, e.opIndex(op))
	}
	sort.Ints(waiting)
	ev["waiting"] = waiting
	ops := []trace.Ev{}
	for _, o := range e.ops {
		ops = append(ops, trace.Ev{"region": int(o.op.RegionID()), "status": statusName(o.op), "ec": int(o.op.RegionEpoch().GetConfVer()),
			"ev": int(o.op.RegionEpoch().GetVersion()), "prio": int(o.op.GetPriorityLevel()), "steps": o.steps, "deltas": o.deltas, "late": o.timedOut, "started": o.op.HasStarted(), "leader0": o.leader0, "pair": o.pair})
	}
	ev["ops"] = ops
	for k, v := range extra {
		ev[k] = v
	}
	return ev
}

// create builds an operator for region r from PD's current view of it.
func (e *ctlEnv) create(r uint64) *operator.Operator {
	view := e.cluster.GetRegion(r)
	rng := e.rng
	var op *operator.Operator
	var err error
	if rng.Intn(12) == 0 {
		op, err = operator.CreateSplitRegionOperator("verif-split", view, 0, pdpb.CheckPolicy_SCAN, nil)
	} else if rng.Intn(5) == 0 {
		var voters []uint64
		for _, p := range view.GetVoters() {
			if p.GetStoreId() != view.GetLeader().GetStoreId() {
				voters = append(voters, p.GetStoreId())
			}
		}
		if len(voters) == 0 {
			return nil
		}
		op, err = operator.CreateTransferLeaderOperator("verif-leader", e.cluster, view, view.GetLeader().GetStoreId(), voters[rng.Intn(len(voters))], operator.OpLeader)
	} else {
		peers := view.GetPeers()
		target := map[uint64]*metapb.Peer{}
		perm := rng.Perm(e.nstores)
		nt := 1 + rng.Intn(4)
		for i := 0; i < nt; i++ {
			st := uint64(perm[i] + 1)
			if rng.Intn(3) != 0 && i < len(peers) {
				st = peers[i].StoreId
			}
			if _, ok := target[st]; ok {
				continue
			}
			role := metapb.PeerRole_Voter
			if rng.Intn(4) == 0 {
				role = metapb.PeerRole_Learner
			}
			target[st] = &metapb.Peer{StoreId: st, Role: role, Id: e.id()}
			if o := view.GetStorePeer(st); o != nil && rng.Intn(6) != 0 {
				target[st].Id = o.Id
				if !core.IsLearner(o) && role == metapb.PeerRole_Learner {
					// without joint consensus a voter becomes a learner by remove + add: the new peer gets a new id
					// (a store never re-creates a peer id it has tombstoned), as CreateMoveRegionOperator does
					target[st].Id = 0
				}
			}
		}
		b := operator.NewBuilder("verif", e.cluster, view)
		b.SetPeers(target)
		if rng.Intn(2) == 0 {
			var tv []uint64
			for st, p := range target {
				if p.Role == metapb.PeerRole_Voter {
					tv = append(tv, st)
				}
			}
			if len(tv) > 0 {
				sort.Slice(tv, func(i, j int) bool { return tv[i] < tv[j] })
				b.SetLeader(tv[rng.Intn(len(tv))])
			}
		}
		if rng.Intn(4) == 0 {
			b.EnableLightWeight()
		}
		op, err = b.Build(0)
	}
	if err != nil || op == nil || op.Len() == 0 {
		return nil
	}
	op.SetPriorityLevel([]core.PriorityLevel{core.LowPriority, core.NormalPriority, core.HighPriority}[rng.Intn(3)])
	return op
}

// applyCmd is the faithful store: the region after its leader handled the command, or the same region when the
// command is refused (epoch moved on, not the leader any more, or the change is impossible).
// ApplyCmd: see applyCmd.
func ApplyCmd(r *core.RegionInfo, to uint64, m *pdpb.RegionHeartbeatResponse) *core.RegionInfo {
	return applyCmd(r, to, m)
}

func applyCmd(r *core.RegionInfo, to uint64, m *pdpb.RegionHeartbeatResponse) *core.RegionInfo {
	ep := r.GetRegionEpoch()
	if m.GetRegionEpoch().GetConfVer() != ep.GetConfVer() || m.GetRegionEpoch().GetVersion() != ep.GetVersion() || r.GetLeader().GetStoreId() != to {
		return r
	}
	inJoint := core.IsInJointState(r.GetPeers()...)
	clonePeers := func() []*metapb.Peer {
		var ps []*metapb.Peer
		for _, p := range r.GetPeers() {
			q := *p
			ps = append(ps, &q)
		}
		return ps
	}
	withPeers := func(ps []*metapb.Peer, inc int) *core.RegionInfo {
		nr := r.Clone(core.SetPeers(ps))
		for _, p := range ps {
			if p.Id == r.GetLeader().GetId() {
				nr = nr.Clone(core.WithLeader(p))
			}
		}
		for i := 0; i < inc; i++ {
			nr = nr.Clone(core.WithIncConfVer())
		}
		return nr
	}
	simple := func(ps []*metapb.Peer, t eraftpb.ConfChangeType, peer *metapb.Peer, joint bool) ([]*metapb.Peer, bool) {
		var cur *metapb.Peer
		for _, p := range ps {
			if p.StoreId == peer.GetStoreId() {
				cur = p
			}
		}
		switch t {
		case eraftpb.ConfChangeType_AddNode:
			if cur == nil {
				return append(ps, &metapb.Peer{Id: peer.GetId(), StoreId: peer.GetStoreId()}), true
			}
			if cur.Id == peer.GetId() && cur.Role == metapb.PeerRole_Learner {
				cur.Role = metapb.PeerRole_Voter
				if joint {
					cur.Role = metapb.PeerRole_IncomingVoter
				}
				return ps, true
			}
		case eraftpb.ConfChangeType_AddLearnerNode:
			if cur == nil {
				return append(ps, &metapb.Peer{Id: peer.GetId(), StoreId: peer.GetStoreId(), Role: metapb.PeerRole_Learner}), true
			}
			if cur.Id == peer.GetId() && cur.Role == metapb.PeerRole_Voter && (joint || cur.Id != r.GetLeader().GetId()) {
				cur.Role = metapb.PeerRole_Learner
				if joint {
					cur.Role = metapb.PeerRole_DemotingVoter
				}
				return ps, true
			}
		case eraftpb.ConfChangeType_RemoveNode:
			if cur != nil && cur.Id == peer.GetId() && cur.Id != r.GetLeader().GetId() {
				var out []*metapb.Peer
				for _, p := range ps {
					if p != cur {
						out = append(out, p)
					}
				}
				return out, true
			}
		}
		return ps, false
	}
	switch {
	case m.GetSplitRegion() != nil:
		if inJoint {
			return r
		}
		// the region keeps the left part; a sibling (not tracked here) takes the rest
		end := string(r.GetStartKey()) + "5"
		if len(r.GetEndKey()) > 0 && end >= string(r.GetEndKey()) {
			end = string(r.GetStartKey()) + "0" + string(r.GetEndKey())
			if end >= string(r.GetEndKey()) {
				return r
			}
		}
		return r.Clone(core.WithEndKey([]byte(end)), core.WithIncVersion())
	case m.GetMerge() != nil:
		return r // merging needs the target's cooperation; the stores of this simulator never complete it
	case m.GetTransferLeader() != nil:
		p := r.GetStorePeer(m.GetTransferLeader().GetPeer().GetStoreId())
		if p != nil && p.Id == m.GetTransferLeader().GetPeer().GetId() && (p.Role == metapb.PeerRole_Voter || p.Role == metapb.PeerRole_IncomingVoter) {
			return r.Clone(core.WithLeader(p))
		}
	case m.GetChangePeer() != nil:
		if inJoint {
			return r
		}
		if ps, ok := simple(clonePeers(), m.GetChangePeer().GetChangeType(), m.GetChangePeer().GetPeer(), false); ok {
			return withPeers(ps, 1)
		}
	case m.GetChangePeerV2() != nil:
		chs := m.GetChangePeerV2().GetChanges()
		if len(chs) == 0 { // leave joint
			if !inJoint {
				return r
			}
			ps := clonePeers()
			n := 0
			for _, p := range ps {
				switch p.Role {
				case metapb.PeerRole_IncomingVoter:
					p.Role = metapb.PeerRole_Voter
					n++
				case metapb.PeerRole_DemotingVoter:
					if p.Id == r.GetLeader().GetId() {
						return r // the leader refuses to leave while it is being demoted
					}
					p.Role = metapb.PeerRole_Learner
					n++
				}
			}
			return withPeers(ps, n)
		}
		if inJoint {
			return r
		}
		ps := clonePeers()
		for _, c := range chs {
			var ok bool
			if ps, ok = simple(ps, c.GetChangeType(), c.GetPeer(), true); !ok {
				return r
			}
		}
		return withPeers(ps, len(chs))
	}
	return r
}

func sameRegion(a, b *core.RegionInfo) bool {
	return fmt.Sprint(regionRec(a)) == fmt.Sprint(regionRec(b))
}

// foreignChange is a configuration change that no operator of PD asked for.
func (e *ctlEnv) foreignChange(r uint64) (string, *core.RegionInfo) {
	reg := e.truth[r]
	rng := e.rng
	if core.IsInJointState(reg.GetPeers()...) {
		return "none", reg
	}
	switch rng.Intn(4) {
	case 0: // a learner appears on a free store
		for _, i := range rng.Perm(e.nstores) {
			if reg.GetStorePeer(uint64(i+1)) == nil {
				return "add-learner", reg.Clone(core.WithAddPeer(&metapb.Peer{Id: e.id(), StoreId: uint64(i + 1), Role: metapb.PeerRole_Learner}), core.WithIncConfVer())
			}
		}
	case 1: // a non-leader peer disappears
		var c []*metapb.Peer
		for _, p := range reg.GetPeers() {
			if p.Id != reg.GetLeader().GetId() {
				c = append(c, p)
			}
		}
		if len(c) > 0 && len(reg.GetVoters()) > 1 {
			p := c[rng.Intn(len(c))]
			if core.IsLearner(p) || len(reg.GetVoters()) > 2 {
				return "remove-peer", reg.Clone(core.WithRemoveStorePeer(p.StoreId), core.WithIncConfVer())
			}
		}
	case 2: // a learner is promoted
		if ls := reg.GetLearners(); len(ls) > 0 {
			p := ls[rng.Intn(len(ls))]
			return "promote", Apply(reg, operator.PromoteLearner{ToStore: p.StoreId, PeerID: p.Id})
		}
	case 3: // a peer is replaced by one with a new id on the same store
		var c []*metapb.Peer
		for _, p := range reg.GetPeers() {
			if p.Id != reg.GetLeader().GetId() && core.IsLearner(p) {
				c = append(c, p)
			}
		}
		if len(c) > 0 {
			p := c[rng.Intn(len(c))]
			nr := reg.Clone(core.WithRemoveStorePeer(p.StoreId), core.WithIncConfVer())
			return "replace-learner", nr.Clone(core.WithAddPeer(&metapb.Peer{Id: e.id(), StoreId: p.StoreId, Role: metapb.PeerRole_Learner}), core.WithIncConfVer())
		}
	}
	return "none", reg
}

func controller(args map[string]string) error {
	seed := int64(cli.Int(args, "seed", 1))
	n := cli.Int(args, "histories", 200)
	length := cli.Int(args, "len", 60)
	w, err := trace.Create(args["out"])
	if err != nil {
		return err
	}
	defer w.Close()
	stats := map[string]int{}
	for h := 0; h < n; h++ {
		rng := rand.New(rand.NewSource(seed*1000003 + int64(h)))
		ctx, cancel := context.WithCancel(context.Background())
		joint := rng.Intn(2) == 0
		calm := rng.Intn(2) == 0
		e := newCtlEnv(ctx, rng, joint)
		w.Reset(trace.Ev{"beh": h, "joint": joint, "calm": calm})
		w.Emit(e.snapshot("Init", 0, 0, nil))
		for i := 0; i < length; i++ {
			r := uint64(1 + rng.Intn(ctlRegions))
			pick := func(pred func(*ctlOp) bool) int {
				var c []int
				for i, o := range e.ops {
					if pred(o) {
						c = append(c, i+1)
					}
				}
				if len(c) == 0 {
					return 0
				}
				return c[rng.Intn(len(c))]
			}
			created := func(o *ctlOp) bool { return o.op.Status() == operator.CREATED && !inWaiting(e, o.op) }
			k := rng.Intn(100)
			if calm { // no disturbance: operators run to completion through their own steps
				k = []int{0, 14, 14, 26, 35, 35, 35, 35, 63, 63, 63, 63}[rng.Intn(12)]
			}
			switch {
			case k < 14:
				if len(e.ops) >= 9 {
					continue
				}
				if rng.Intn(8) == 0 && len(e.ops) < 8 { // a pair of merge operators: region r into the other one
					src, dst := e.cluster.GetRegion(r), e.cluster.GetRegion(3-r)
					ops, err := operator.CreateMergeRegionOperator("verif-merge", e.cluster, src, dst, operator.OpMerge)
					if err != nil || len(ops) != 2 {
						continue
					}
					base := len(e.ops)
					for j, op := range ops {
						co := &ctlOp{op: op, leader0: int(e.cluster.GetRegion(op.RegionID()).GetLeader().GetStoreId()), pair: base + 2 - j}
						for x := 0; x < op.Len(); x++ {
							co.steps = append(co.steps, StepRec(op.Step(x)))
							co.deltas = append(co.deltas, nominalDelta(op.Step(x)))
						}
						e.ops = append(e.ops, co)
					}
					stats["merge-pairs"]++
					w.Emit(e.snapshot("CreateMerge", int(r), base+1, nil))
					continue
				}
				op := e.create(r)
				if op == nil {
					continue
				}
				co := &ctlOp{op: op, leader0: int(e.cluster.GetRegion(r).GetLeader().GetStoreId())}
				for j := 0; j < op.Len(); j++ {
					co.steps = append(co.steps, StepRec(op.Step(j)))
					co.deltas = append(co.deltas, nominalDelta(op.Step(j)))
				}
				e.ops = append(e.ops, co)
				w.Emit(e.snapshot("Create", int(r), len(e.ops), nil))
			case k < 26:
				x := pick(created)
				if x == 0 || rng.Intn(12) == 0 {
					x = pick(func(o *ctlOp) bool { return operator.IsEndStatus(o.op.Status()) }) // sometimes an operator that has ended already
				}
				if x == 0 {
					continue
				}
				var ok bool
				if p := e.ops[x-1].pair; p != 0 { // merge operators are handed over together, source first
					a, b := x, p
					if a > b {
						a, b = b, a
					}
					ok = e.oc.AddOperator(e.ops[a-1].op, e.ops[b-1].op)
				} else {
					ok = e.oc.AddOperator(e.ops[x-1].op)
				}
				stats["add"]++
				if ok {
					stats["admitted"]++
				}
				w.Emit(e.snapshot("Add", int(e.ops[x-1].op.RegionID()), x, trace.Ev{"ok": ok}))
			case k < 32:
				x := pick(created)
				if x == 0 {
					continue
				}
				var cnt int
				if p := e.ops[x-1].pair; p != 0 {
					a, b := x, p
					if a > b {
						a, b = b, a
					}
					cnt = e.oc.AddWaitingOperator(e.ops[a-1].op, e.ops[b-1].op)
				} else {
					cnt = e.oc.AddWaitingOperator(e.ops[x-1].op)
				}
				w.Emit(e.snapshot("AddWaiting", int(e.ops[x-1].op.RegionID()), x, trace.Ev{"ok": cnt > 0}))
			case k < 35:
				e.oc.PromoteWaitingOperator()
				w.Emit(e.snapshot("Promote", 0, 0, nil))
			case k < 60:
				e.cluster.PutRegion(e.truth[r])
				e.oc.Dispatch(e.truth[r], schedule.DispatchFromHeartBeat)
				stats["heartbeat"]++
				w.Emit(e.snapshot("Heartbeat", int(r), 0, nil))
			case k < 63:
				e.oc.PushOperators()
				w.Emit(e.snapshot("Push", 0, 0, nil))
			case k < 83:
				c := e.cmd[r]
				if c == nil {
					continue
				}
				delete(e.cmd, r)
				nr := applyCmd(e.truth[r], c.msg.GetTargetPeer().GetStoreId(), c.msg)
				changed := !sameRegion(nr, e.truth[r])
				own := c.op != nil && c.op == e.oc.GetOperator(r)
				e.truth[r] = nr
				if changed {
					stats["executed"]++
				}
				w.Emit(e.snapshot("Execute", int(r), e.opIndex(c.op), trace.Ev{"changed": changed, "own": own}))
			case k < 88:
				what, nr := e.foreignChange(r)
				if what == "none" {
					continue
				}
				e.truth[r] = nr
				stats["foreign"]++
				w.Emit(e.snapshot("Foreign", int(r), 0, trace.Ev{"what": what}))
			case k < 91:
				reg := e.truth[r]
				var c []*metapb.Peer
				for _, p := range reg.GetPeers() {
					if p.Id != reg.GetLeader().GetId() && (p.Role == metapb.PeerRole_Voter || p.Role == metapb.PeerRole_IncomingVoter) {
						c = append(c, p)
					}
				}
				if len(c) == 0 {
					continue
				}
				e.truth[r] = reg.Clone(core.WithLeader(c[rng.Intn(len(c))]))
				w.Emit(e.snapshot("Foreign", int(r), 0, trace.Ev{"what": "leader"}))
			case k < 93:
				e.truth[r] = e.truth[r].Clone(core.WithIncVersion())
				w.Emit(e.snapshot("Foreign", int(r), 0, trace.Ev{"what": "split"}))
			case k < 96:
				x := pick(func(o *ctlOp) bool { return o.op.Status() == operator.STARTED })
				if rng.Intn(3) == 0 {
					// a late remove through a stale handle: an operator that has ended while another one runs on its region
					if y := pick(func(o *ctlOp) bool {
						cur := e.oc.GetOperator(o.op.RegionID())
						return operator.IsEndStatus(o.op.Status()) && cur != nil && cur != o.op
					}); y != 0 {
						x = y
					}
				}
				if x == 0 {
					continue
				}
				ok := e.oc.RemoveOperator(e.ops[x-1].op)
				w.Emit(e.snapshot("Remove", int(e.ops[x-1].op.RegionID()), x, trace.Ev{"ok": ok}))
			default:
				x := pick(func(o *ctlOp) bool { return !o.timedOut && (o.op.Status() == operator.STARTED || o.op.Status() == operator.CREATED) })
				if x == 0 {
					continue
				}
				o := e.ops[x-1]
				o.timedOut = true
				operator.SetOperatorStatusReachTime(o.op, o.op.Status(), time.Now().Add(-20*time.Minute))
				w.Emit(e.snapshot("TimePasses", int(o.op.RegionID()), x, nil))
			}
		}
		for _, o := range e.ops {
			stats["st-"+statusName(o.op)]++
		}
		cancel()
	}
	sum := trace.Ev{"ev": "summary"}
	for k, v := range stats {
		sum[k] = v
	}
	w.Emit(sum)
	return nil
}

func inWaiting(e *ctlEnv, op *operator.Operator) bool {
	for _, o := range e.oc.GetWaitingOperators() {
		if o == op {
			return true
		}
	}
	return false
}
