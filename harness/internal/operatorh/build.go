// Package operatorh binds spec/operator/*.tla to server/schedule/operator (builder, steps) and the operator controller.
package operatorh

import (
	"fmt"
	"context"
	"math/rand"
	"sort"

	"github.com/pingcap/kvproto/pkg/metapb"
	"github.com/tikv/pd/pkg/mock/mockcluster"
	"github.com/tikv/pd/server/config"
	"github.com/tikv/pd/server/core"
	"github.com/tikv/pd/server/schedule/operator"
	"github.com/tikv/pd/server/versioninfo"

	"pdverif/internal/cli"
	"pdverif/internal/trace"
)

func init() {
	cli.Register("operator build", build)
}

// StepRec turns a step into its trace record.
func StepRec(s operator.OpStep) trace.Ev {
	pairs := func(pl []operator.PromoteLearner, dv []operator.DemoteVoter) ([][]int, [][]int) {
		a, b := [][]int{}, [][]int{}
		for _, p := range pl {
			a = append(a, []int{int(p.ToStore), int(p.PeerID)})
		}
		for _, d := range dv {
			b = append(b, []int{int(d.ToStore), int(d.PeerID)})
		}
		return a, b
	}
	switch x := s.(type) {
	case operator.AddPeer:
		return trace.Ev{"k": "AddPeer", "store": int(x.ToStore), "peer": int(x.PeerID)}
	case operator.AddLightPeer:
		return trace.Ev{"k": "AddLightPeer", "store": int(x.ToStore), "peer": int(x.PeerID)}
	case operator.AddLearner:
		return trace.Ev{"k": "AddLearner", "store": int(x.ToStore), "peer": int(x.PeerID)}
	case operator.AddLightLearner:
		return trace.Ev{"k": "AddLightLearner", "store": int(x.ToStore), "peer": int(x.PeerID)}
	case operator.PromoteLearner:
		return trace.Ev{"k": "PromoteLearner", "store": int(x.ToStore), "peer": int(x.PeerID)}
	case operator.RemovePeer:
		return trace.Ev{"k": "RemovePeer", "store": int(x.FromStore), "peer": int(x.PeerID)}
	case operator.TransferLeader:
		return trace.Ev{"k": "TransferLeader", "from": int(x.FromStore), "to": int(x.ToStore)}
	case operator.DemoteFollower:
		return trace.Ev{"k": "DemoteFollower", "store": int(x.ToStore), "peer": int(x.PeerID)}
	case operator.ChangePeerV2Enter:
		a, b := pairs(x.PromoteLearners, x.DemoteVoters)
		return trace.Ev{"k": "Enter", "promotes": a, "demotes": b}
	case operator.ChangePeerV2Leave:
		a, b := pairs(x.PromoteLearners, x.DemoteVoters)
		return trace.Ev{"k": "Leave", "promotes": a, "demotes": b}
	}
	switch x := s.(type) {
	case operator.MergeRegion:
		return trace.Ev{"k": "Merge", "passive": x.IsPassive}
	case operator.SplitRegion:
		sk := []string{}
		for _, k := range x.SplitKeys {
			sk = append(sk, fmt.Sprintf("%x", k))
		}
		return trace.Ev{"k": "Split", "keys": []string{string(x.StartKey), string(x.EndKey)}, "split_keys": sk}
	}
	return trace.Ev{"k": "Other", "text": s.String()}
}

// Apply is the faithful store simulator: the effect of a step on the region as TiKV would perform it.
func Apply(r *core.RegionInfo, s operator.OpStep) *core.RegionInfo {
	setRole := func(r *core.RegionInfo, store uint64, role metapb.PeerRole) *core.RegionInfo {
		var peers []*metapb.Peer
		for _, p := range r.GetPeers() {
			q := *p
			if p.StoreId == store {
				q.Role = role
			}
			peers = append(peers, &q)
		}
		nr := r.Clone(core.SetPeers(peers))
		if l := r.GetLeader(); l != nil {
			for _, p := range peers {
				if p.Id == l.Id {
					nr = nr.Clone(core.WithLeader(p))
				}
			}
		}
		return nr
	}
	switch x := s.(type) {
	case operator.AddPeer:
		return r.Clone(core.WithAddPeer(&metapb.Peer{Id: x.PeerID, StoreId: x.ToStore}), core.WithIncConfVer())
	case operator.AddLightPeer:
		return r.Clone(core.WithAddPeer(&metapb.Peer{Id: x.PeerID, StoreId: x.ToStore}), core.WithIncConfVer())
	case operator.AddLearner:
		return r.Clone(core.WithAddPeer(&metapb.Peer{Id: x.PeerID, StoreId: x.ToStore, Role: metapb.PeerRole_Learner}), core.WithIncConfVer())
	case operator.AddLightLearner:
		return r.Clone(core.WithAddPeer(&metapb.Peer{Id: x.PeerID, StoreId: x.ToStore, Role: metapb.PeerRole_Learner}), core.WithIncConfVer())
	case operator.PromoteLearner:
		return setRole(r, x.ToStore, metapb.PeerRole_Voter).Clone(core.WithIncConfVer())
	case operator.RemovePeer:
		return r.Clone(core.WithRemoveStorePeer(x.FromStore), core.WithIncConfVer())
	case operator.TransferLeader:
		if p := r.GetStorePeer(x.ToStore); p != nil {
			return r.Clone(core.WithLeader(p))
		}
		return r
	case operator.DemoteFollower:
		return setRole(r, x.ToStore, metapb.PeerRole_Learner).Clone(core.WithIncConfVer())
	case operator.ChangePeerV2Enter:
		nr := r
		for _, p := range x.PromoteLearners {
			nr = setRole(nr, p.ToStore, metapb.PeerRole_IncomingVoter).Clone(core.WithIncConfVer())
		}
		for _, d := range x.DemoteVoters {
			nr = setRole(nr, d.ToStore, metapb.PeerRole_DemotingVoter).Clone(core.WithIncConfVer())
		}
		return nr
	case operator.ChangePeerV2Leave:
		nr := r
		for _, p := range x.PromoteLearners {
			nr = setRole(nr, p.ToStore, metapb.PeerRole_Voter).Clone(core.WithIncConfVer())
		}
		for _, d := range x.DemoteVoters {
			nr = setRole(nr, d.ToStore, metapb.PeerRole_Learner).Clone(core.WithIncConfVer())
		}
		return nr
	}
	return r
}

func roleName(p *metapb.Peer) string {
	switch p.GetRole() {
	case metapb.PeerRole_Learner:
		return "Learner"
	case metapb.PeerRole_IncomingVoter:
		return "IncomingVoter"
	case metapb.PeerRole_DemotingVoter:
		return "DemotingVoter"
	}
	return "Voter"
}

// PeersRec lists [store, peer id, role] sorted by store.
func PeersRec(ps []*metapb.Peer) [][]interface{} {
	out := [][]interface{}{}
	for _, p := range ps {
		out = append(out, []interface{}{int(p.StoreId), int(p.Id), roleName(p)})
	}
	sort.Slice(out, func(i, j int) bool { return out[i][0].(int) < out[j][0].(int) })
	return out
}

func build(args map[string]string) error {
	seed := int64(cli.Int(args, "seed", 1))
	n := cli.Int(args, "cases", 2000)
	maxStores := cli.Int(args, "stores", 5)
	w, err := trace.Create(args["out"])
	if err != nil {
		return err
	}
	defer w.Close()
	rng := rand.New(rand.NewSource(seed))
	w.Reset(trace.Ev{"beh": 0, "mode": "build"})
	built, failed := 0, 0
	for c := 0; c < n; c++ {
		ctx, cancel := context.WithCancel(context.Background())
		cluster := mockcluster.NewCluster(ctx, config.NewTestOptions())
		cluster.SetEnablePlacementRules(false)
		joint := rng.Intn(2) == 0
		if !joint {
			cluster.DisableFeature(versioninfo.JointConsensus)
		}
		ns := 3 + rng.Intn(maxStores-2)
		for i := 1; i <= ns; i++ {
			labels := map[string]string{"zone": []string{"z1", "z2", "z3"}[rng.Intn(3)]}
			if rng.Intn(8) == 0 {
				labels["reject"] = "leader"
			}
			cluster.AddLabelsStore(uint64(i), 1, labels)
			switch rng.Intn(12) {
			case 0:
				cluster.SetStoreDown(uint64(i))
			case 1:
				cluster.SetStoreOffline(uint64(i))
			}
		}
		// origin
		perm := rng.Perm(ns)
		np := 1 + rng.Intn(4)
		if np > ns {
			np = ns
		}
		var peers []*metapb.Peer
		var voters []*metapb.Peer
		for i := 0; i < np; i++ {
			p := &metapb.Peer{Id: uint64(100 + i), StoreId: uint64(perm[i] + 1)}
			if i > 0 && rng.Intn(4) == 0 {
				p.Role = metapb.PeerRole_Learner
			} else {
				voters = append(voters, p)
			}
			peers = append(peers, p)
		}
		leader := voters[rng.Intn(len(voters))]
		var pending []*metapb.Peer
		for _, p := range peers {
			if p.Id != leader.Id && rng.Intn(8) == 0 {
				pending = append(pending, p)
			}
		}
		region := core.NewRegionInfo(&metapb.Region{Id: 1, Peers: peers, RegionEpoch: &metapb.RegionEpoch{ConfVer: 5, Version: 5}}, leader, core.WithPendingPeers(pending))
		// target
		target := map[uint64]*metapb.Peer{}
		perm2 := rng.Perm(ns)
		nt := 1 + rng.Intn(4)
		if nt > ns {
			nt = ns
		}
		for i := 0; i < nt; i++ {
			st := uint64(perm2[i] + 1)
			if rng.Intn(3) != 0 && i < len(peers) {
				st = peers[i].StoreId // keep many stores in common with the origin
			}
			if _, ok := target[st]; ok {
				continue
			}
			role := metapb.PeerRole_Voter
			if rng.Intn(4) == 0 {
				role = metapb.PeerRole_Learner
			}
			target[st] = &metapb.Peer{StoreId: st, Role: role}
			if o := region.GetStorePeer(st); o != nil && rng.Intn(6) != 0 {
				target[st].Id = o.Id
			}
		}
		b := operator.NewBuilder("verif", cluster, region)
		b.SetPeers(target)
		targetLeader := 0
		if rng.Intn(2) == 0 {
			var tv []uint64
			for st, p := range target {
				if p.Role == metapb.PeerRole_Voter {
					tv = append(tv, st)
				}
			}
			if len(tv) > 0 {
				sort.Slice(tv, func(i, j int) bool { return tv[i] < tv[j] })
				targetLeader = int(tv[rng.Intn(len(tv))])
				b.SetLeader(uint64(targetLeader))
			}
		}
		light, force := rng.Intn(4) == 0, rng.Intn(4) == 0
		if light {
			b.EnableLightWeight()
		}
		if force {
			b.EnableForceTargetLeader()
		}
		op, err := b.Build(0)
		ev := trace.Ev{"ev": "op", "n": c, "joint": joint, "light": light, "force": force, "origin": PeersRec(peers), "leader": int(leader.StoreId),
			"target_leader": targetLeader}
		var tps []*metapb.Peer
		for _, p := range target {
			tps = append(tps, p)
		}
		ev["target"] = PeersRec(tps)
		if err != nil {
			failed++
			ev["ev"], ev["error"] = "refused", err.Error()
			w.Emit(ev)
			cancel()
			continue
		}
		built++
		steps := []trace.Ev{}
		safety := []bool{}
		r := region
		for i := 0; i < op.Len(); i++ {
			st := op.Step(i)
			steps = append(steps, StepRec(st))
			safety = append(safety, st.CheckSafety(r) == nil)
			r = Apply(r, st)
		}
		ev["steps"], ev["safety"] = steps, safety
		ev["sim_final"] = PeersRec(r.GetPeers())
		w.Emit(ev)
		cancel()
	}
	w.Emit(trace.Ev{"ev": "summary", "built": built, "refused": failed})
	return nil
}
