// Package syncerh binds spec/syncer/*.tla to server/region_syncer.
package syncerh

import (
	"context"
	"fmt"
	"net"
	"os"
	"sort"
	"time"

	"github.com/pingcap/kvproto/pkg/metapb"
	"github.com/pingcap/kvproto/pkg/pdpb"
	"github.com/tikv/pd/pkg/grpcutil"
	"github.com/tikv/pd/server/core"
	"github.com/tikv/pd/server/kv"
	syncer "github.com/tikv/pd/server/region_syncer"
	"google.golang.org/grpc"

	"pdverif/internal/cli"
	"pdverif/internal/trace"
)

func init() {
	cli.Register("syncer history", history)
	cli.Register("syncer sync", syncRun)
}

// flakyKV fails the next Save when armed (the write of the history index is the only Save the buffer makes).
type flakyKV struct {
	kv.Base
	failNext, failed bool
}

func (k *flakyKV) Save(key, value string) error {
	if k.failNext {
		k.failNext, k.failed = false, true
		return fmt.Errorf("injected write failure")
	}
	return k.Base.Save(key, value)
}

func rec(i int) *core.RegionInfo {
	return core.NewRegionInfo(&metapb.Region{Id: uint64(i + 1000), StartKey: []byte(fmt.Sprintf("%08d", i)), EndKey: []byte(fmt.Sprintf("%08d", i+1))}, nil)
}

// history replays TLC behaviours of HistoryBuffer.tla on the real buffer.
func history(args map[string]string) error {
	var behs [][]cli.Step
	if err := cli.ReadJSON(args["in"], &behs); err != nil {
		return err
	}
	capa := cli.Int(args, "cap", 3)
	w, err := trace.Create(args["out"])
	if err != nil {
		return err
	}
	defer w.Close()
	for bi, beh := range behs {
		store := &flakyKV{Base: kv.NewMemoryKV()}
		b := syncer.VerifNewHistoryBuffer(capa, store)
		observe := func(ev trace.Ev) {
			idx := int(b.NextIndex())
			ev["index"] = idx
			qs := [][]interface{}{}
			for i := idx - capa - 3; i <= idx+2; i++ {
				if i < 0 {
					continue
				}
				ids := []int{}
				for _, r := range b.RecordsFrom(uint64(i)) {
					ids = append(ids, int(r.GetID())-1000)
				}
				qs = append(qs, []interface{}{i, ids})
			}
			ev["from"] = qs
		}
		ev0 := trace.Ev{"beh": bi, "mode": "history", "cap": capa, "pfail": false}
		observe(ev0)
		w.Reset(ev0)
		for si, st := range beh {
			if si == 0 {
				continue
			}
			ev := trace.Ev{"ev": st.Action, "beh": bi, "step": si, "i": 0, "before": int(b.NextIndex()), "pfail": false}
			switch st.Action {
			case "Record":
				// Record(TRUE): the write of the index that is due in this step fails
				store.failNext, store.failed = st.Str(0) == "true", false
				b.Record(rec(int(b.NextIndex())))
				ev["pfail"] = store.failed
				store.failNext = false
			case "Records":
				// Records(n, f): n Record steps, each one logged; with f the one write of the index that falls due fails
				store.failNext = st.Str(1) == "true"
				for k := 0; k < st.Num(0); k++ {
					e := trace.Ev{"ev": "Record", "beh": bi, "step": si, "i": 0, "before": int(b.NextIndex()), "pfail": false}
					store.failed = false
					b.Record(rec(int(b.NextIndex())))
					e["pfail"] = store.failed
					if k < st.Num(0)-1 {
						observe(e)
						w.Emit(e)
					} else {
						ev = e
					}
				}
				store.failNext = false
			case "Reset":
				ev["i"] = st.Num(0)
				b.ResetWithIndex(uint64(st.Num(0)))
			case "Restart":
				b = syncer.VerifNewHistoryBuffer(capa, store)
			}
			observe(ev)
			w.Emit(ev)
		}
	}
	return nil
}

// ---------------------------------------------------------------- full / incremental synchronisation

type node struct {
	name    string
	ctx     context.Context
	storage *core.Storage
	bc      *core.BasicCluster
	leader  *pdpb.Member
	member  *pdpb.Member
	dir     string
}

func (n *node) LoopContext() context.Context        { return n.ctx }
func (n *node) ClusterID() uint64                   { return 7 }
func (n *node) GetMemberInfo() *pdpb.Member         { return n.member }
func (n *node) GetLeader() *pdpb.Member             { return n.leader }
func (n *node) GetStorage() *core.Storage           { return n.storage }
func (n *node) Name() string                        { return n.name }
func (n *node) GetRegions() []*core.RegionInfo      { return n.bc.GetRegions() }
func (n *node) GetTLSConfig() *grpcutil.TLSConfig   { return &grpcutil.TLSConfig{} }
func (n *node) GetBasicCluster() *core.BasicCluster { return n.bc }

func newNode(ctx context.Context, name, url string) (*node, error) {
	dir, err := os.MkdirTemp("", "vf_sync")
	if err != nil {
		return nil, err
	}
	rs, err := core.NewRegionStorage(ctx, dir, nil)
	if err != nil {
		return nil, err
	}
	m := &pdpb.Member{Name: name, MemberId: 1, ClientUrls: []string{url}}
	return &node{name: name, ctx: ctx, storage: core.NewStorage(kv.NewMemoryKV(), core.WithRegionStorage(rs)), bc: core.NewBasicCluster(), member: m, dir: dir}, nil
}

type pdStub struct {
	pdpb.PDServer
	s *syncer.RegionSyncer
}

func (p *pdStub) SyncRegions(stream pdpb.PD_SyncRegionsServer) error { return p.s.Sync(stream) }

func region(i int, withLeader bool) *core.RegionInfo {
	meta := &metapb.Region{Id: uint64(i), StartKey: []byte(fmt.Sprintf("%08d", i)), EndKey: []byte(fmt.Sprintf("%08d", i+1)),
		RegionEpoch: &metapb.RegionEpoch{Version: 1, ConfVer: 1},
		Peers:       []*metapb.Peer{{Id: uint64(i*10 + 1), StoreId: 1}, {Id: uint64(i*10 + 2), StoreId: 2}, {Id: uint64(i*10 + 3), StoreId: 3}}}
	var leader *metapb.Peer
	if withLeader {
		leader = meta.Peers[i%3]
	}
	return core.NewRegionInfo(meta, leader, core.SetWrittenBytes(uint64(1000+i)), core.SetWrittenKeys(uint64(2000+i)),
		core.SetReadBytes(uint64(3000+i)), core.SetReadKeys(uint64(4000+i)))
}

func view(bc *core.BasicCluster) [][]int {
	out := [][]int{}
	for _, r := range bc.GetRegions() {
		var s, e int
		fmt.Sscanf(string(r.GetStartKey()), "%d", &s)
		fmt.Sscanf(string(r.GetEndKey()), "%d", &e)
		ld := 0
		if r.GetLeader() != nil {
			ld = int(r.GetLeader().GetId())
		}
		out = append(out, []int{int(r.GetID()), s, e, len(r.GetPeers()), ld, int(r.GetBytesWritten()), int(r.GetKeysWritten()), int(r.GetBytesRead()), int(r.GetKeysRead())})
	}
	sort.Slice(out, func(i, j int) bool { return out[i][0] < out[j][0] })
	return out
}

// syncRun: a leader with n regions, a follower doing a full synchronisation over a real gRPC stream with the real
// RegionSyncer on both sides, then incremental changes broadcast by the leader's RunServer.
func syncRun(args map[string]string) error {
	w, err := trace.Create(args["out"])
	if err != nil {
		return err
	}
	defer w.Close()
	sizes := []int{0, 1, 2, 99, 100, 101, 200, 250}
	if args["sizes"] == "quick" {
		sizes = []int{0, 1, 99, 100, 101, 205}
	}
	beh := 0
	for _, n := range sizes {
		for mode := 0; mode < 3; mode++ { // every region has a leader / none has (the leader just restarted) / mixed
			withLeader := mode == 0
			if mode == 2 && n < 2 {
				continue
			}
			if err := func() error {
				ctx, cancel := context.WithCancel(context.Background())
				defer cancel()
				lis, err := net.Listen("tcp", "127.0.0.1:0")
				if err != nil {
					return err
				}
				url := "http://" + lis.Addr().String()
				leader, err := newNode(ctx, "leader", url)
				if err != nil {
					return err
				}
				defer os.RemoveAll(leader.dir)
				leader.leader = leader.member
				for i := 1; i <= n; i++ {
					leader.bc.PutRegion(region(i, mode == 0 || (mode == 2 && i%7 != 3)))
				}
				// the leader has been running for a while: its change log starts at a persisted index, so a follower that
				// starts from index 0 is outside the window and gets a full synchronisation
				leader.storage.GetRegionStorage().Save("historyIndex", "5000")
				ls := syncer.NewRegionSyncer(leader)
				gs := grpc.NewServer()
				pdpb.RegisterPDServer(gs, &pdStub{s: ls})
				go gs.Serve(lis)
				defer gs.Stop()
				notifier := make(chan *core.RegionInfo, 1000)
				quit := make(chan struct{})
				go ls.RunServer(notifier, quit)
				defer close(quit)

				follower, err := newNode(ctx, "follower", "http://127.0.0.1:1")
				if err != nil {
					return err
				}
				defer os.RemoveAll(follower.dir)
				follower.leader = leader.member
				fs := syncer.NewRegionSyncer(follower)
				fs.StartSyncWithLeader(url)
				defer fs.StopSyncWithLeader()
				waitFor := func(want int) {
					dl := time.Now().Add(15 * time.Second)
					for time.Now().Before(dl) {
						if follower.bc.GetRegionCount() >= want {
							time.Sleep(150 * time.Millisecond)
							return
						}
						time.Sleep(20 * time.Millisecond)
					}
				}
				waitFor(n)
				w.Reset(trace.Ev{"beh": beh, "mode": "sync", "n": n, "with_leader": withLeader})
				w.Emit(trace.Ev{"ev": "full", "beh": beh, "n": n, "leader": view(leader.bc), "follower": view(follower.bc)})
				// incremental: changed and new regions, in several broadcast batches
				k := 0
				for round := 0; round < 3; round++ {
					for j := 0; j < 3; j++ {
						k++
						id := n + k
						if j == 2 && n > 0 {
							id = 1 + (k % n) // an existing region changes its leader and flow
						}
						r := region(id, true)
						r = r.Clone(core.WithLeader(r.GetPeers()[(id+round+1)%3]), core.SetWrittenBytes(uint64(5000+k)))
						leader.bc.PutRegion(r)
						notifier <- r
					}
					time.Sleep(120 * time.Millisecond)
				}
				dl := time.Now().Add(10 * time.Second)
				for time.Now().Before(dl) && (follower.bc.GetRegionCount() < leader.bc.GetRegionCount() || fs.VerifHistoryNextIndex() != ls.VerifHistoryNextIndex()) {
					time.Sleep(20 * time.Millisecond)
				}
				time.Sleep(150 * time.Millisecond)
				w.Emit(trace.Ev{"ev": "incremental", "beh": beh, "n": n, "leader": view(leader.bc), "follower": view(follower.bc)})
				beh++
				return nil
			}(); err != nil {
				return err
			}
		}
	}
	return nil
}
