// Package storageh binds spec/storage/Load.tla to core.Storage / core.RegionStorage over the memory, leveldb and
// etcd backends.
package storageh

import (
	"context"
	"fmt"
	"math"
	"math/rand"
	"os"
	"sort"
	"strings"
	"time"

	"github.com/pingcap/kvproto/pkg/metapb"
	"github.com/tikv/pd/server/core"
	"github.com/tikv/pd/server/kv"

	"pdverif/internal/cli"
	"pdverif/internal/etcdgate"
	"pdverif/internal/trace"
)

func init() {
	cli.Register("storage load", load)
}

func s64(x uint64) string { return fmt.Sprintf("%d", x) }

func idSets(rng *rand.Rand, n int) map[string][]uint64 {
	dense := make([]uint64, n)
	sparse := make([]uint64, n)
	top := make([]uint64, n)
	cur := uint64(0)
	for i := 0; i < n; i++ {
		dense[i] = uint64(i + 1)
		cur += 1 + uint64(rng.Intn(1000))
		sparse[i] = cur
		top[i] = math.MaxUint64 - uint64(n-1-i) // ends exactly at 2^64-1
	}
	return map[string][]uint64{"dense": dense, "sparse": sparse, "top": top}
}

type limitKV struct {
	kv.Base
	maxItems int // a range read asking for more than maxItems items fails ("message too large")
	reads    int
}

func (l *limitKV) LoadRange(key, endKey string, limit int) ([]string, []string, error) {
	l.reads++
	if l.maxItems > 0 && (limit == 0 || limit > l.maxItems) {
		return nil, nil, fmt.Errorf("verif: response of %d items exceeds the message size limit", limit)
	}
	return l.Base.LoadRange(key, endKey, limit)
}

func load(args map[string]string) error {
	seed := int64(cli.Int(args, "seed", 1))
	thorough := args["tier"] == "thorough"
	w, err := trace.Create(args["out"])
	if err != nil {
		return err
	}
	defer w.Close()
	rng := rand.New(rand.NewSource(seed))
	sizes := []int{0, 1, 2, 99, 100, 101, 199, 200, 201, 350}
	if thorough {
		sizes = append(sizes, 999, 1000, 1001, 9999, 10000, 10001)
	}
	e, err := etcdgate.Start()
	if err != nil {
		return err
	}
	defer e.Stop()
	ecli, err := e.Client()
	if err != nil {
		return err
	}
	defer ecli.Close()
	beh := 0
	w.Reset(trace.Ev{"beh": 0, "mode": "load"})
	// ---- stores
	for _, n := range sizes {
		for kind, ids := range idSets(rng, n) {
			for _, backend := range []string{"mem", "etcd"} {
				if backend == "etcd" && (n > 1001 || kind == "sparse") {
					continue
				}
				var base kv.Base
				if backend == "mem" {
					base = kv.NewMemoryKV()
				} else {
					base = kv.NewEtcdKVBase(ecli, fmt.Sprintf("/vf/st/%d", beh))
				}
				st := core.NewStorage(base)
				var saved, deleted, loaded []string
				weights := map[uint64]float64{}
				for _, id := range ids {
					if err := st.SaveStore(&metapb.Store{Id: id, Address: "a" + s64(id)}); err != nil {
						return err
					}
					saved = append(saved, s64(id))
					if rng.Intn(3) == 0 {
						wv := float64(2 + rng.Intn(5))
						st.SaveStoreWeight(id, wv, wv+1)
						weights[id] = wv
					}
				}
				for _, id := range ids {
					if rng.Intn(10) == 0 {
						st.DeleteStore(&metapb.Store{Id: id})
						deleted = append(deleted, s64(id))
					}
				}
				wok := true
				err := st.LoadStores(func(s *core.StoreInfo) {
					loaded = append(loaded, s64(s.GetID()))
					if wv, ok := weights[s.GetID()]; ok && (s.GetLeaderWeight() != wv || s.GetRegionWeight() != wv+1) {
						wok = false
					}
					if _, ok := weights[s.GetID()]; !ok && (s.GetLeaderWeight() != 1 || s.GetRegionWeight() != 1) {
						wok = false
					}
				})
				w.Emit(trace.Ev{"ev": "stores", "beh": beh, "backend": backend, "ids": kind, "n": n, "saved": nn(saved), "deleted": nn(deleted),
					"loaded": nn(loaded), "weights_ok": wok, "err": err != nil})
				beh++
			}
		}
	}
	// ---- regions: all three backends, flush / close / stop without close, a write that fails once
	for _, n := range sizes {
		for kind, ids := range idSets(rng, n) {
			for _, backend := range []string{"mem", "leveldb", "leveldb-stop", "leveldb-flushfail", "leveldb-cancel", "leveldb-unused", "limit"} {
				if (backend == "limit" && n < 100) || (n > 1001 && backend != "mem" && backend != "leveldb") {
					continue
				}
				dir, _ := os.MkdirTemp("", "vf_rs")
				var st *core.Storage
				var rs *core.RegionStorage
				mem := kv.NewMemoryKV()
				lk := &limitKV{Base: mem}
				rsCtx, rsCancel := context.WithCancel(context.Background())
				if strings.HasPrefix(backend, "leveldb") {
					rs, err = core.NewRegionStorage(rsCtx, dir, nil)
					if err != nil {
						return err
					}
					st = core.NewStorage(mem, core.WithRegionStorage(rs))
					if backend == "leveldb-unused" {
						// a region storage is attached but the configuration says not to use it: everything goes to the default backend
						st.SwitchToDefaultStorage()
					} else {
						st.SwitchToRegionStorage()
					}
				} else {
					st = core.NewStorage(lk)
				}
				var saved, deleted, flushed, loaded []string
				bigKey := ""
				if backend == "limit" {
					bigKey = strings.Repeat("k", 2000)
				}
				for i, id := range ids {
					r := &metapb.Region{Id: id, StartKey: []byte(fmt.Sprintf("%s%012d", bigKey, i)), EndKey: []byte(fmt.Sprintf("%s%012d", bigKey, i+1)),
						RegionEpoch: &metapb.RegionEpoch{Version: 1, ConfVer: 1}}
					if backend == "leveldb-flushfail" && i == n/2 && n > 0 {
						// the storage fails once: close the leveldb handle, let a flush fail, reopen, flush again
						rs.LeveldbKV.Close()
						st.SaveRegion(r)
						ferr := st.Flush()
						ldb, err := kv.NewLeveldbKV(dir)
						if err != nil {
							return err
						}
						rs.LeveldbKV = ldb
						saved = append(saved, s64(id))
						if ferr == nil {
							return fmt.Errorf("flush on a closed leveldb did not fail")
						}
						if err := st.Flush(); err == nil {
							flushed = append([]string{}, saved...)
						}
						continue
					}
					if err := st.SaveRegion(r); err != nil {
						return err
					}
					saved = append(saved, s64(id))
					if rs != nil && i%57 == 56 && rng.Intn(2) == 0 {
						if st.Flush() == nil {
							flushed = append([]string{}, saved...)
						}
					}
					if rng.Intn(12) == 0 {
						st.DeleteRegion(r)
						deleted = append(deleted, s64(id))
					}
					if i > 0 && rng.Intn(10) == 0 {
						// an earlier region (flushed long ago or still batched) is saved again with a newer epoch and, half of the
						// time, deleted before the next flush: neither version may come back
						j := rng.Intn(i)
						old := &metapb.Region{Id: ids[j], StartKey: []byte(fmt.Sprintf("%s%012d", bigKey, j)), EndKey: []byte(fmt.Sprintf("%s%012d", bigKey, j+1)),
							RegionEpoch: &metapb.RegionEpoch{Version: 2, ConfVer: 1}}
						gone := false
						for _, d := range deleted {
							gone = gone || d == s64(ids[j])
						}
						if !gone {
							if err := st.SaveRegion(old); err != nil {
								return err
							}
							if rng.Intn(2) == 0 {
								st.DeleteRegion(old)
								deleted = append(deleted, s64(ids[j]))
							}
						}
					}
				}
				switch backend {
				case "leveldb", "leveldb-flushfail", "leveldb-unused":
					if st.Close() == nil {
						flushed = append([]string{}, saved...)
					}
				case "leveldb-cancel":
					// the usual shutdown order: the server's context is cancelled first, then the storage is flushed (and the
					// process stops) or closed; what a flush or close reports as done must be there afterwards
					rsCancel()
					time.Sleep(2 * time.Millisecond)
					if rng.Intn(2) == 0 {
						if st.Flush() == nil {
							flushed = append([]string{}, saved...)
						}
						rs.LeveldbKV.Close()
					} else if st.Close() == nil {
						flushed = append([]string{}, saved...)
					}
				case "leveldb-stop":
					// the process stops between two batches: no Close; whatever was not flushed is lost
					rs.LeveldbKV.Close()
				default:
					flushed = append([]string{}, saved...)
				}
				var st2 *core.Storage
				if rs != nil {
					rs2, err := core.NewRegionStorage(context.Background(), dir, nil)
					if err != nil {
						return err
					}
					st2 = core.NewStorage(mem, core.WithRegionStorage(rs2))
					if backend == "leveldb-unused" {
						st2.SwitchToDefaultStorage()
					} else {
						st2.SwitchToRegionStorage()
					}
				} else {
					st2 = st
					if backend == "limit" {
						lk.maxItems = 200 // forces the adaptive page size down from 10000 to 156
					}
				}
				lerr := st2.LoadRegions(func(r *core.RegionInfo) []*core.RegionInfo {
					loaded = append(loaded, s64(r.GetID()))
					return nil
				})
				w.Emit(trace.Ev{"ev": "regions", "beh": beh, "backend": backend, "ids": kind, "n": n, "saved": nn(saved), "deleted": nn(deleted),
					"flushed": nn(flushed), "loaded": nn(loaded), "err": lerr != nil})
				if rs != nil {
					st2.Close()
				}
				rsCancel()
				os.RemoveAll(dir)
				beh++
			}
		}
	}
	// ---- loading into the cache prunes stale / overlapped leftovers from storage
	for c := 0; c < 60; c++ {
		for _, backend := range []string{"mem", "leveldb"} {
			dir, _ := os.MkdirTemp("", "vf_rs")
			mem := kv.NewMemoryKV()
			var st *core.Storage
			if backend == "leveldb" {
				rs, err := core.NewRegionStorage(context.Background(), dir, nil)
				if err != nil {
					return err
				}
				st = core.NewStorage(mem, core.WithRegionStorage(rs))
				st.SwitchToRegionStorage()
			} else {
				st = core.NewStorage(mem)
			}
			// a consistent layer of current regions plus leftovers of older versions that overlap them
			var before [][]int
			k := 0
			id := 1
			perm := rng.Perm(40)
			for k < 12 {
				wdt := 1 + rng.Intn(3)
				before = append(before, []int{perm[id%40] + 1, k, k + wdt, 3 + rng.Intn(3)})
				id++
				k += wdt
			}
			for l := 0; l < 1+rng.Intn(5); l++ {
				s := rng.Intn(11)
				before = append(before, []int{perm[id%40] + 1, s, s + 1 + rng.Intn(3), 1 + rng.Intn(2)})
				id++
			}
			for _, r := range before {
				st.SaveRegion(&metapb.Region{Id: uint64(r[0]), StartKey: []byte(fmt.Sprintf("%03d", r[1])), EndKey: []byte(fmt.Sprintf("%03d", r[2])),
					RegionEpoch: &metapb.RegionEpoch{Version: uint64(r[3]), ConfVer: 1}})
			}
			st.Flush()
			bc := core.NewBasicCluster()
			lerr := st.LoadRegions(bc.CheckAndPutRegion)
			st.Flush()
			view := func(rs []*core.RegionInfo) [][]int {
				out := [][]int{}
				for _, r := range rs {
					var s, e int
					fmt.Sscanf(string(r.GetStartKey()), "%d", &s)
					fmt.Sscanf(string(r.GetEndKey()), "%d", &e)
					out = append(out, []int{int(r.GetID()), s, e, int(r.GetRegionEpoch().GetVersion())})
				}
				sort.Slice(out, func(i, j int) bool { return out[i][0] < out[j][0] })
				return out
			}
			var after []*core.RegionInfo
			st.LoadRegions(func(r *core.RegionInfo) []*core.RegionInfo { after = append(after, r); return nil })
			w.Emit(trace.Ev{"ev": "prune", "beh": beh, "backend": backend, "stored_before": before, "cache": view(bc.GetRegions()), "stored_after": view(after), "err": lerr != nil})
			st.Close()
			os.RemoveAll(dir)
			beh++
		}
	}
	return nil
}

func nn(x []string) []string {
	if x == nil {
		return []string{}
	}
	return x
}
